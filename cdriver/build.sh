#!/bin/sh
# Builds the C36 driver: libautomerge_core.a + automerge.h from /repo's CURRENT working tree
# (cargo makes this incremental), the header post-processed the way the CMake build does it, then
# the ASan/UBSan driver (and a plain -O1 driver for valgrind).
# usage: build.sh [outdir]     (default /verif/target-c; env C36_REPO overrides /repo)
# Prints only on failure; exit status non-zero on failure.
set -u
OUT="${1:-/verif/target-c}"
REPO="${C36_REPO:-/repo}"
HERE="$(cd "$(dirname "$0")" && pwd)"
mkdir -p "$OUT" || exit 1
LOG="$OUT/build.log"
# serialise concurrent callers
exec 9>"$OUT/.build.lock"
flock 9 2>/dev/null || true

fail() {
    echo "C36 build.sh: $1 failed (log: $LOG)" >&2
    tail -n 60 "$LOG" >&2
    exit 1
}

: >"$LOG"
(cd "$REPO/rust" && CBINDGEN_TARGET_DIR="$OUT" CARGO_TARGET_DIR="$OUT" CARGO_NET_OFFLINE=true \
    cargo build --offline -p automerge-c) >>"$LOG" 2>&1 || fail "cargo build -p automerge-c"

LIB="$OUT/debug/libautomerge_core.a"
RAW="$OUT/automerge.h"
[ -f "$LIB" ] || fail "locating libautomerge_core.a"
[ -f "$RAW" ] || fail "locating automerge.h"

mkdir -p "$OUT/include" || exit 1
# same two substitutions as CMakeLists.txt (cbindgen's ScreamingSnakeCase of `AM`, and size_of::<usize>())
sed -E 's/A_M([^_]+)_/AM_\1_/g; s/USIZE_/+8/g' "$RAW" >"$OUT/include/automerge.h.new" || fail "sed"
if ! cmp -s "$OUT/include/automerge.h.new" "$OUT/include/automerge.h" 2>/dev/null; then
    mv "$OUT/include/automerge.h.new" "$OUT/include/automerge.h"
else
    rm -f "$OUT/include/automerge.h.new"
fi

SRC="$HERE/driver.c"
need() { # need <target> : true when target is older than any input
    [ ! -x "$1" ] || [ "$SRC" -nt "$1" ] || [ "$LIB" -nt "$1" ] || [ "$OUT/include/automerge.h" -nt "$1" ]
}
if need "$OUT/driver"; then
    clang -g -O1 -fsanitize=address,undefined -fno-omit-frame-pointer -fno-sanitize-recover=undefined \
        -Wall -Wno-unused-function -I"$OUT/include" "$SRC" "$LIB" -lpthread -ldl -lm -o "$OUT/driver.tmp" \
        >>"$LOG" 2>&1 || fail "clang (sanitizer driver)"
    mv "$OUT/driver.tmp" "$OUT/driver"
fi
if need "$OUT/driver-plain"; then
    clang -g -gdwarf-4 -O1 -fno-omit-frame-pointer -Wall -Wno-unused-function -I"$OUT/include" "$SRC" "$LIB" \
        -lpthread -ldl -lm -o "$OUT/driver-plain.tmp" >>"$LOG" 2>&1 || fail "clang (plain driver)"
    mv "$OUT/driver-plain.tmp" "$OUT/driver-plain"
fi
exit 0
