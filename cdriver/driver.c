/*
 * C36 driver: interprets a line-based program against the automerge C ABI.
 *
 * One command per line, tokens separated by single spaces.  The driver keeps a table of live
 * `AMresult*` ("slots").  Every handle (document, object id, heads, change, sync state, cursor,
 * actor id, ...) is named through the slot (and item index) of the result that owns it, so the
 * program decides exactly how long each result lives.  The harness (props/c36.rs) only emits
 * commands whose handles are valid; nevertheless every handle lookup is checked and a failed one
 * prints `<cmd> badhandle` instead of calling into the library.
 *
 * Argument notation
 *   r      destination slot; the call is made first, then a result still held by the slot is
 *          freed, then the new result is stored
 *   d      slot whose first item is a document
 *   o      `R` (AM_ROOT) or `s.i` = object id of item i of slot s
 *   s.i    item i of slot s
 *   h      `-` (NULL) or a slot whose items are change hashes
 *   hex    hex bytes; `-` = empty, non-NULL; `~` = NULL span
 *   val    i:<int> u:<uint> f:<16 hex digits of the bits> b:<0|1> n s:<hex> y:<hex> c:<int>
 *          t:<int> o:<1 list|2 map|3 text>
 *
 * Every command prints exactly one transcript line.  Result lines look like
 *   <cmd> ok <n> [<item>|<item>...]      or      <cmd> ERR <message>
 * and an item is `<index> <objid> <value>`.
 * `RESET` ends a program: frees everything that is still alive, runs LeakSanitizer's recoverable leak
 * check and prints `RESET leaks=<0|1>`; the driver then accepts the next program (one process can
 * serve many programs).
 */
#include "automerge.h"

#include <inttypes.h>
#include <signal.h>
#include <stdarg.h>
#include <stdio.h>
#include <stdlib.h>
#include <string.h>
#include <unistd.h>

#define NSLOT 16
#define MAXTOK 16
#define MAXLINE (1 << 20)

static AMresult* slot[NSLOT];
static char* curline;
static char* curcopy;

/* provided by the ASan/LSan runtime; absent in the plain (valgrind) build */
int __lsan_do_recoverable_leak_check(void) __attribute__((weak));

/* ------------------------------------------------------------------ crash reporting */
static void report_current(void) {
    fflush(stdout);
    if (curcopy) {
        fprintf(stderr, "C36-CURRENT-LINE: %s\n", curcopy);
        fflush(stderr);
    }
}
/* called by the ASan runtime before it prints a report */
void __asan_on_error(void) {
    report_current();
}
static void on_signal(int sig) {
    report_current();
    fprintf(stderr, "C36-SIGNAL: %d\n", sig);
    fflush(stderr);
    signal(sig, SIG_DFL);
    raise(sig);
}

/* ------------------------------------------------------------------ output helpers */
static void out(const char* fmt, ...) {
    va_list ap;
    va_start(ap, fmt);
    vfprintf(stdout, fmt, ap);
    va_end(ap);
}

/* copy the viewed bytes out (the copy is what gets printed) */
static uint8_t* copy_out(AMbyteSpan sp) {
    uint8_t* p = malloc(sp.count ? sp.count : 1);
    if (sp.count) memcpy(p, sp.src, sp.count);
    return p;
}
static void put_hex_raw(const uint8_t* p, size_t n) {
    static const char* D = "0123456789abcdef";
    for (size_t i = 0; i < n; i++) {
        putc(D[p[i] >> 4], stdout);
        putc(D[p[i] & 15], stdout);
    }
}
static void put_hex(AMbyteSpan sp) {
    if (sp.src == NULL) {
        out("~");
        return;
    }
    if (sp.count == 0) {
        out("-");
        return;
    }
    uint8_t* p = copy_out(sp);
    put_hex_raw(p, sp.count);
    free(p);
}
/* long byte strings: length and FNV-1a 64 of the copied bytes */
static void put_blob(AMbyteSpan sp) {
    if (sp.src == NULL) {
        out("~");
        return;
    }
    uint8_t* p = copy_out(sp);
    if (sp.count <= 40) {
        out("%zu:", sp.count);
        put_hex_raw(p, sp.count);
    } else {
        uint64_t h = 0xcbf29ce484222325ULL;
        for (size_t i = 0; i < sp.count; i++) {
            h ^= p[i];
            h *= 0x100000001b3ULL;
        }
        out("%zu#%016" PRIx64, sp.count, h);
    }
    free(p);
}
static void put_text(AMbyteSpan sp) {
    uint8_t* p = copy_out(sp);
    for (size_t i = 0; i < sp.count; i++) putc(p[i] < 0x20 || p[i] > 0x7e ? '?' : p[i], stdout);
    free(p);
}

/* ------------------------------------------------------------------ argument parsing */
typedef struct {
    uint8_t* p;
    size_t n;
} Buf;
static Buf unhex(const char* s) {
    Buf b = {NULL, 0};
    if (strcmp(s, "~") == 0) return b;
    if (strcmp(s, "-") == 0) {
        b.p = malloc(1);
        return b;
    }
    size_t n = strlen(s) / 2;
    b.p = malloc(n ? n : 1);
    b.n = n;
    for (size_t i = 0; i < n; i++) {
        unsigned v;
        sscanf(s + 2 * i, "%2x", &v);
        b.p[i] = (uint8_t)v;
    }
    return b;
}
static AMbyteSpan span_of(Buf b) {
    AMbyteSpan sp = {b.p, b.n};
    return sp;
}
static int slot_of(const char* s) {
    int v = atoi(s);
    if (v < 0 || v >= NSLOT) return -1;
    return v;
}
static AMitem* nth_item(AMresult* r, size_t i) {
    if (!r) return NULL;
    AMitems it = AMresultItems(r);
    AMitemsAdvance(&it, (ptrdiff_t)i);
    return AMitemsNext(&it, 1);
}
/* "s.i" */
static AMitem* item_of(const char* tok) {
    int s, i;
    if (sscanf(tok, "%d.%d", &s, &i) != 2 || s < 0 || s >= NSLOT || i < 0) return NULL;
    return nth_item(slot[s], (size_t)i);
}
static AMdoc* doc_of(const char* tok) {
    int s = slot_of(tok);
    if (s < 0 || !slot[s]) return NULL;
    AMdoc* d = NULL;
    if (!AMitemToDoc(AMresultItem(slot[s]), &d)) return NULL;
    return d;
}
/* returns false on a bad handle; *out may be NULL = AM_ROOT */
static bool obj_of(const char* tok, const AMobjId** o) {
    if (strcmp(tok, "R") == 0) {
        *o = AM_ROOT;
        return true;
    }
    AMitem* it = item_of(tok);
    if (!it) return false;
    *o = AMitemObjId(it);
    return *o != NULL;
}
/* heads: "-" => NULL pointer */
static bool heads_of(const char* tok, AMitems* store, const AMitems** h) {
    if (strcmp(tok, "-") == 0) {
        *h = NULL;
        return true;
    }
    int s = slot_of(tok);
    if (s < 0 || !slot[s]) return false;
    *store = AMresultItems(slot[s]);
    *h = store;
    return true;
}
static AMsyncState* state_of(const char* tok) {
    int s = slot_of(tok);
    if (s < 0 || !slot[s]) return NULL;
    AMsyncState* st = NULL;
    if (!AMitemToSyncState(AMresultItem(slot[s]), &st)) return NULL;
    return st;
}

/* ------------------------------------------------------------------ reading results */
static void print_item(AMitem* item, const AMdoc* doc);

static void print_items_of(AMresult* r, const AMdoc* doc) {
    AMitems items = AMresultItems(r);
    size_t n = AMresultSize(r);
    if (AMitemsSize(&items) != n) out("!itemsSize");
    AMitem* it;
    size_t k = 0;
    while ((it = AMitemsNext(&items, 1)) != NULL) {
        if (k == 0 && it != AMresultItem(r)) out("!resultItem");
        if (k) out("|");
        print_item(it, doc);
        k++;
    }
    if (k != n) out("!count");
}

/* prints a freshly returned, temporary result and frees it */
static void print_tmp(AMresult* r, const AMdoc* doc) {
    if (AMresultStatus(r) != AM_STATUS_OK) {
        out("ERR");
    } else {
        out("%zu[", AMresultSize(r));
        print_items_of(r, doc);
        out("]");
    }
    AMresultFree(r);
}

static void print_objid(const AMobjId* id) {
    if (!id) {
        out("_");
        return;
    }
    const AMactorId* a = AMobjIdActorId(id);
    if (!a) {
        out("root");
        return;
    }
    out("%" PRIu64 "@", AMobjIdCounter(id));
    put_hex(AMactorIdBytes(a));
    out("#%zu", AMobjIdIndex(id));
}

static void print_item(AMitem* item, const AMdoc* doc) {
    AMbyteSpan sp;
    switch (AMitemIdxType(item)) {
        case AM_IDX_TYPE_KEY:
            if (AMitemKey(item, &sp)) {
                out("k:");
                put_hex(sp);
            } else
                out("k!");
            break;
        case AM_IDX_TYPE_POS: {
            size_t pos = 0;
            if (AMitemPos(item, &pos))
                out("p:%zu", pos);
            else
                out("p!");
            break;
        }
        default:
            out("_");
    }
    out(" ");
    const AMobjId* id = AMitemObjId(item);
    print_objid(id);
    out(" ");
    AMvalType vt = AMitemValType(item);
    switch (vt) {
        case AM_VAL_TYPE_VOID:
            out("void");
            break;
        case AM_VAL_TYPE_NULL:
            out("null");
            break;
        case AM_VAL_TYPE_BOOL: {
            bool b = false;
            if (!AMitemToBool(item, &b)) out("!");
            out("b:%d", b ? 1 : 0);
            break;
        }
        case AM_VAL_TYPE_INT: {
            int64_t v = 0;
            if (!AMitemToInt(item, &v)) out("!");
            out("i:%" PRId64, v);
            break;
        }
        case AM_VAL_TYPE_UINT: {
            uint64_t v = 0;
            if (!AMitemToUint(item, &v)) out("!");
            out("u:%" PRIu64, v);
            break;
        }
        case AM_VAL_TYPE_F64: {
            double v = 0;
            uint64_t bits;
            if (!AMitemToF64(item, &v)) out("!");
            memcpy(&bits, &v, 8);
            out("f:%016" PRIx64, bits);
            break;
        }
        case AM_VAL_TYPE_COUNTER: {
            int64_t v = 0;
            if (!AMitemToCounter(item, &v)) out("!");
            out("c:%" PRId64, v);
            break;
        }
        case AM_VAL_TYPE_TIMESTAMP: {
            int64_t v = 0;
            if (!AMitemToTimestamp(item, &v)) out("!");
            out("t:%" PRId64, v);
            break;
        }
        case AM_VAL_TYPE_STR:
            if (!AMitemToStr(item, &sp)) {
                out("s!");
                break;
            }
            out("s:");
            put_hex(sp);
            break;
        case AM_VAL_TYPE_BYTES:
            if (!AMitemToBytes(item, &sp)) {
                out("y!");
                break;
            }
            out("y:");
            put_blob(sp);
            break;
        case AM_VAL_TYPE_UNKNOWN: {
            AMunknownValue u;
            if (!AMitemToUnknown(item, &u)) {
                out("x!");
                break;
            }
            out("x:%u:", (unsigned)u.type_code);
            put_hex(u.bytes);
            break;
        }
        case AM_VAL_TYPE_OBJ_TYPE:
            if (doc)
                out("o:%d", (int)AMobjObjType(doc, id));
            else
                out("o:?");
            break;
        case AM_VAL_TYPE_CHANGE_HASH:
            if (!AMitemToChangeHash(item, &sp)) {
                out("h!");
                break;
            }
            out("h:");
            put_hex(sp);
            break;
        case AM_VAL_TYPE_ACTOR_ID: {
            const AMactorId* a = NULL;
            if (!AMitemToActorId(item, &a)) {
                out("a!");
                break;
            }
            out("a:");
            put_hex(AMactorIdBytes(a));
            out("/");
            put_text(AMactorIdStr(a));
            break;
        }
        case AM_VAL_TYPE_CHANGE: {
            AMchange* ch = NULL;
            if (!AMitemToChange(item, &ch)) {
                out("ch:shared");
                break;
            }
            out("ch{");
            put_hex(AMchangeHash(ch));
            out(",a=");
            print_tmp(AMchangeActorId(ch), NULL);
            out(",seq=%" PRIu64 ",start=%" PRIu64 ",max=%" PRIu64 ",time=%" PRId64 ",msg=", AMchangeSeq(ch),
                AMchangeStartOp(ch), AMchangeMaxOp(ch), AMchangeTime(ch));
            put_hex(AMchangeMessage(ch));
            out(",deps=");
            print_tmp(AMchangeDeps(ch), NULL);
            out(",size=%zu,empty=%d,raw=", AMchangeSize(ch), AMchangeIsEmpty(ch) ? 1 : 0);
            put_blob(AMchangeRawBytes(ch));
            out(",extra=");
            put_hex(AMchangeExtraBytes(ch));
            /* the hash view must be stable across calls */
            out(",");
            put_hex(AMchangeHash(ch));
            out("}");
            break;
        }
        case AM_VAL_TYPE_CURSOR: {
            const AMcursor* c = NULL;
            if (!AMitemToCursor(item, &c)) {
                out("cur!");
                break;
            }
            out("cur:");
            put_text(AMcursorStr(c));
            out(":");
            put_hex(AMcursorBytes(c));
            break;
        }
        case AM_VAL_TYPE_DOC:
            out("doc");
            break;
        case AM_VAL_TYPE_MARK: {
            const AMmark* m = NULL;
            if (!AMitemToMark(item, &m)) {
                out("mk!");
                break;
            }
            out("mk{");
            put_hex(AMmarkName(m));
            out(",%zu,%zu,", AMmarkStart(m), AMmarkEnd(m));
            print_tmp(AMmarkValue(m), NULL);
            out("}");
            break;
        }
        case AM_VAL_TYPE_SYNC_HAVE: {
            const AMsyncHave* hv = NULL;
            if (!AMitemToSyncHave(item, &hv)) {
                out("have!");
                break;
            }
            out("have{");
            print_tmp(AMsyncHaveLastSync(hv), NULL);
            out("}");
            break;
        }
        case AM_VAL_TYPE_SYNC_MESSAGE: {
            const AMsyncMessage* m = NULL;
            if (!AMitemToSyncMessage(item, &m)) {
                out("msg!");
                break;
            }
            out("msg{heads=");
            print_tmp(AMsyncMessageHeads(m), NULL);
            out(",needs=");
            print_tmp(AMsyncMessageNeeds(m), NULL);
            out(",haves=");
            print_tmp(AMsyncMessageHaves(m), NULL);
            out(",enc=");
            print_tmp(AMsyncMessageEncode(m), NULL);
            out("}");
            break;
        }
        case AM_VAL_TYPE_SYNC_STATE: {
            AMsyncState* st = NULL;
            if (!AMitemToSyncState(item, &st)) {
                out("st:shared");
                break;
            }
            bool has = false;
            out("st{shared=");
            print_tmp(AMsyncStateSharedHeads(st), NULL);
            out(",sent=");
            print_tmp(AMsyncStateLastSentHeads(st), NULL);
            out(",theirheads=");
            AMresult* r = AMsyncStateTheirHeads(st, &has);
            out("%d:", has ? 1 : 0);
            print_tmp(r, NULL);
            out(",theirneeds=");
            r = AMsyncStateTheirNeeds(st, &has);
            out("%d:", has ? 1 : 0);
            print_tmp(r, NULL);
            out(",theirhaves=");
            r = AMsyncStateTheirHaves(st, &has);
            out("%d:", has ? 1 : 0);
            print_tmp(r, NULL);
            out(",enc=");
            print_tmp(AMsyncStateEncode(st), NULL);
            out("}");
            break;
        }
        default:
            out("?%d", (int)vt);
    }
}

static void print_result(const char* cmd, AMresult* r, const AMdoc* doc) {
    out("%s ", cmd);
    switch (AMresultStatus(r)) {
        case AM_STATUS_OK:
            out("ok %zu [", AMresultSize(r));
            print_items_of(r, doc);
            out("]\n");
            break;
        case AM_STATUS_ERROR:
            if (AMresultSize(r) != 0 || AMresultItem(r) != NULL) out("!errsize ");
            out("ERR ");
            put_text(AMresultError(r));
            out("\n");
            break;
        default:
            out("INVALID\n");
    }
}

/* call made -> free what the slot held -> store -> read everything */
static void store(const char* cmd, const char* dst, AMresult* r, const AMdoc* doc) {
    int s = slot_of(dst);
    if (s < 0) {
        out("%s badslot\n", cmd);
        AMresultFree(r);
        return;
    }
    if (slot[s]) AMresultFree(slot[s]);
    slot[s] = r;
    print_result(cmd, r, doc);
}

#define BAD()                        \
    do {                             \
        out("%s badhandle\n", t[0]); \
        goto done;                   \
    } while (0)
#define NEED(n)                    \
    do {                           \
        if (nt < (n)) {            \
            out("%s badargs\n", t[0]); \
            goto done;             \
        }                          \
    } while (0)

static AMobjType objtype_of(int v) {
    switch (v) {
        case 1:
            return AM_OBJ_TYPE_LIST;
        case 2:
            return AM_OBJ_TYPE_MAP;
        case 3:
            return AM_OBJ_TYPE_TEXT;
        default:
            return AM_OBJ_TYPE_DEFAULT;
    }
}
static AMmarkExpand expand_of(int v) {
    switch (v) {
        case 1:
            return AM_MARK_EXPAND_NONE;
        case 2:
            return AM_MARK_EXPAND_BEFORE;
        case 3:
            return AM_MARK_EXPAND_AFTER;
        case 4:
            return AM_MARK_EXPAND_BOTH;
        default:
            return AM_MARK_EXPAND_DEFAULT;
    }
}
static size_t pos_of(const char* s) {
    if (strcmp(s, "max") == 0) return SIZE_MAX;
    return (size_t)strtoull(s, NULL, 10);
}

static void run_line(char* line) {
    char* t[MAXTOK];
    int nt = 0;
    Buf bufs[4] = {{0}};
    int nb = 0;
    for (char* p = strtok(line, " "); p && nt < MAXTOK; p = strtok(NULL, " ")) t[nt++] = p;
    if (nt == 0) return;
    const char* c = t[0];
    AMitems hs;
    const AMitems* h = NULL;
    const AMobjId* o = NULL;
#define HEX(tok) (bufs[nb] = unhex(tok), span_of(bufs[nb++]))

    /* ---------------- result management */
    if (!strcmp(c, "free")) {
        NEED(2);
        int s = slot_of(t[1]);
        if (s < 0 || !slot[s]) BAD();
        AMresultFree(slot[s]);
        slot[s] = NULL;
        out("free\n");
    } else if (!strcmp(c, "show")) { /* show s d|- : read a stored result again */
        NEED(3);
        int s = slot_of(t[1]);
        if (s < 0 || !slot[s]) BAD();
        const AMdoc* d = strcmp(t[2], "-") ? doc_of(t[2]) : NULL;
        print_result(c, slot[s], d);
    } else if (!strcmp(c, "cat")) {
        NEED(4);
        int a = slot_of(t[2]), b = slot_of(t[3]);
        if (a < 0 || b < 0 || !slot[a] || !slot[b]) BAD();
        store(c, t[1], AMresultCat(slot[a], slot[b]), NULL);
    } else if (!strcmp(c, "itemres")) {
        NEED(3);
        AMitem* it = item_of(t[2]);
        if (!it) BAD();
        size_t before = AMitemRefCount(it);
        AMresult* r = AMitemResult(it);
        out("rc=%zu->%zu ", before, AMitemRefCount(it));
        store(c, t[1], r, NULL);
    } else if (!strcmp(c, "iter")) { /* iter s mode */
        NEED(3);
        int s = slot_of(t[1]);
        if (s < 0 || !slot[s]) BAD();
        int mode = atoi(t[2]);
        AMitems items = AMresultItems(slot[s]);
        AMitem* it;
        out("iter");
        if (mode == 0) {
            AMitems rv = AMitemsReversed(&items);
            while ((it = AMitemsNext(&rv, 1)) != NULL) out(" %d", (int)AMitemValType(it));
        } else if (mode == 1) {
            AMitemsAdvance(&items, (ptrdiff_t)AMitemsSize(&items));
            while ((it = AMitemsPrev(&items, 1)) != NULL) out(" %d", (int)AMitemValType(it));
        } else if (mode == 2) {
            while ((it = AMitemsNext(&items, 2)) != NULL) out(" %d", (int)AMitemValType(it));
        } else {
            AMitemsNext(&items, 1);
            AMitemsNext(&items, 1);
            AMitems rw = AMitemsRewound(&items);
            AMitems again = AMresultItems(slot[s]);
            out(" eq=%d", AMitemsEqual(&rw, &again) ? 1 : 0);
            while ((it = AMitemsNext(&rw, 1)) != NULL) out(" %d", (int)AMitemValType(it));
        }
        out("\n");
    } else if (!strcmp(c, "itemeq")) {
        NEED(3);
        AMitem *a = item_of(t[1]), *b = item_of(t[2]);
        if (!a || !b) BAD();
        out("itemeq %d\n", AMitemEqual(a, b) ? 1 : 0);
    } else if (!strcmp(c, "objideq")) {
        NEED(3);
        AMitem *a = item_of(t[1]), *b = item_of(t[2]);
        if (!a || !b) BAD();
        out("objideq %d\n", AMobjIdEqual(AMitemObjId(a), AMitemObjId(b)) ? 1 : 0);
    } else if (!strcmp(c, "val")) { /* val r <val> : AMitemFrom* */
        NEED(3);
        const char* v = t[2];
        AMresult* r = NULL;
        switch (v[0]) {
            case 'i':
                r = AMitemFromInt(strtoll(v + 2, NULL, 10));
                break;
            case 'u':
                r = AMitemFromUint(strtoull(v + 2, NULL, 10));
                break;
            case 'f': {
                uint64_t bits = strtoull(v + 2, NULL, 16);
                double f;
                memcpy(&f, &bits, 8);
                r = AMitemFromF64(f);
                break;
            }
            case 'b':
                r = AMitemFromBool(v[2] == '1');
                break;
            case 'n':
                r = AMitemFromNull();
                break;
            case 's':
                r = AMitemFromStr(HEX(v + 2));
                break;
            case 'y': {
                AMbyteSpan sp = HEX(v + 2);
                r = AMitemFromBytes(sp.src, sp.count);
                break;
            }
            case 'c':
                r = AMitemFromCounter(strtoll(v + 2, NULL, 10));
                break;
            case 't':
                r = AMitemFromTimestamp(strtoll(v + 2, NULL, 10));
                break;
            case 'h':
                r = AMitemFromChangeHash(HEX(v + 2));
                break;
            default:
                BAD();
        }
        store(c, t[1], r, NULL);
    }
    /* ---------------- actors */
    else if (!strcmp(c, "actor")) {
        NEED(3);
        AMbyteSpan sp = HEX(t[2]);
        store(c, t[1], AMactorIdFromBytes(sp.src, sp.count), NULL);
    } else if (!strcmp(c, "actorstr")) {
        NEED(3);
        store(c, t[1], AMactorIdFromStr(HEX(t[2])), NULL);
    } else if (!strcmp(c, "actorcmp")) {
        NEED(3);
        AMitem *a = item_of(t[1]), *b = item_of(t[2]);
        const AMactorId *x = NULL, *y = NULL;
        if (!a || !b || !AMitemToActorId(a, &x) || !AMitemToActorId(b, &y)) BAD();
        out("actorcmp %d\n", AMactorIdCmp(x, y));
    }
    /* ---------------- documents */
    else if (!strcmp(c, "create")) {
        NEED(3);
        AMitem* a = item_of(t[2]);
        const AMactorId* x = NULL;
        if (!a || !AMitemToActorId(a, &x)) BAD();
        store(c, t[1], AMcreate(x), NULL);
    } else if (!strcmp(c, "clone")) {
        NEED(3);
        AMdoc* d = doc_of(t[2]);
        if (!d) BAD();
        store(c, t[1], AMclone(d), NULL);
    } else if (!strcmp(c, "fork")) {
        NEED(4);
        AMdoc* d = doc_of(t[2]);
        if (!d || !heads_of(t[3], &hs, &h)) BAD();
        store(c, t[1], AMfork(d, h), NULL);
    } else if (!strcmp(c, "setactor")) {
        NEED(4);
        AMdoc* d = doc_of(t[2]);
        AMitem* a = item_of(t[3]);
        const AMactorId* x = NULL;
        if (!d || !a || !AMitemToActorId(a, &x)) BAD();
        store(c, t[1], AMsetActorId(d, x), NULL);
    } else if (!strcmp(c, "getactor")) {
        NEED(3);
        AMdoc* d = doc_of(t[2]);
        if (!d) BAD();
        store(c, t[1], AMgetActorId(d), NULL);
    } else if (!strcmp(c, "commit") || !strcmp(c, "empty")) { /* commit r d msg time|~ */
        NEED(5);
        AMdoc* d = doc_of(t[2]);
        if (!d) BAD();
        AMbyteSpan msg = HEX(t[3]);
        int64_t tm = strtoll(t[4], NULL, 10);
        const int64_t* tp = strcmp(t[4], "~") ? &tm : NULL;
        store(c, t[1], c[0] == 'c' ? AMcommit(d, msg, tp) : AMemptyChange(d, msg, tp), NULL);
    } else if (!strcmp(c, "equal")) {
        NEED(3);
        AMdoc *a = doc_of(t[1]), *b = doc_of(t[2]);
        if (!a || !b) BAD();
        out("equal %d\n", AMequal(a, b) ? 1 : 0);
    } else if (!strcmp(c, "heads")) {
        NEED(3);
        AMdoc* d = doc_of(t[2]);
        if (!d) BAD();
        store(c, t[1], AMgetHeads(d), NULL);
    } else if (!strcmp(c, "pending")) {
        NEED(2);
        AMdoc* d = doc_of(t[1]);
        if (!d) BAD();
        out("pending %zu\n", AMpendingOps(d));
    } else if (!strcmp(c, "rollback")) {
        NEED(2);
        AMdoc* d = doc_of(t[1]);
        if (!d) BAD();
        out("rollback %zu\n", AMrollback(d));
    } else if (!strcmp(c, "save") || !strcmp(c, "saveinc")) {
        NEED(3);
        AMdoc* d = doc_of(t[2]);
        if (!d) BAD();
        store(c, t[1], c[4] ? AMsaveIncremental(d) : AMsave(d), NULL);
    } else if (!strcmp(c, "load") || !strcmp(c, "chloaddoc") || !strcmp(c, "msgdec") || !strcmp(c, "stdec")) {
        /* <cmd> r s.i : the bytes are read from a BYTES item and copied out first */
        NEED(3);
        AMitem* it = item_of(t[2]);
        AMbyteSpan sp;
        if (!it || !AMitemToBytes(it, &sp)) BAD();
        uint8_t* p = copy_out(sp);
        AMresult* r;
        if (!strcmp(c, "load"))
            r = AMload(p, sp.count);
        else if (!strcmp(c, "chloaddoc"))
            r = AMchangeLoadDocument(p, sp.count);
        else if (!strcmp(c, "msgdec"))
            r = AMsyncMessageDecode(p, sp.count);
        else
            r = AMsyncStateDecode(p, sp.count);
        free(p);
        store(c, t[1], r, NULL);
    } else if (!strcmp(c, "loadinc")) { /* loadinc r d s.i ; bytes passed in place (view into the other result) */
        NEED(4);
        AMdoc* d = doc_of(t[2]);
        AMitem* it = item_of(t[3]);
        AMbyteSpan sp;
        if (!d || !it || !AMitemToBytes(it, &sp)) BAD();
        store(c, t[1], AMloadIncremental(d, sp.src, sp.count), NULL);
    } else if (!strcmp(c, "merge")) {
        NEED(4);
        AMdoc *a = doc_of(t[2]), *b = doc_of(t[3]);
        if (!a || !b || a == b) BAD();
        store(c, t[1], AMmerge(a, b), NULL);
    } else if (!strcmp(c, "changes") || !strcmp(c, "missing")) {
        NEED(4);
        AMdoc* d = doc_of(t[2]);
        if (!d || !heads_of(t[3], &hs, &h)) BAD();
        store(c, t[1], c[0] == 'c' ? AMgetChanges(d, h) : AMgetMissingDeps(d, h), NULL);
    } else if (!strcmp(c, "added")) {
        NEED(4);
        AMdoc *a = doc_of(t[2]), *b = doc_of(t[3]);
        if (!a || !b || a == b) BAD();
        store(c, t[1], AMgetChangesAdded(a, b), NULL);
    } else if (!strcmp(c, "lastlocal")) {
        NEED(3);
        AMdoc* d = doc_of(t[2]);
        if (!d) BAD();
        store(c, t[1], AMgetLastLocalChange(d), NULL);
    } else if (!strcmp(c, "bychange")) { /* bychange r d s.i (change hash item) */
        NEED(4);
        AMdoc* d = doc_of(t[2]);
        AMitem* it = item_of(t[3]);
        AMbyteSpan sp;
        if (!d || !it || !AMitemToChangeHash(it, &sp)) BAD();
        store(c, t[1], AMgetChangeByHash(d, sp.src, sp.count), NULL);
    } else if (!strcmp(c, "apply")) { /* apply r d s */
        NEED(4);
        AMdoc* d = doc_of(t[2]);
        if (!d || !heads_of(t[3], &hs, &h) || !h) BAD();
        store(c, t[1], AMapplyChanges(d, h), NULL);
    }
    /* ---------------- objects */
    else if (!strcmp(c, "keys") || !strcmp(c, "items") || !strcmp(c, "text") || !strcmp(c, "marks")) {
        NEED(5);
        AMdoc* d = doc_of(t[2]);
        if (!d || !obj_of(t[3], &o) || !heads_of(t[4], &hs, &h)) BAD();
        AMresult* r = c[0] == 'k' ? AMkeys(d, o, h) : c[0] == 'i' ? AMobjItems(d, o, h) : c[0] == 't' ? AMtext(d, o, h) : AMmarks(d, o, h);
        store(c, t[1], r, d);
    } else if (!strcmp(c, "size")) {
        NEED(4);
        AMdoc* d = doc_of(t[1]);
        if (!d || !obj_of(t[2], &o) || !heads_of(t[3], &hs, &h)) BAD();
        out("size %zu type %d\n", AMobjSize(d, o, h), (int)AMobjObjType(d, o));
    } else if (!strcmp(c, "splicetext")) { /* splicetext r d o pos del hex */
        NEED(7);
        AMdoc* d = doc_of(t[2]);
        if (!d || !obj_of(t[3], &o)) BAD();
        store(c, t[1], AMspliceText(d, o, pos_of(t[4]), (ptrdiff_t)strtoll(t[5], NULL, 10), HEX(t[6])), d);
    } else if (!strcmp(c, "splice")) { /* splice r d o pos del s|- */
        NEED(7);
        AMdoc* d = doc_of(t[2]);
        if (!d || !obj_of(t[3], &o)) BAD();
        AMitems vals = {0};
        if (strcmp(t[6], "-")) {
            int s = slot_of(t[6]);
            if (s < 0 || !slot[s]) BAD();
            vals = AMresultItems(slot[s]);
        }
        store(c, t[1], AMsplice(d, o, pos_of(t[4]), (ptrdiff_t)strtoll(t[5], NULL, 10), vals), d);
    }
    /* ---------------- maps */
    else if (!strcmp(c, "mput")) { /* mput r d o keyhex val */
        NEED(6);
        AMdoc* d = doc_of(t[2]);
        if (!d || !obj_of(t[3], &o)) BAD();
        AMbyteSpan k = HEX(t[4]);
        const char* v = t[5];
        AMresult* r = NULL;
        switch (v[0]) {
            case 'i':
                r = AMmapPutInt(d, o, k, strtoll(v + 2, NULL, 10));
                break;
            case 'u':
                r = AMmapPutUint(d, o, k, strtoull(v + 2, NULL, 10));
                break;
            case 'f': {
                uint64_t bits = strtoull(v + 2, NULL, 16);
                double f;
                memcpy(&f, &bits, 8);
                r = AMmapPutF64(d, o, k, f);
                break;
            }
            case 'b':
                r = AMmapPutBool(d, o, k, v[2] == '1');
                break;
            case 'n':
                r = AMmapPutNull(d, o, k);
                break;
            case 's':
                r = AMmapPutStr(d, o, k, HEX(v + 2));
                break;
            case 'y':
                r = AMmapPutBytes(d, o, k, HEX(v + 2));
                break;
            case 'c':
                r = AMmapPutCounter(d, o, k, strtoll(v + 2, NULL, 10));
                break;
            case 't':
                r = AMmapPutTimestamp(d, o, k, strtoll(v + 2, NULL, 10));
                break;
            case 'o':
                r = AMmapPutObject(d, o, k, objtype_of(atoi(v + 2)));
                break;
            default:
                BAD();
        }
        store(c, t[1], r, d);
    } else if (!strcmp(c, "mdel")) {
        NEED(5);
        AMdoc* d = doc_of(t[2]);
        if (!d || !obj_of(t[3], &o)) BAD();
        store(c, t[1], AMmapDelete(d, o, HEX(t[4])), d);
    } else if (!strcmp(c, "minc")) {
        NEED(6);
        AMdoc* d = doc_of(t[2]);
        if (!d || !obj_of(t[3], &o)) BAD();
        store(c, t[1], AMmapIncrement(d, o, HEX(t[4]), strtoll(t[5], NULL, 10)), d);
    } else if (!strcmp(c, "mget") || !strcmp(c, "mgetall")) {
        NEED(6);
        AMdoc* d = doc_of(t[2]);
        if (!d || !obj_of(t[3], &o) || !heads_of(t[5], &hs, &h)) BAD();
        AMbyteSpan k = HEX(t[4]);
        store(c, t[1], c[4] ? AMmapGetAll(d, o, k, h) : AMmapGet(d, o, k, h), d);
    } else if (!strcmp(c, "mrange")) { /* mrange r d o begin end h */
        NEED(7);
        AMdoc* d = doc_of(t[2]);
        if (!d || !obj_of(t[3], &o) || !heads_of(t[6], &hs, &h)) BAD();
        AMbyteSpan b = HEX(t[4]);
        AMbyteSpan e = HEX(t[5]);
        store(c, t[1], AMmapRange(d, o, b, e, h), d);
    }
    /* ---------------- lists */
    else if (!strcmp(c, "lput")) { /* lput r d o pos ins val */
        NEED(7);
        AMdoc* d = doc_of(t[2]);
        if (!d || !obj_of(t[3], &o)) BAD();
        size_t pos = pos_of(t[4]);
        bool ins = t[5][0] == '1';
        const char* v = t[6];
        AMresult* r = NULL;
        switch (v[0]) {
            case 'i':
                r = AMlistPutInt(d, o, pos, ins, strtoll(v + 2, NULL, 10));
                break;
            case 'u':
                r = AMlistPutUint(d, o, pos, ins, strtoull(v + 2, NULL, 10));
                break;
            case 'f': {
                uint64_t bits = strtoull(v + 2, NULL, 16);
                double f;
                memcpy(&f, &bits, 8);
                r = AMlistPutF64(d, o, pos, ins, f);
                break;
            }
            case 'b':
                r = AMlistPutBool(d, o, pos, ins, v[2] == '1');
                break;
            case 'n':
                r = AMlistPutNull(d, o, pos, ins);
                break;
            case 's':
                r = AMlistPutStr(d, o, pos, ins, HEX(v + 2));
                break;
            case 'y':
                r = AMlistPutBytes(d, o, pos, ins, HEX(v + 2));
                break;
            case 'c':
                r = AMlistPutCounter(d, o, pos, ins, strtoll(v + 2, NULL, 10));
                break;
            case 't':
                r = AMlistPutTimestamp(d, o, pos, ins, strtoll(v + 2, NULL, 10));
                break;
            case 'o':
                r = AMlistPutObject(d, o, pos, ins, objtype_of(atoi(v + 2)));
                break;
            default:
                BAD();
        }
        store(c, t[1], r, d);
    } else if (!strcmp(c, "ldel")) {
        NEED(5);
        AMdoc* d = doc_of(t[2]);
        if (!d || !obj_of(t[3], &o)) BAD();
        store(c, t[1], AMlistDelete(d, o, pos_of(t[4])), d);
    } else if (!strcmp(c, "linc")) {
        NEED(6);
        AMdoc* d = doc_of(t[2]);
        if (!d || !obj_of(t[3], &o)) BAD();
        store(c, t[1], AMlistIncrement(d, o, pos_of(t[4]), strtoll(t[5], NULL, 10)), d);
    } else if (!strcmp(c, "lget") || !strcmp(c, "lgetall")) {
        NEED(6);
        AMdoc* d = doc_of(t[2]);
        if (!d || !obj_of(t[3], &o) || !heads_of(t[5], &hs, &h)) BAD();
        store(c, t[1], c[4] ? AMlistGetAll(d, o, pos_of(t[4]), h) : AMlistGet(d, o, pos_of(t[4]), h), d);
    } else if (!strcmp(c, "lrange")) {
        NEED(7);
        AMdoc* d = doc_of(t[2]);
        if (!d || !obj_of(t[3], &o) || !heads_of(t[6], &hs, &h)) BAD();
        store(c, t[1], AMlistRange(d, o, pos_of(t[4]), pos_of(t[5]), h), d);
    }
    /* ---------------- marks */
    else if (!strcmp(c, "mark")) { /* mark r d o start end expand namehex s.i */
        NEED(9);
        AMdoc* d = doc_of(t[2]);
        AMitem* v = item_of(t[8]);
        if (!d || !obj_of(t[3], &o) || !v) BAD();
        store(c, t[1], AMmarkCreate(d, o, pos_of(t[4]), pos_of(t[5]), expand_of(atoi(t[6])), HEX(t[7]), v), d);
    } else if (!strcmp(c, "unmark")) {
        NEED(8);
        AMdoc* d = doc_of(t[2]);
        if (!d || !obj_of(t[3], &o)) BAD();
        store(c, t[1], AMmarkClear(d, o, pos_of(t[4]), pos_of(t[5]), expand_of(atoi(t[6])), HEX(t[7])), d);
    }
    /* ---------------- cursors */
    else if (!strcmp(c, "cursor")) { /* cursor r d o pos h */
        NEED(6);
        AMdoc* d = doc_of(t[2]);
        if (!d || !obj_of(t[3], &o) || !heads_of(t[5], &hs, &h)) BAD();
        store(c, t[1], AMgetCursor(d, o, pos_of(t[4]), h), d);
    } else if (!strcmp(c, "curpos")) { /* curpos r d o s.i h */
        NEED(6);
        AMdoc* d = doc_of(t[2]);
        AMitem* it = item_of(t[4]);
        const AMcursor* cu = NULL;
        if (!d || !obj_of(t[3], &o) || !it || !AMitemToCursor(it, &cu) || !heads_of(t[5], &hs, &h)) BAD();
        store(c, t[1], AMgetCursorPosition(d, o, cu, h), d);
    } else if (!strcmp(c, "curfrombytes") || !strcmp(c, "curfromstr")) { /* r s.i */
        NEED(3);
        AMitem* it = item_of(t[2]);
        const AMcursor* cu = NULL;
        if (!it || !AMitemToCursor(it, &cu)) BAD();
        AMresult* r;
        if (c[7] == 'b') {
            AMbyteSpan sp = AMcursorBytes(cu);
            r = AMcursorFromBytes(sp.src, sp.count);
        } else {
            r = AMcursorFromStr(AMcursorStr(cu));
        }
        store(c, t[1], r, NULL);
    } else if (!strcmp(c, "cureq")) {
        NEED(3);
        AMitem *a = item_of(t[1]), *b = item_of(t[2]);
        const AMcursor *x = NULL, *y = NULL;
        if (!a || !b || !AMitemToCursor(a, &x) || !AMitemToCursor(b, &y)) BAD();
        out("cureq %d\n", AMcursorEqual(x, y) ? 1 : 0);
    } else if (!strcmp(c, "curhold")) {
        /* curhold s.i : take two views from the same live cursor and read the first one afterwards */
        NEED(2);
        AMitem* it = item_of(t[1]);
        const AMcursor* cu = NULL;
        if (!it || !AMitemToCursor(it, &cu)) BAD();
        AMbyteSpan b1 = AMcursorBytes(cu);
        AMbyteSpan s1 = AMcursorStr(cu);
        AMbyteSpan b2 = AMcursorBytes(cu);
        AMbyteSpan s2 = AMcursorStr(cu);
        out("curhold ");
        put_hex(b1);
        out(" ");
        put_text(s1);
        out(" ");
        put_hex(b2);
        out(" ");
        put_text(s2);
        out("\n");
    }
    /* ---------------- changes */
    else if (!strcmp(c, "chfrombytes")) { /* r s.i (change item): raw bytes copied out, parsed again */
        NEED(3);
        AMitem* it = item_of(t[2]);
        AMchange* ch = NULL;
        if (!it || !AMitemToChange(it, &ch)) BAD();
        AMbyteSpan sp = AMchangeRawBytes(ch);
        uint8_t* p = copy_out(sp);
        AMresult* r = AMchangeFromBytes(p, sp.count);
        free(p);
        store(c, t[1], r, NULL);
    } else if (!strcmp(c, "chcompress")) {
        NEED(2);
        AMitem* it = item_of(t[1]);
        AMchange* ch = NULL;
        if (!it || !AMitemToChange(it, &ch)) BAD();
        AMchangeCompress(ch);
        out("chcompress ");
        put_blob(AMchangeRawBytes(ch));
        out("\n");
    }
    /* ---------------- sync */
    else if (!strcmp(c, "syncinit")) {
        NEED(2);
        store(c, t[1], AMsyncStateInit(), NULL);
    } else if (!strcmp(c, "gen")) { /* gen r d s */
        NEED(4);
        AMdoc* d = doc_of(t[2]);
        AMsyncState* st = state_of(t[3]);
        if (!d || !st) BAD();
        store(c, t[1], AMgenerateSyncMessage(d, st), NULL);
    } else if (!strcmp(c, "recv")) { /* recv r d s m.i */
        NEED(5);
        AMdoc* d = doc_of(t[2]);
        AMsyncState* st = state_of(t[3]);
        AMitem* it = item_of(t[4]);
        const AMsyncMessage* m = NULL;
        if (!d || !st || !it || !AMitemToSyncMessage(it, &m)) BAD();
        store(c, t[1], AMreceiveSyncMessage(d, st, m), NULL);
    } else if (!strcmp(c, "msgenc")) {
        NEED(3);
        AMitem* it = item_of(t[2]);
        const AMsyncMessage* m = NULL;
        if (!it || !AMitemToSyncMessage(it, &m)) BAD();
        store(c, t[1], AMsyncMessageEncode(m), NULL);
    } else if (!strcmp(c, "stenc")) {
        NEED(3);
        AMsyncState* st = state_of(t[2]);
        if (!st) BAD();
        store(c, t[1], AMsyncStateEncode(st), NULL);
    } else if (!strcmp(c, "steq")) {
        NEED(3);
        AMsyncState *a = state_of(t[1]), *b = state_of(t[2]);
        if (!a || !b) BAD();
        out("steq %d\n", AMsyncStateEqual(a, b) ? 1 : 0);
    } else if (!strcmp(c, "theirheads")) { /* keeps the result: theirheads r s */
        NEED(3);
        AMsyncState* st = state_of(t[2]);
        bool has = false;
        if (!st) BAD();
        AMresult* r = AMsyncStateTheirHeads(st, &has);
        out("has=%d ", has ? 1 : 0);
        store(c, t[1], r, NULL);
    } else if (!strcmp(c, "sharedheads")) {
        NEED(3);
        AMsyncState* st = state_of(t[2]);
        if (!st) BAD();
        store(c, t[1], AMsyncStateSharedHeads(st), NULL);
    } else if (!strcmp(c, "msgheads")) {
        NEED(3);
        AMitem* it = item_of(t[2]);
        const AMsyncMessage* m = NULL;
        if (!it || !AMitemToSyncMessage(it, &m)) BAD();
        store(c, t[1], AMsyncMessageHeads(m), NULL);
    } else if (!strcmp(c, "strcmp")) { /* strcmp hex hex : AMstrCmp via AMbytes()/AMstr() views */
        NEED(3);
        Buf a = unhex(t[1]), b = unhex(t[2]);
        out("strcmp %d\n", AMstrCmp(AMbytes(a.p, a.n), AMbytes(b.p, b.n)));
        free(a.p);
        free(b.p);
    } else {
        out("%s unknown\n", c);
    }
done:
    for (int i = 0; i < nb; i++) free(bufs[i].p);
#undef HEX
}

static void reset(void) {
    /* free in ascending slot order: owners may go before or after the results derived from them */
    for (int i = 0; i < NSLOT; i++) {
        if (slot[i]) {
            AMresultFree(slot[i]);
            slot[i] = NULL;
        }
    }
}

int main(void) {
    signal(SIGABRT, on_signal);
    signal(SIGILL, on_signal);
    signal(SIGBUS, on_signal);
    signal(SIGFPE, on_signal);
    curline = malloc(MAXLINE);
    curcopy = malloc(MAXLINE);
    curcopy[0] = 0;
    static char obuf[1 << 16];
    setvbuf(stdout, obuf, _IOFBF, sizeof obuf);
    while (fgets(curline, MAXLINE, stdin)) {
        size_t n = strlen(curline);
        while (n && (curline[n - 1] == '\n' || curline[n - 1] == '\r')) curline[--n] = 0;
        if (n == 0) continue;
        memcpy(curcopy, curline, n + 1);
        if (strcmp(curline, "RESET") == 0) {
            /* end of one program: everything still alive is freed, then LeakSanitizer (when
               linked in) reports what the program leaked */
            reset();
            int leaks = 0;
            if (__lsan_do_recoverable_leak_check) {
                fflush(stderr);
                leaks = __lsan_do_recoverable_leak_check();
            }
            out("RESET leaks=%d\n", leaks);
            fflush(stdout);
            continue;
        }
        run_line(curline);
    }
    curcopy[0] = 0;
    reset();
    fflush(stdout);
    free(curline);
    free(curcopy);
    curline = curcopy = NULL;
    return 0;
}
