//! C38 Actor sequence numbers stay unique.
use super::dupseq::*;
use crate::engine::driver::*;
use crate::engine::graph::Lcg;

pub fn check(case: &Case, t: &mut Tally) -> CaseResult {
    let sc = build(case)?;
    let mut rng = Lcg(case.3);
    let (mut tgt, shares) = target(&sc, &mut rng);
    let n = 3 + rng.below(6);
    let mut offered_a = false;
    let mut offered_b = false;
    for i in 0..n {
        let d = deliver(&sc, &mut tgt, &mut rng, shares, t)?;
        if d.what.contains("A") || d.what.contains("mixed") {
            offered_a = true;
        }
        if d.what.contains("B") || d.what.contains("mixed") {
            offered_b = true;
        }
        if d.result.is_err() {
            t.class("delivery_rejected");
        }
        let doc = tgt.document().clone();
        invariants(&doc, sc.enc, &format!("after delivery {i} {} -> {:?}", d.what, d.result))?;
        t.extra_evals += 1;
    }
    if sc.conflicting && offered_a && offered_b {
        t.class("both_branches_offered");
        t.nontrivial();
        t.sample = Some(serde_json::json!({"base": case.0.describe(), "branch_a": case.1.iter().map(|s| s.describe()).collect::<Vec<_>>(), "branch_b": case.2.iter().map(|s| s.describe()).collect::<Vec<_>>()}));
    }
    if shares {
        t.class("target_shares_actor");
    }
    Ok(())
}

pub fn property(_ctx: &Ctx) -> Property {
    Property {
        id: "C38",
        level: "exploration",
        rule: "a generated base history is continued independently by two copies of the same document under the SAME actor (stale copy), giving different changes with equal (actor, seq); a generated schedule of 3-8 deliveries offers both branches to a target (fresh, fork of base, or a third copy sharing the actor) through apply_changes (single, whole, child-first, suffix), mixed batches, load_incremental, merge, sync, load of save++chunks, and local commits by the contested actor. After EVERY delivery, whatever it returned: (actor, seq) pairs of get_changes are unique and contiguous from 1 per actor, the full observation works, load(save()) with and without retained orphans succeeds with equal heads and observation. Non-trivial = the two branches really conflict and both were offered; distinct by case. evaluations counts deliveries.",
        assumptions: &["which branch wins is not asserted, only uniqueness and consistency"],
        subs: vec![sub::<Case, _, _>("dupseq", 4800, 120000, |c| strategy(c.thorough()), check)],
    }
}
