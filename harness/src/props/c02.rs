//! C02 State equals the independent op-based CRDT reading (RefDoc).
use super::common::*;
use crate::engine::driver::*;
use crate::engine::obs::*;
use crate::engine::program::*;
use crate::engine::refdoc::RefDoc;
use automerge::{Automerge, ReadDoc};

pub fn compare_with_ref(prop: &str, doc: &Automerge, what: &str, heads_sample: &[Vec<automerge::ChangeHash>], t: &mut Tally) -> CaseResult {
    let changes = catch("get_changes(&[])", || doc.get_changes(&[]))?;
    let rd = RefDoc::new(&changes, doc.text_encoding());
    let _ = take_stale_marks();
    let o = obs_of(doc, None, what)?.without_spans();
    if take_stale_marks() > 0 {
        // marks() (live index) disagrees with the marks carried by spans() (ops): the known stale-index finding
        return Err(Failure::new(format!("{prop}:current:marks:live-mark-index-stale(reload-agrees-with-the-model)"), format!("{what}: marks() of a text object disagrees with the marks carried by spans() of the same document")));
    }
    let r = rd.observe(None);
    if let Some((kind, d)) = first_diff(&r, &o) {
        // classifier: does a reload of the same document agree with the model? then the live document's index is stale
        let mut sig = format!("{prop}:current:{kind}");
        if kind == "marks" {
            if let Ok(l) = Automerge::load_with_options(&doc.save(), crate::engine::interp::load_opts(doc.text_encoding())) {
                if let Ok(lo) = obs_of(&l, None, what) {
                    if first_diff(&r, &lo.without_spans()).is_none() {
                        sig.push_str(":live-mark-index-stale(reload-agrees-with-the-model)");
                    }
                }
            }
        }
        return Err(Failure::new(sig, format!("{what}: RefDoc vs document: {d}")));
    }
    t.extra_evals += 1;
    for h in heads_sample {
        if h.iter().all(|x| rd.deps.contains_key(x)) {
            let o = obs_of(doc, Some(h), what)?.without_spans();
            let r = rd.observe(Some(h));
            if let Some((kind, d)) = first_diff(&r, &o) {
                return Err(Failure::new(format!("{prop}:at-heads:{kind}"), format!("{what} at heads {:?}: RefDoc vs document: {d}", h)));
            }
            t.extra_evals += 1;
        }
    }
    Ok(())
}

/// conflict shapes present in a reference reading (for the non-triviality rule)
pub fn conflict_shapes(n: &ONode, out: &mut Vec<&'static str>) {
    fn reg(r: &[(Id, OVal)], seq: bool, out: &mut Vec<&'static str>) {
        if r.len() > 1 {
            out.push(if seq { "conflicted_element" } else { "conflicted_key" });
            if r.iter().any(|(_, v)| matches!(v, OVal::Counter(_))) {
                out.push("counter_in_conflict");
            }
            if r.iter().any(|(_, v)| matches!(v, OVal::Obj(_))) {
                out.push("object_in_conflict");
            }
        }
        for (_, v) in r {
            if let OVal::Obj(n) = v {
                conflict_shapes(n, out);
            }
        }
    }
    match n {
        ONode::Map(m) => m.values().for_each(|r| reg(r, false, out)),
        ONode::List(l) => l.iter().for_each(|r| reg(r, true, out)),
        ONode::Text(t) => t.elems.iter().for_each(|(_, r)| reg(r, true, out)),
    }
}

pub fn check(p: &Program, t: &mut Tally) -> CaseResult {
    let mut it = run_program(p, default_opts())?;
    let heads: Vec<_> = it.heads.iter().rev().take(6).cloned().collect();
    // merged document
    let mut merged = fresh(it.enc);
    for i in 0..it.reps.len() {
        let mut o = it.reps[i].doc.document().clone();
        catch("merge", || merged.merge(&mut o))?.map_err(|e| Failure::new("C02:merge:error", e.to_string()))?;
    }
    compare_with_ref("C02", &merged, "merged", &heads, t)?;
    for i in 0..it.reps.len() {
        let d = it.reps[i].doc.document().clone();
        compare_with_ref("C02", &d, "replica", &heads[..heads.len().min(2)], t)?;
    }
    let changes = merged.get_changes(&[]);
    let rd = RefDoc::new(&changes, merged.text_encoding());
    let mut shapes = vec![];
    conflict_shapes(&rd.observe(None), &mut shapes);
    for h in &heads {
        if h.iter().all(|x| rd.deps.contains_key(x)) {
            conflict_shapes(&rd.observe(Some(h)), &mut shapes);
        }
    }
    shapes.sort();
    shapes.dedup();
    for s in &shapes {
        t.class(*s);
    }
    if !shapes.is_empty() {
        t.nontrivial();
        t.sample = Some(p.describe());
    }
    Ok(())
}

pub fn property(_ctx: &Ctx) -> Property {
    Property {
        id: "C02",
        level: "exploration",
        rule: "proptest-generated multi-actor programs; for the merged document and every replica, the full ReadDoc observation (keys, get_all sets with op ids ascending, list/text order, text string and length in the document's encoding, counter values, per-position marks) at current heads and at up to 6 recorded historical heads is compared with RefDoc, an independent from-scratch interpretation of the decoded op set (multi-value registers by pred, greatest (counter,actor) wins, RGA order, counter = initial + increments). Non-trivial = the reference reading contains a conflicted key/element, a counter or object inside a conflict; distinct by program fingerprint. evaluations counts (document, heads) comparisons.",
        assumptions: &["Change::decode() is the trusted bridge from change bytes to ops (cross-checked by C10/C18)", "grapheme width uses the unicode-segmentation crate"],
        subs: vec![
            sub::<Program, _, _>("conflict", 12800, 300000, |c| program_strategy(CONFLICT, if c.thorough() { 100 } else { 40 }, 4, 4), check),
            sub::<Program, _, _>("counters", 6400, 150000, |c| program_strategy(COUNTER, if c.thorough() { 100 } else { 40 }, 4, 4), check),
            sub::<Program, _, _>("history", 9600, 200000, |c| program_strategy(HISTORY, if c.thorough() { 120 } else { 40 }, if c.thorough() { 5 } else { 3 }, 4), check),
            sub::<Program, _, _>("text", 6400, 100000, |c| program_strategy(TEXT, if c.thorough() { 100 } else { 40 }, 3, 4), check),
        ],
    }
}
