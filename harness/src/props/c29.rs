//! C29 Isolated transactions act on the chosen heads; C30 object ids stay valid and stable.
use super::c28::edit;
use super::common::*;
use crate::engine::driver::*;
use crate::engine::graph::Lcg;
use crate::engine::interp::load_opts;
use crate::engine::obs::{exid, observe, read_battery, render_hydrate};
use crate::engine::program::*;
use crate::ensure;
use automerge::transaction::{CommitOptions, Transactable};
use automerge::{ActorId, AutoCommit, Automerge, Change, ChangeHash, ObjId, ObjType, PatchLog, ReadDoc, ROOT};
use proptest::prelude::*;
use std::collections::HashSet;

type Case = (Program, Vec<(u8, u16, u16, u16, i64)>, u64);

/// compare the scoped view with the plain document at those heads; a marks-only difference right after a
/// text insertion gets its own signature (known finding: the insertion anchor is chosen among ops hidden by
/// the scope, so the new text can land inside/outside a visible mark)
fn scoped_same(what: &str, plain: &crate::engine::obs::ONode, scoped: &crate::engine::obs::ONode, edit_class: Option<&'static str>) -> CaseResult {
    if let Some((kind, d)) = crate::engine::obs::first_diff(plain, scoped) {
        let sig = if kind == "marks" && edit_class == Some("splice_text") { format!("C29:{what}:marks:text-inserted-next-to-ops-hidden-by-the-scope") } else { format!("C29:{what}:{kind}") };
        return Err(Failure::new(sig, format!("{what}: plain document at those heads vs scoped view: {d}")));
    }
    Ok(())
}

pub fn check_c29(case: &Case, t: &mut Tally) -> CaseResult {
    let (p, edits, seed) = case;
    let mut rng = Lcg(*seed);
    let mut it = run_program(p, default_opts())?;
    let enc = it.enc;
    // D = merged document under one fresh actor
    let mut merged = fresh(enc);
    for r in 0..it.reps.len() {
        let mut o = it.reps[r].doc.document().clone();
        catch("merge", || merged.merge(&mut o))?.map_err(|e| Failure::new("C29:merge:error", e.to_string()))?;
    }
    let (m, g) = all_changes(&mut it)?;
    let full: HashSet<ChangeHash> = hashes(&m);
    let cur = heads_sorted(&merged);
    let heads: Vec<Vec<ChangeHash>> = it.heads.iter().filter(|h| !h.is_empty() && h.iter().all(|x| full.contains(x))).cloned().collect();
    if heads.is_empty() {
        return Ok(());
    }
    let h = heads[rng.below(heads.len())].clone();
    let anc = g.ancestors(&h);
    let order: Vec<ChangeHash> = g.topo(&full).into_iter().filter(|x| anc.contains(x)).collect();
    let behind = {
        let mut hs = h.clone();
        hs.sort();
        hs != cur
    };
    // the actor is either one that already has changes in the document (possibly outside h) or a new one
    let actor = if rng.below(2) == 0 { it.reps[rng.below(it.reps.len())].actor.clone() } else { ActorId::from(vec![0x15u8, 0x0a]) };
    let twin_bytes = merged.save();
    let manual = rng.below(3) == 0;
    // P: a plain document holding exactly ancestors(h)
    let p_doc = apply_in_order(enc, &order, &m)?;
    let mut pl = AutoCommit::load_with_options(&p_doc.save(), load_opts(enc)).map_err(|e| Failure::new("C29:load:error", e.to_string()))?.with_actor(ActorId::from(vec![0x15u8, 0x0b]));
    let live: Vec<(ObjId, ObjType)> = it.objs.iter().filter(|(id, ty)| pl.object_type(id).ok() == Some(*ty)).cloned().collect();
    let mut isolated_changes: Vec<Change> = vec![];
    if manual {
        // Automerge::transaction_at
        let mut d = Automerge::load_with_options(&twin_bytes, load_opts(enc)).map_err(|e| Failure::new("C29:load:error", e.to_string()))?.with_actor(actor.clone());
        {
            let mut tx = catch("transaction_at", || d.transaction_at(PatchLog::inactive(), &h))?.map_err(|e| Failure::new("C29:transaction_at:error", format!("{e:?}")))?;
            let start = catch("observe tx", || observe(&tx, None))?.strip_ids();
            expect_same("C29", "transaction_at-initial-state", &obs_of(&p_doc, None, "P")?.strip_ids(), &start)?;
            for (k, a, b, c, n) in edits {
                let c1 = catch("edit under transaction_at", || edit(&mut tx, &live, *k, *a, *b, *c, *n))?;
                let c2 = edit(&mut pl, &live, *k, *a, *b, *c, *n);
                ensure!(c1.is_some() == c2.is_some(), "C29:transaction_at:edit-accepted-differently", "edit {k} was {} under transaction_at but {} on the plain document at those heads", if c1.is_some() { "applied" } else { "rejected" }, if c2.is_some() { "applied" } else { "rejected" });
                let a_obs = catch("observe tx", || observe(&tx, None))?.strip_ids();
                let b_obs = catch("observe P", || observe(&pl, None))?.strip_ids();
                scoped_same("transaction_at-reads", &b_obs, &a_obs, c1)?;
                t.extra_evals += 1;
            }
            tx.commit_with(CommitOptions::default().with_time(0));
        }
        // the change may carry a derived (isolated) actor, so find it as "whatever is new"
        for c in d.get_changes(&[]) {
            if !full.contains(&c.hash()) {
                let mut want = h.clone();
                want.sort();
                let mut got = c.deps().to_vec();
                got.sort();
                ensure!(got == want, "C29:transaction_at:deps", "change made by transaction_at({:?}) has deps {:?}", want, got);
                isolated_changes.push(c);
            }
        }
        t.class("transaction_at");
        // after the scoped transaction the document is the merge of the new change into the current state
        let mut twin = Automerge::load_with_options(&twin_bytes, load_opts(enc)).map_err(|e| Failure::new("C29:load:error", e.to_string()))?;
        catch("apply", || twin.apply_changes(isolated_changes.clone()))?.map_err(|e| Failure::new("C29:apply:error", e.to_string()))?;
        expect_same("C29", "after-scoped-transaction", &obs_of(&twin, None, "twin + change")?, &obs_of(&d, None, "document")?)?;
    } else {
        let mut d = AutoCommit::load_with_options(&twin_bytes, load_opts(enc)).map_err(|e| Failure::new("C29:load:error", e.to_string()))?.with_actor(actor.clone());
        catch("isolate", || d.isolate(&h))?;
        let start = catch("observe isolated", || observe(&d, None))?.strip_ids();
        expect_same("C29", "isolate-initial-state", &obs_of(&p_doc, None, "P")?.strip_ids(), &start)?;
        let mut expect_deps: Vec<ChangeHash> = h.clone();
        for (i, (k, a, b, c, n)) in edits.iter().enumerate() {
            let c1 = catch("edit under isolate", || edit(&mut d, &live, *k, *a, *b, *c, *n))?;
            let c2 = edit(&mut pl, &live, *k, *a, *b, *c, *n);
            ensure!(c1.is_some() == c2.is_some(), "C29:isolate:edit-accepted-differently", "edit {k} was {} under isolation but {} on the plain document at those heads", if c1.is_some() { "applied" } else { "rejected" }, if c2.is_some() { "applied" } else { "rejected" });
            let a_obs = catch("observe isolated", || observe(&d, None))?.strip_ids();
            let b_obs = catch("observe P", || observe(&pl, None))?.strip_ids();
            if std::env::var("VERIF_DEBUG").is_ok() && crate::engine::obs::first_diff(&b_obs, &a_obs).is_some() {
                let mut dd = d.clone();
                for c in dd.get_changes(&[]) { for (kk, o) in c.decode().operations.iter().enumerate() { eprintln!("   {}{}@{} {:?} obj={:?} key={:?} ins={}", if anc.contains(&c.hash()) { "  " } else { "* " }, c.start_op().get() + kk as u64, c.actor_id(), o.action, o.obj, o.key, o.insert); } }
            }
            scoped_same("isolated-reads", &b_obs, &a_obs, c1)?;
            t.extra_evals += 1;
            if i % 3 == 2 || i + 1 == edits.len() {
                if let Some(hash) = catch("commit", || d.commit_with(CommitOptions::default().with_time(0)))? {
                    let c = d.get_change_by_hash(&hash).ok_or_else(|| Failure::new("C29:isolated-change-missing", "committed change not retrievable".to_string()))?;
                    let mut got = c.deps().to_vec();
                    got.sort();
                    let mut want = expect_deps.clone();
                    want.sort();
                    ensure!(got == want, "C29:isolate:deps", "isolated commit has deps {:?}, expected {:?} (isolation heads, then the previous isolated change)", got, want);
                    expect_deps = vec![hash];
                    isolated_changes.push(c);
                    pl.commit_with(CommitOptions::default().with_time(0));
                }
            }
        }
        catch("integrate", || d.integrate())?;
        let mut twin = Automerge::load_with_options(&twin_bytes, load_opts(enc)).map_err(|e| Failure::new("C29:load:error", e.to_string()))?;
        catch("apply", || twin.apply_changes(isolated_changes.clone()))?.map_err(|e| Failure::new("C29:apply:error", e.to_string()))?;
        let after = catch("observe integrated", || observe(&d, None))?;
        expect_same("C29", "after-integrate", &obs_of(&twin, None, "twin + isolated changes")?, &after)?;
        let mut dh = d.get_heads();
        dh.sort();
        ensure!(dh == heads_sorted(&twin), "C29:integrate:heads", "heads after integrate {:?} vs twin {:?}", dh, heads_sorted(&twin));
        t.class("isolate");
    }
    if behind {
        t.class("heads_behind_current");
        let touched_in: HashSet<String> = isolated_changes.iter().flat_map(touched_objects).collect();
        if full.iter().filter(|x| !anc.contains(x)).any(|x| !touched_objects(&m[x]).is_disjoint(&touched_in)) {
            t.nontrivial();
            t.sample = Some(serde_json::json!({"history": p.describe(), "edits": edits.len()}));
        }
    }
    let _ = ROOT;
    Ok(())
}

// ------------------------------------------------------------------------------------------------ C30

type Case30 = (Program, u64);

fn reads(d: &Automerge, id: &ObjId) -> Vec<String> {
    vec![
        format!("type {:?}", d.object_type(id).map_err(|e| e.to_string())),
        format!("len {}", d.length(id)),
        format!("keys {:?}", d.keys(id).collect::<Vec<_>>()),
        format!("text {:?}", d.text(id).map_err(|_| "err")),
        format!("hydrate {:?}", ReadDoc::hydrate(d, id, None).map(|v| render_hydrate(&v)).map_err(|_| "err")),
        format!("values {}", d.values(id).count()),
        format!("parents {:?}", d.parents(id).map(|p| p.map(|x| format!("{:?}/{:?}", exid(&x.obj), x.prop)).collect::<Vec<_>>()).map_err(|_| "err")),
    ]
}

pub fn check_c30(case: &Case30, t: &mut Tally) -> CaseResult {
    let (p, pick) = case;
    let mut it = run_program(p, default_opts())?;
    let enc = it.enc;
    let remembered = it.objs.clone();
    let mut docs: Vec<Automerge> = (0..it.reps.len()).map(|r| it.reps[r].doc.document().clone()).collect();
    // plus the merged document and its reload (actor tables differ from every replica's)
    let mut merged = fresh(enc);
    for d in &docs {
        let mut o = d.clone();
        catch("merge", || merged.merge(&mut o))?.map_err(|e| Failure::new("C30:merge:error", e.to_string()))?;
    }
    let reloaded = Automerge::load_with_options(&merged.save(), load_opts(enc)).map_err(|e| Failure::new("C30:load:error", e.to_string()))?;
    docs.push(merged);
    docs.push(reloaded);
    let mut nontrivial = false;
    for (di, d) in docs.iter().enumerate() {
        let made: HashSet<(u64, Vec<u8>)> = d.get_changes(&[]).iter().flat_map(|c| {
            let e = c.decode();
            let start = e.start_op.get();
            let actor = e.actor_id.to_bytes().to_vec();
            e.operations.iter().enumerate().filter(|(_, o)| matches!(o.action, automerge::legacy::OpType::Make(_))).map(|(i, _)| (start + i as u64, actor.clone())).collect::<Vec<_>>()
        }).collect();
        let bat = catch("battery", || read_battery(d, None, *pick, "C30"))??;
        for (old, ty) in &remembered {
            if *old == ROOT {
                continue;
            }
            let contains = made.contains(&exid(old));
            if !contains {
                // the replica does not contain the object: error or empty, never another object's data
                let r = catch("reads through a foreign id", || reads(d, old))?;
                let clean = r[0].contains("Err") && r[1] == "len 0" && r[2] == "keys []" && r[3].contains("err") && r[4].contains("err") && r[5] == "values 0";
                ensure!(clean, "C30:foreign-id-returns-data", "document {di} does not contain object {:?} but reads through its id give {:?}", exid(old), r);
                t.class("id_of_absent_object");
                t.extra_evals += 1;
                continue;
            }
            ensure!(d.object_type(old).ok() == Some(*ty), "C30:old-id:type", "document {di}: object {:?} created as {:?} now reads as {:?}", exid(old), ty, d.object_type(old).map_err(|e| e.to_string()));
            // an id discovered by walking from ROOT (when the object is still reachable)
            if let Some((native, _)) = bat.objects.iter().find(|(o, _)| exid(o) == exid(old)) {
                let (ra, rb) = (catch("reads via old id", || reads(d, old))?, reads(d, native));
                ensure!(ra == rb, "C30:old-id:reads-differ", "document {di}: reads through the id returned at creation {:?} differ from reads through the id found by walking the document {:?}", ra, rb);
                // the same edit through both ids gives the same document
                let mut d1 = d.clone().with_actor(ActorId::from(vec![0x30u8, 1]));
                let mut d2 = d.clone().with_actor(ActorId::from(vec![0x30u8, 1]));
                for (doc, id) in [(&mut d1, old), (&mut d2, native)] {
                    let mut tx = doc.transaction();
                    let r = match ty {
                        ObjType::Map | ObjType::Table => tx.put(id, "c30", 1),
                        ObjType::List => { let l = tx.length(id); tx.insert(id, l, 1) }
                        ObjType::Text => { let l = tx.length(id); tx.splice_text(id, l, 0, "!") }
                    };
                    ensure!(r.is_ok(), "C30:old-id:edit-error", "edit through an id of an existing object failed: {:?}", r.err().map(|e| e.to_string()));
                    tx.commit_with(CommitOptions::default().with_time(0));
                }
                ensure!(d1.save() == d2.save(), "C30:old-id:edit-differs", "the same edit through the remembered id and the native id gives different documents");
                let hint = |o: &ObjId| if let ObjId::Id(_, _, i) = o { Some(*i) } else { None };
                if hint(old) != hint(native) {
                    nontrivial = true;
                    t.class("actor_index_shifted");
                }
                t.extra_evals += 1;
            } else {
                t.class("object_unreachable_but_present");
                let _ = catch("reads via old id of unreachable object", || reads(d, old))?;
            }
        }
    }
    // ids handed out by the document with the LARGEST actor table (the merged one) must resolve in every smaller
    // document that contains the object: their actor-index hint can lie outside the smaller table
    let merged_ix = docs.len() - 2;
    let merged_bat = catch("battery", || read_battery(&docs[merged_ix], None, *pick, "C30"))??;
    for (di, d) in docs.iter().enumerate().take(merged_ix) {
        let bat = catch("battery", || read_battery(d, None, *pick, "C30"))??;
        for (big, ty) in merged_bat.objects.iter().filter(|(o, _)| *o != ROOT) {
            if let Some((native, _)) = bat.objects.iter().find(|(o, _)| exid(o) == exid(big)) {
                ensure!(d.object_type(big).ok() == Some(*ty), "C30:foreign-hint:type", "document {di} contains object {:?}, but the id handed out by the merged document reads as {:?}", exid(big), d.object_type(big).map_err(|e| e.to_string()));
                let (ra, rb) = (catch("reads via the merged document's id", || reads(d, big))?, reads(d, native));
                ensure!(ra == rb, "C30:foreign-hint:reads-differ", "document {di}: reads through the id handed out by the merged document {:?} differ from reads through its own id {:?}", ra, rb);
                let hint = |o: &ObjId| if let ObjId::Id(_, _, i) = o { Some(*i) } else { None };
                if hint(big) != hint(native) {
                    t.class("merged_id_in_smaller_document");
                    nontrivial = true;
                }
                t.extra_evals += 1;
            }
        }
    }
    if nontrivial {
        t.nontrivial();
        t.sample = Some(p.describe());
    }
    Ok(())
}

pub fn property_c29(_ctx: &Ctx) -> Property {
    Property {
        id: "C29",
        level: "exploration",
        rule: "proptest-generated multi-replica history merged into D; a recorded non-empty heads h (behind current, on a concurrent branch or a merged state) is chosen; 1-12 generated edits (puts, deletes, counters, object creation, list and text edits, marks, invalid calls) run under AutoCommit::isolate(h) (commits every 3 edits) or Automerge::transaction_at(h), with the document's actor being one that already has changes outside h or a new one; the same edits run on a plain document P built from exactly ancestors(h). After each edit the id-free observation under isolation must equal P's; every isolated commit's deps must be h, then the previous isolated change; after integrate (or after the scoped transaction) the document must equal the pre-isolation twin plus the isolated changes. Non-trivial = h is behind the current heads and later changes outside ancestors(h) touch objects the isolated changes touch; distinct by case.",
        assumptions: &["edits address objects that exist at h; objects created inside the isolated session are not edited further"],
        subs: vec![sub::<Case, _, _>("isolate", 4000, 100000, |c| (program_strategy(CONFLICT, if c.thorough() { 80 } else { 30 }, 3, 4), prop::collection::vec((any::<u8>(), any::<u16>(), any::<u16>(), any::<u16>(), -3i64..9), 1..12), any::<u64>()), check_c29),
                   sub::<Case, _, _>("isolate-text", 2000, 50000, |c| (program_strategy(TEXT, if c.thorough() { 80 } else { 30 }, 3, 4), prop::collection::vec((any::<u8>(), any::<u16>(), any::<u16>(), any::<u16>(), -3i64..9), 1..12), any::<u64>()), check_c29)],
    }
}

pub fn property_c30(_ctx: &Ctx) -> Property {
    Property {
        id: "C30",
        level: "exploration",
        rule: "proptest-generated multi-replica histories in which later actors frequently sort before earlier ones (forks, actor switches, save/load); every object id is remembered exactly as returned at creation and used afterwards in every replica, in the merged document and in its reload: where the document contains the object, type, length, keys, text, hydrate, values and parents through the old id equal those through an id discovered by walking from ROOT, and the same edit through both ids gives byte-identical documents; where the document does not contain the object (its make op is not in the document's changes) every read gives an error or an empty result. Non-trivial = the remembered id's actor-index hint differs from the native one; distinct by case.",
        assumptions: &[],
        subs: vec![sub::<Case30, _, _>("ids", 4000, 100000, |c| (program_strategy(HISTORY, if c.thorough() { 80 } else { 35 }, 4, 4), any::<u64>()), check_c30)],
    }
}
