//! C34 Hexane columns behave like vectors under any edits.
//!
//! Stateful model-based check: a generated edit sequence is applied to a hexane column
//! (`Column<T>`, `PrefixColumn<T>`, `DeltaColumn<T>`, `RawColumn`) and to a `Vec` model; after
//! EVERY edit the full read API is compared with the model and the structural invariant checker
//! is run.  The generic interpreter (`build`) is reused by C35.
#![allow(clippy::all)]
use crate::engine::driver::*;
use crate::engine::graph::Lcg;
use crate::{ensure, fail};
use hexane::{
    AsColumnRef, Column, ColumnValueRef, DeltaColumn, DeltaRun, DeltaValue, LoadOpts, PrefixColumn, PrefixValue,
    RawColumn, Run, Splice,
};
use proptest::prelude::*;
use serde::{Deserialize, Serialize};
use serde_json::json;
use std::fmt::Debug;

// ------------------------------------------------------------------------------------ abort guard
// hexane's edit cursor writes back in its Drop.  When a mutation panics while a cursor is open, the
// Drop runs during unwinding, may panic again, and the runtime aborts the process ("panic in a
// destructor during cleanup") — which `catch_unwind` cannot intercept.  So that such a case still
// ends as a reported VIOLATION with a replay file (exit 1) instead of SIGABRT, the case being run
// is kept in a thread-local and a chained panic hook reports it when the runtime announces the abort.
thread_local! {
    static CURRENT: std::cell::RefCell<Option<(&'static str, &'static str, String)>> = const { std::cell::RefCell::new(None) };
    static FIRST_PANIC: std::cell::RefCell<Option<String>> = const { std::cell::RefCell::new(None) };
}
pub fn enter<C: Serialize>(prop: &'static str, sub: &'static str, case: &C) {
    static ONCE: std::sync::Once = std::sync::Once::new();
    ONCE.call_once(|| {
        let prev = std::panic::take_hook();
        std::panic::set_hook(Box::new(move |info| {
            let msg = if let Some(s) = info.payload().downcast_ref::<&str>() {
                s.to_string()
            } else if let Some(s) = info.payload().downcast_ref::<String>() {
                s.clone()
            } else {
                String::new()
            };
            if msg.contains("panic in a destructor during cleanup") {
                let cur = CURRENT.with(|c| c.borrow().clone());
                let first = FIRST_PANIC.with(|c| c.borrow().clone()).unwrap_or_default();
                if let Some((prop, sub, case)) = cur {
                    let sig = format!("{prop}:abort:panic-in-destructor-during-cleanup");
                    let detail = format!("a library panic ({first}) unwound through an open edit cursor whose Drop panicked again; the runtime aborts the process");
                    let casej: serde_json::Value = serde_json::from_str(&case).unwrap_or(serde_json::Value::Null);
                    let body = json!({"property": prop, "sub": sub, "signature": sig, "detail": detail, "case": casej});
                    let text = serde_json::to_string_pretty(&body).unwrap_or_default();
                    let dir = std::path::Path::new(VERIF_ROOT).join("replays").join(prop);
                    let _ = std::fs::create_dir_all(&dir);
                    let path = dir.join(format!("abort-{:016x}.json", fp(&text)));
                    let _ = std::fs::write(&path, text);
                    println!("VIOLATION property={prop} replay={}", path.display());
                    println!("  signature: {sig}");
                    println!("  detail: {detail}");
                    std::process::exit(1);
                }
            }
            FIRST_PANIC.with(|c| {
                let mut c = c.borrow_mut();
                if c.is_none() {
                    let loc = info.location().map(|l| format!("{}:{}", rel_file(l.file()), l.line())).unwrap_or_default();
                    *c = Some(format!("{loc}: {}", msg.lines().next().unwrap_or("")));
                }
            });
            prev(info);
        }));
    });
    CURRENT.with(|c| *c.borrow_mut() = Some((prop, sub, serde_json::to_string(case).unwrap_or_default())));
    FIRST_PANIC.with(|c| *c.borrow_mut() = None);
}

// ------------------------------------------------------------------------------------ seeds
/// Abstract value seed: (class, raw).  Each element type maps a seed into its documented domain.
#[derive(Clone, Debug, Serialize, Deserialize, PartialEq, Eq, Hash)]
pub struct Sd(pub u8, pub u64);
pub type Runs = Vec<(Sd, u16)>;

/// 0 small alphabet (long runs), 1 null, 2 domain extreme, 3 medium, 4 arbitrary
pub fn cls(sd: &Sd) -> u8 {
    match sd.0 % 16 {
        0..=6 => 0,
        7..=8 => 1,
        9..=10 => 2,
        11..=13 => 3,
        _ => 4,
    }
}

/// `win == 0`: the full domain of the type.  `win in 1..=3`: the DeltaColumn domain (all realized
/// values inside one 2^63-wide window that contains the implicit start value 0; unsigned < 2^63).
pub trait Elem: Clone + PartialEq + Debug + 'static {
    const NULLABLE: bool = false;
    fn mk(sd: &Sd, win: u8) -> Self;
    fn is_null(&self) -> bool {
        false
    }
    fn is_extreme(_sd: &Sd) -> bool {
        false
    }
}

const U64X: [u64; 14] = [0, 1, 127, 128, 16383, 16384, u32::MAX as u64, 1 << 32, (1 << 62) - 1, 1 << 62, (1 << 63) - 1, 1 << 63, u64::MAX - 1, u64::MAX];
const I64X: [i64; 14] = [0, -1, 1, 63, 64, -64, -65, i64::MAX, i64::MIN, i64::MAX - 1, i64::MIN + 1, 1 << 62, -(1 << 62), (1 << 62) - 1];
const U32X: [u32; 8] = [0, 1, 127, 128, 16383, 16384, u32::MAX - 1, u32::MAX];

fn raw_u64(sd: &Sd) -> u64 {
    match cls(sd) {
        0 | 1 => sd.1 % 3,
        2 => U64X[(sd.1 % U64X.len() as u64) as usize],
        3 => sd.1 % 997,
        _ => sd.1,
    }
}
impl Elem for u64 {
    fn mk(sd: &Sd, win: u8) -> u64 {
        let v = raw_u64(sd);
        match win {
            0 => v,
            4 => v & ((1 << 61) - 1),
            _ => v & (i64::MAX as u64),
        }
    }
}
impl Elem for usize {
    fn mk(sd: &Sd, win: u8) -> usize {
        <u64 as Elem>::mk(sd, win) as usize
    }
}
impl Elem for u32 {
    fn mk(sd: &Sd, _win: u8) -> u32 {
        match cls(sd) {
            0 | 1 => (sd.1 % 3) as u32,
            2 => U32X[(sd.1 % U32X.len() as u64) as usize],
            3 => (sd.1 % 997) as u32,
            _ => sd.1 as u32,
        }
    }
}
impl Elem for i32 {
    fn mk(sd: &Sd, _win: u8) -> i32 {
        match cls(sd) {
            0 | 1 => (sd.1 % 3) as i32 - 1,
            2 => [0, -1, 1, i32::MAX, i32::MIN, 63, 64, -64, -65][(sd.1 % 9) as usize],
            3 => (sd.1 % 997) as i32 - 500,
            _ => sd.1 as i32,
        }
    }
}
impl Elem for i64 {
    fn mk(sd: &Sd, win: u8) -> i64 {
        let v = match cls(sd) {
            0 | 1 => (sd.1 % 3) as i64 - 1,
            2 => I64X[(sd.1 % I64X.len() as u64) as usize],
            3 => (sd.1 % 997) as i64 - 500,
            _ => sd.1 as i64,
        };
        match win {
            0 => v,
            1 => v.clamp(-(1 << 62), (1 << 62) - 1),
            2 => v & i64::MAX,
            3 => -(v & i64::MAX),
            _ => v.clamp(-(1 << 61), (1 << 61) - 1),
        }
    }
}
impl Elem for bool {
    fn mk(sd: &Sd, _win: u8) -> bool {
        match cls(sd) {
            0 | 1 => sd.1 % 3 == 0,
            _ => sd.1 & 1 == 1,
        }
    }
}
impl Elem for String {
    fn mk(sd: &Sd, _win: u8) -> String {
        match cls(sd) {
            0 | 1 => ["a", "b", ""][(sd.1 % 3) as usize].to_string(),
            2 => match sd.1 % 8 {
                0 => String::new(),
                1 => "\u{0}".to_string(),
                2 => "\u{e9}".to_string(),
                3 => "\u{10FFFF}".to_string(),
                4 => "x".repeat(127),
                5 => "y".repeat(128),
                6 => "\u{1F600}z".repeat(70),
                _ => "\u{7f}\u{80}\u{7ff}\u{800}\u{ffff}".to_string(),
            },
            3 => format!("s{}", sd.1 % 997),
            _ => format!("{:x}", sd.1),
        }
    }
}
impl Elem for Vec<u8> {
    fn mk(sd: &Sd, _win: u8) -> Vec<u8> {
        match cls(sd) {
            0 | 1 => [vec![1u8], vec![2u8, 2], vec![]][(sd.1 % 3) as usize].clone(),
            2 => match sd.1 % 6 {
                0 => vec![],
                1 => vec![0],
                2 => vec![0xff; 127],
                3 => vec![0x80; 128],
                4 => vec![0xc0, 0x80],
                _ => vec![0xed, 0xa0, 0x80, 0xff],
            },
            3 => (sd.1 % 997).to_le_bytes()[..2].to_vec(),
            _ => sd.1.to_le_bytes().to_vec(),
        }
    }
}
impl<T: Elem> Elem for Option<T> {
    const NULLABLE: bool = true;
    fn mk(sd: &Sd, win: u8) -> Option<T> {
        if cls(sd) == 1 {
            None
        } else {
            Some(T::mk(sd, win))
        }
    }
    fn is_null(&self) -> bool {
        self.is_none()
    }
}

pub fn expand<V: Elem>(runs: &Runs, win: u8) -> Vec<V> {
    let mut out = vec![];
    for (sd, c) in runs {
        let v = V::mk(sd, win);
        for _ in 0..*c {
            out.push(v.clone());
        }
    }
    out
}

// ------------------------------------------------------------------------------------ ops
#[derive(Clone, Debug, Serialize, Deserialize)]
pub enum EStep {
    Seek(u32),
    Advance(u32),
    Delete(u32),
    Insert(Sd),
    InsertRun(Sd, u16),
    Replace(Sd),
    Peek,
}

#[derive(Clone, Debug, Serialize, Deserialize)]
pub enum Op {
    Splice { at: u32, del: u32, vals: Runs },
    Insert { at: u32, v: Sd },
    Remove { at: u32 },
    RemoveN { at: u32, n: u32 },
    Push { v: Sd },
    Pop,
    Extend { vals: Runs },
    Truncate { len: u32 },
    Clear,
    SpliceRuns { at: u32, del: u32, runs: Runs },
    Edit { steps: Vec<EStep> },
    CopyRanges { src: Runs, same_seg: bool, pts: Vec<(u32, u32, u32, u32)> },
    Remap { a: Sd, b: Sd },
    Reload { seg: u8 },
    Sort,
}

impl Op {
    pub fn name(&self) -> &'static str {
        match self {
            Op::Splice { .. } => "splice",
            Op::Insert { .. } => "insert",
            Op::Remove { .. } => "remove",
            Op::RemoveN { .. } => "remove_n",
            Op::Push { .. } => "push",
            Op::Pop => "pop",
            Op::Extend { .. } => "extend",
            Op::Truncate { .. } => "truncate",
            Op::Clear => "clear",
            Op::SpliceRuns { .. } => "splice_runs",
            Op::Edit { .. } => "edit",
            Op::CopyRanges { .. } => "copy_ranges",
            Op::Remap { .. } => "remap",
            Op::Reload { .. } => "reload",
            Op::Sort => "sort",
        }
    }
}

#[derive(Clone, Debug, Serialize, Deserialize)]
pub struct Case {
    pub kind: u8,
    pub seg: u8,
    pub win: u8,
    pub sorted: bool,
    pub init: Runs,
    pub ops: Vec<Op>,
    pub q: u64,
}

pub const SEGS: [usize; 7] = [2, 3, 4, 5, 8, 16, 64];
pub fn seg_of(s: u8) -> usize {
    SEGS[s as usize % SEGS.len()]
}
/// position in 0..=len (u32::MAX = len)
pub fn at_of(x: u32, len: usize) -> usize {
    if x == u32::MAX {
        len
    } else {
        x as usize % (len + 1)
    }
}

// ------------------------------------------------------------------------------------ strategies
pub fn sd_strategy() -> impl Strategy<Value = Sd> {
    (0u8..16, prop_oneof![4 => 0u64..8, 1 => any::<u64>()]).prop_map(|(c, r)| Sd(c, r))
}
fn cnt_strategy() -> impl Strategy<Value = u16> {
    prop_oneof![12 => Just(1u16), 5 => 2u16..6, 2 => 6u16..40, 1 => 40u16..300]
}
pub fn runs_strategy(max: usize) -> impl Strategy<Value = Runs> {
    proptest::collection::vec((sd_strategy(), cnt_strategy()), 0..max)
}
fn pos_strategy() -> impl Strategy<Value = u32> {
    prop_oneof![5 => 0u32..64, 3 => any::<u32>(), 1 => Just(u32::MAX), 1 => Just(0u32)]
}
fn del_strategy() -> impl Strategy<Value = u32> {
    prop_oneof![6 => 0u32..4, 2 => 0u32..64, 1 => any::<u32>(), 1 => Just(u32::MAX)]
}
fn estep_strategy() -> impl Strategy<Value = EStep> {
    prop_oneof![
        3 => pos_strategy().prop_map(EStep::Seek),
        2 => (0u32..20).prop_map(EStep::Advance),
        3 => del_strategy().prop_map(EStep::Delete),
        3 => sd_strategy().prop_map(EStep::Insert),
        2 => (sd_strategy(), cnt_strategy()).prop_map(|(s, c)| EStep::InsertRun(s, c)),
        2 => sd_strategy().prop_map(EStep::Replace),
        1 => Just(EStep::Peek),
    ]
}
pub fn op_strategy() -> impl Strategy<Value = Op> {
    prop_oneof![
        8 => (pos_strategy(), del_strategy(), runs_strategy(5)).prop_map(|(at, del, vals)| Op::Splice { at, del, vals }),
        6 => (pos_strategy(), sd_strategy()).prop_map(|(at, v)| Op::Insert { at, v }),
        4 => pos_strategy().prop_map(|at| Op::Remove { at }),
        4 => (pos_strategy(), del_strategy()).prop_map(|(at, n)| Op::RemoveN { at, n }),
        4 => sd_strategy().prop_map(|v| Op::Push { v }),
        1 => Just(Op::Pop),
        2 => runs_strategy(5).prop_map(|vals| Op::Extend { vals }),
        1 => pos_strategy().prop_map(|len| Op::Truncate { len }),
        1 => Just(Op::Clear),
        5 => (pos_strategy(), del_strategy(), runs_strategy(5)).prop_map(|(at, del, runs)| Op::SpliceRuns { at, del, runs }),
        4 => proptest::collection::vec(estep_strategy(), 1..10).prop_map(|steps| Op::Edit { steps }),
        2 => (runs_strategy(40), any::<bool>(), proptest::collection::vec((pos_strategy(), del_strategy(), pos_strategy(), pos_strategy()), 1..5))
            .prop_map(|(src, same_seg, pts)| Op::CopyRanges { src, same_seg, pts }),
        1 => (sd_strategy(), sd_strategy()).prop_map(|(a, b)| Op::Remap { a, b }),
        1 => (0u8..7).prop_map(|seg| Op::Reload { seg }),
        1 => Just(Op::Sort),
    ]
}
pub fn case_strategy(kinds: u8, max_ops: usize) -> impl Strategy<Value = Case> {
    (
        0..kinds,
        prop_oneof![3 => 0u8..3, 1 => 3u8..7],
        0u8..3,
        prop_oneof![4 => Just(false), 1 => Just(true)],
        runs_strategy(30),
        proptest::collection::vec(op_strategy(), 1..max_ops),
        any::<u64>(),
    )
        .prop_map(|(kind, seg, win, sorted, init, ops, q)| Case { kind, seg, win, sorted, init, ops, q })
}

// ------------------------------------------------------------------------------------ family trait
pub struct Track {
    pub max_slabs: usize,
    pub run_edit: bool,
    pub slab_split: bool,
    pub slab_merge: bool,
    pub nulls: bool,
    pub long_run: bool,
    pub ops: Vec<&'static str>,
    /// slab layout came from load()/remap(): the loader cuts half-full slabs, which the merge-policy
    /// clause of check_invariants (a debug helper for edit-built columns) does not accept
    pub tainted: bool,
    pub unmerged_tolerated: u64,
    pub excluded: Vec<String>,
    /// delta-domain window of the case (0 = full domain)
    pub win: u8,
}

/// One column family under test, seen through a `Vec`-like interface.
pub trait Fam: Sized {
    type V: Elem + Ord;
    const DELTA: bool = false;
    fn with_seg(seg: usize) -> Self;
    fn from_vals(v: Vec<Self::V>, seg: usize) -> Self;
    fn len(&self) -> usize;
    fn slabs(&self) -> usize;
    fn to_vec(&self) -> Vec<Self::V>;
    fn splice(&mut self, i: usize, d: usize, v: Vec<Self::V>);
    fn insert(&mut self, i: usize, v: Self::V);
    fn remove(&mut self, i: usize);
    fn remove_n(&mut self, i: usize, n: usize);
    fn push(&mut self, v: Self::V);
    /// None = family has no pop
    fn pop(&mut self) -> Option<Option<Self::V>> {
        None
    }
    fn extend(&mut self, v: Vec<Self::V>);
    fn truncate(&mut self, l: usize);
    fn clear(&mut self);
    /// returns the values inserted
    fn splice_runs(&mut self, i: usize, d: usize, runs: &Runs, win: u8) -> Vec<Self::V>;
    /// run an edit-cursor session against the model; returns the new model (None = unsupported)
    fn edit(&mut self, _m: &[Self::V], _steps: &[EStep], _win: u8) -> Option<Result<Vec<Self::V>, Failure>> {
        None
    }
    fn copy_ranges(&mut self, src: Self, sp: Vec<Splice>);
    /// delta families: some value within 2^61 of the i64 limits (used only by exclusion rules)
    fn near_edge(_v: &[Self::V]) -> bool {
        false
    }
    fn remap(&mut self, _a: &Self::V, _b: &Self::V) -> bool {
        false
    }
    fn save(&self) -> Vec<u8>;
    fn load(b: &[u8], seg: usize) -> Result<Self, String>;
    /// load bytes saved from `self` (families with side tables carry them over)
    fn reload(&self, b: &[u8], seg: usize) -> Result<Self, String> {
        Self::load(b, seg)
    }
    /// queries issued once, on the final state only (shapes that are listed upstream as pending bugs)
    fn final_queries(&self, _m: &[Self::V], _tr: &mut Track) -> CaseResult {
        Ok(())
    }
    /// family-specific read API vs the model
    fn check(&self, m: &[Self::V], rng: &mut Lcg, tr: &mut Track) -> CaseResult;
}

fn delta_edit_sig<F: Fam>(f: Failure) -> Failure {
    if F::DELTA && f.sig.starts_with("panic:") {
        Failure::new(format!("C34:delta-mutation:{}", f.sig), f.detail)
    } else {
        f
    }
}

fn run_touch<V: PartialEq>(m: &[V], i: usize, d: usize, ins: &[V]) -> bool {
    let n = m.len();
    let split = i > 0 && i < n && m[i - 1] == m[i] && (d > 0 || !ins.is_empty());
    let merge_del = ins.is_empty() && d > 0 && i > 0 && i + d < n && m[i - 1] == m[i + d];
    let merge_ins = !ins.is_empty() && ((i > 0 && m[i - 1] == ins[0]) || (i + d < n && ins.last() == Some(&m[i + d])));
    split || merge_del || merge_ins
}

pub fn diff<V: Debug + PartialEq>(got: &[V], want: &[V]) -> String {
    if got.len() != want.len() {
        let i = got.iter().zip(want.iter()).position(|(a, b)| a != b);
        return format!("length {} vs model {} (first value difference at {:?})", got.len(), want.len(), i);
    }
    match got.iter().zip(want.iter()).position(|(a, b)| a != b) {
        Some(i) => format!("index {i}: got {:?}, model {:?} (len {})", got[i], want[i], want.len()),
        None => "equal".into(),
    }
}

const MAX_LEN: usize = 12_000;

/// Apply one op to column and model.
pub fn step<F: Fam>(col: &mut F, m: &mut Vec<F::V>, op: &Op, case: &Case, tr: &mut Track) -> CaseResult {
    step_inner(col, m, op, case, tr).map_err(delta_edit_sig::<F>)
}

/// Domain window of a case: 0 = full type domain (non-delta families); 1..=3 = the three 2^63-wide
/// delta windows; 4 = |v| < 2^61, used while the delta domain-edge overflow is a listed known finding.
pub fn win_of<F: Fam>(case: &Case) -> u8 {
    if !F::DELTA {
        0
    } else if avoid("C34:delta-mutation:panic") {
        4
    } else {
        1 + case.win % 3
    }
}

fn step_inner<F: Fam>(col: &mut F, m: &mut Vec<F::V>, op: &Op, case: &Case, tr: &mut Track) -> CaseResult {
    let win = win_of::<F>(case);
    let n = m.len();
    let name = op.name();
    let sig = |s: &str| format!("C34:{name}:{s}");
    match op {
        Op::Splice { at, del, vals } => {
            let i = at_of(*at, n);
            let d = at_of(*del, n - i);
            let vs: Vec<F::V> = if n > MAX_LEN { vec![] } else { expand(vals, win) };
            tr.run_edit |= run_touch(m, i, d, &vs);
            let v2 = vs.clone();
            catch(&format!("splice({i},{d},{} values) on len {n}", vs.len()), || col.splice(i, d, v2))?;
            m.splice(i..i + d, vs);
        }
        Op::Insert { at, v } => {
            let i = at_of(*at, n);
            let v = F::V::mk(v, win);
            tr.run_edit |= run_touch(m, i, 0, std::slice::from_ref(&v));
            let v2 = v.clone();
            catch(&format!("insert({i},{v:?}) on len {n}"), || col.insert(i, v2))?;
            m.insert(i, v);
        }
        Op::Remove { at } => {
            if n > 0 {
                let i = *at as usize % n;
                tr.run_edit |= run_touch(m, i, 1, &[]);
                catch(&format!("remove({i}) on len {n}"), || col.remove(i))?;
                m.remove(i);
            }
        }
        Op::RemoveN { at, n: k } => {
            let i = at_of(*at, n);
            let d = at_of(*k, n - i);
            tr.run_edit |= run_touch(m, i, d, &[]);
            catch(&format!("remove_n({i},{d}) on len {n}"), || col.remove_n(i, d))?;
            m.drain(i..i + d);
        }
        Op::Push { v } => {
            let v = F::V::mk(v, win);
            tr.run_edit |= run_touch(m, n, 0, std::slice::from_ref(&v));
            let v2 = v.clone();
            catch(&format!("push({v:?}) on len {n}"), || col.push(v2))?;
            m.push(v);
        }
        Op::Pop => {
            let want = m.last().cloned();
            match catch(&format!("pop on len {n}"), || col.pop())? {
                Some(got) => {
                    ensure!(got == want, sig("value"), "pop returned {:?}, model {:?}", got, want);
                    m.pop();
                }
                None => {
                    if n > 0 {
                        catch(&format!("remove({}) on len {n}", n - 1), || col.remove(n - 1))?;
                        m.pop();
                    }
                }
            }
        }
        Op::Extend { vals } => {
            let vs: Vec<F::V> = if n > MAX_LEN { vec![] } else { expand(vals, win) };
            tr.run_edit |= run_touch(m, n, 0, &vs);
            let v2 = vs.clone();
            catch(&format!("extend({} values) on len {n}", vs.len()), || col.extend(v2))?;
            m.extend(vs);
        }
        Op::Truncate { len } => {
            let l = if *len % 7 == 0 { n + (*len as usize % 3) } else { at_of(*len, n) };
            catch(&format!("truncate({l}) on len {n}"), || col.truncate(l))?;
            m.truncate(l);
        }
        Op::Clear => {
            catch(&format!("clear on len {n}"), || col.clear())?;
            m.clear();
            tr.tainted = false;
        }
        Op::SpliceRuns { at, del, runs } => {
            let i = at_of(*at, n);
            let d = at_of(*del, n - i);
            let empty = vec![];
            let runs = if n > MAX_LEN { &empty } else { runs };
            let vs = catch(&format!("splice_runs({i},{d},{} runs) on len {n}", runs.len()), || col.splice_runs(i, d, runs, win))?;
            tr.run_edit |= run_touch(m, i, d, &vs);
            m.splice(i..i + d, vs);
        }
        Op::Edit { steps } => {
            let mut skip = n > MAX_LEN;
            if F::DELTA && avoid("C34:delta-edit-cursor:panic") {
                let ins: Vec<F::V> = steps.iter().filter_map(|s| match s { EStep::Insert(s) | EStep::InsertRun(s, _) | EStep::Replace(s) => Some(F::V::mk(s, win)), _ => None }).collect();
                if F::near_edge(m) || F::near_edge(&ins) {
                    tr.note_excluded("delta edit cursor with |value| >= 2^61");
                    skip = true;
                }
            }
            if !skip {
                let r = catch(&format!("edit cursor {} steps on len {n}", steps.len()), || col.edit(m, steps, win)).map_err(|f| delta_edit_sig::<F>(f))?;
                match r {
                    Some(r) => {
                        *m = r?;
                        tr.run_edit = true;
                    }
                    None => {}
                }
            }
        }
        Op::CopyRanges { src, same_seg, pts } => {
            let sv: Vec<F::V> = expand(src, win);
            let mut skip = n > MAX_LEN;
            if F::DELTA && avoid("C34:delta-edit-cursor:panic") && (F::near_edge(m) || F::near_edge(&sv)) {
                tr.note_excluded("delta copy_ranges with |value| >= 2^61");
                skip = true;
            }
            if !skip {
                let seg = if *same_seg { seg_of(case.seg) } else { seg_of(case.seg.wrapping_add(1)) };
                let sv2 = sv.clone();
                let scol = catch("copy_ranges: build source", || F::from_vals(sv2, seg))?;
                let (mut dpos, mut spos) = (0usize, 0usize);
                let mut sps = vec![];
                let mut out: Vec<F::V> = vec![];
                let mut cur = 0usize;
                for (a, b, c, e) in pts {
                    let pos = dpos + at_of(*a, n - dpos);
                    let delete = at_of(*b, n - pos);
                    let rs = spos + at_of(*c, sv.len() - spos);
                    let mut re = rs + at_of(*e, sv.len() - rs);
                    let mut delete = delete;
                    if re == rs && delete > 0 && avoid("C34:copy_ranges:empty-source-range-panics") {
                        // known finding: a delete-only splice point panics in copy_strategy
                        if rs < sv.len() {
                            re = rs + 1;
                        } else {
                            delete = 0;
                        }
                        tr.note_excluded("copy_ranges(empty source range, delete>0)");
                    }
                    sps.push(Splice { pos, delete, range: rs..re });
                    out.extend_from_slice(&m[cur..pos]);
                    out.extend_from_slice(&sv[rs..re]);
                    cur = pos + delete;
                    dpos = pos + delete;
                    spos = re;
                }
                out.extend_from_slice(&m[cur..]);
                let desc = format!("copy_ranges({:?}) src len {} dst len {n}", sps, sv.len());
                let pure_delete = sps.iter().any(|s| s.range.is_empty() && s.delete > 0);
                catch(&desc, || col.copy_ranges(scol, sps)).map_err(|f| {
                    if pure_delete && f.sig.contains("column.rs") && (f.sig.contains("subtract with overflow") || f.sig.contains("index out of bounds")) {
                        Failure::new("C34:copy_ranges:empty-source-range-panics", f.detail)
                    } else {
                        delta_edit_sig::<F>(f)
                    }
                })?;
                *m = out;
                tr.run_edit = true;
            }
        }
        Op::Remap { a, b } => {
            let (a, b) = (F::V::mk(a, win), F::V::mk(b, win));
            if catch(&format!("remap({a:?}->{b:?}) on len {n}"), || col.remap(&a, &b))? {
                tr.tainted = true;
                for x in m.iter_mut() {
                    if *x == a {
                        *x = b.clone();
                    }
                }
            }
        }
        Op::Reload { seg } => {
            let bytes = catch("save", || col.save())?;
            let seg = seg_of(*seg);
            match catch(&format!("load_with(max_segments={seg}) of own save ({} bytes)", bytes.len()), || col.reload(&bytes, seg))? {
                Ok(c) => {
                    *col = c;
                    tr.tainted = true;
                }
                Err(e) => fail!(sig("load-of-own-save-fails"), "load(save()) of a column with {} items failed: {e}; bytes {}", n, hex::encode(&bytes[..bytes.len().min(64)])),
            }
        }
        Op::Sort => {
            m.sort();
            let m2 = m.clone();
            *col = catch("from_values(sorted)", || F::from_vals(m2, seg_of(case.seg)))?;
            tr.tainted = false;
        }
    }
    Ok(())
}

/// Build column and model from a case.  With `check` every intermediate state is compared.
pub fn build<F: Fam>(case: &Case, check: bool, tr: &mut Track) -> Result<(F, Vec<F::V>), Failure> {
    let win = win_of::<F>(case);
    let seg = seg_of(case.seg);
    tr.win = win;
    if win == 4 {
        tr.note_excluded("delta values with |v| >= 2^61");
    }
    let mut m: Vec<F::V> = expand(&case.init, win);
    if case.sorted {
        m.sort();
    }
    let mut rng = Lcg(case.q);
    let m2 = m.clone();
    let mut col: F = if case.q & 1 == 0 {
        catch("from_values", || F::from_vals(m2, seg))?
    } else {
        let mut c = catch("with_max_segments", || F::with_seg(seg))?;
        catch("splice(0,0,init)", || c.splice(0, 0, m2))?;
        c
    };
    let observe = |col: &F, m: &[F::V], tr: &mut Track, prev_slabs: &mut usize| {
        let s = col.slabs();
        tr.max_slabs = tr.max_slabs.max(s);
        if s > *prev_slabs {
            tr.slab_split = true;
        }
        if s < *prev_slabs && !m.is_empty() {
            tr.slab_merge = true;
        }
        *prev_slabs = s;
    };
    let mut prev_slabs = col.slabs();
    observe(&col, &m, tr, &mut prev_slabs);
    if check {
        col.check(&m, &mut rng, tr).map_err(|f| Failure::new(f.sig, format!("after construction: {}", f.detail)))?;
    }
    for (k, op) in case.ops.iter().enumerate() {
        step(&mut col, &mut m, op, case, tr)?;
        if !tr.ops.contains(&op.name()) {
            tr.ops.push(op.name());
        }
        observe(&col, &m, tr, &mut prev_slabs);
        if check {
            col.check(&m, &mut rng, tr)
                .map_err(|f| Failure::new(f.sig.replace("C34:state:", &format!("C34:{}:", op.name())), format!("after op {k} ({}): {}", short(op), f.detail)))?;
        }
    }
    tr.nulls |= m.iter().any(|v| v.is_null());
    let mut run = 0usize;
    for i in 0..m.len() {
        run = if i > 0 && m[i] == m[i - 1] { run + 1 } else { 1 };
        if run >= 64 {
            tr.long_run = true;
        }
    }
    Ok((col, m))
}

fn short(op: &Op) -> String {
    let s = format!("{op:?}");
    s.chars().take(160).collect()
}

impl Track {
    pub fn note_excluded(&mut self, what: &str) {
        if !self.excluded.iter().any(|x| x == what) {
            self.excluded.push(what.to_string());
        }
    }
}
pub fn new_track() -> Track {
    Track { max_slabs: 0, run_edit: false, slab_split: false, slab_merge: false, nulls: false, long_run: false, ops: vec![], tainted: false, unmerged_tolerated: 0, excluded: vec![], win: 0 }
}

pub fn run_case<F: Fam>(case: &Case, kind_name: &str, t: &mut Tally) -> CaseResult {
    let mut tr = new_track();
    let (col, m) = build::<F>(case, true, &mut tr)?;
    if case.q % 4 == 0 {
        col.final_queries(&m, &mut tr)?;
    }
    t.class(kind_name.to_string());
    for o in &tr.ops {
        t.class(format!("op:{o}"));
    }
    if tr.max_slabs > 1 {
        t.class("multi_slab");
    }
    if tr.run_edit {
        t.class("run_split_or_merge");
    }
    if tr.slab_split {
        t.class("slab_split");
    }
    if tr.slab_merge {
        t.class("slab_merge");
    }
    if tr.nulls {
        t.class("nulls");
    }
    if tr.long_run {
        t.class("long_run>=64");
    }
    if tr.unmerged_tolerated > 0 {
        t.class("loader_layout_not_merge_canonical(tolerated)");
    }
    for e in &tr.excluded {
        t.class(format!("excluded_known:{e}"));
    }
    t.extra_evals = case.ops.len() as u64;
    if tr.max_slabs > 1 && tr.run_edit {
        t.nontrivial();
        t.sample = Some(json!({"type": kind_name, "max_segments": seg_of(case.seg), "ops": tr.ops, "final_len": m.len(), "final_slabs": col.slabs(), "max_slabs": tr.max_slabs}));
    }
    Ok(())
}

// ------------------------------------------------------------------------------------ shared query helpers
/// Result of the library's own structural checker.  Any failure is a broken internal invariant,
/// except the merge-policy clause on a column whose layout was produced by the loader.
pub fn invariants(r: Result<(), Failure>, tr: &mut Track) -> CaseResult {
    match r {
        Ok(()) => Ok(()),
        Err(f) if tr.tainted && f.sig.contains("should have been merged") => {
            tr.unmerged_tolerated += 1;
            Ok(())
        }
        Err(f) => Err(Failure::new(format!("C34:state:invariant:{}", f.sig), f.detail)),
    }
}
/// `catch` for a named query: a panic is signed `C34:<query>:<panic signature>` so that one query's
/// failure mode can be listed as a known finding without masking others in the same source file.
pub fn q<R>(query: &str, what: &str, f: impl FnOnce() -> R) -> Result<R, Failure> {
    catch(what, f).map_err(|e| Failure::new(format!("C34:{query}:{}", e.sig), e.detail))
}
/// Exclusion list: `known` findings of C34/C35 in known_findings.json (signature substring) or VERIF_AVOID.
static C34_OUT_OF_SCOPE: std::sync::atomic::AtomicBool = std::sync::atomic::AtomicBool::new(false);
/// C35 reuses this interpreter; the shapes behind C34's own findings are C34's business there, so C35
/// steers away from all of them unconditionally.
pub fn c34_findings_out_of_scope() {
    C34_OUT_OF_SCOPE.store(true, std::sync::atomic::Ordering::Relaxed);
}
pub fn avoid(part: &str) -> bool {
    use std::sync::OnceLock;
    if crate::engine::driver::strict_sig_contains(part) {
        return false;
    }
    if part.starts_with("C34:") && C34_OUT_OF_SCOPE.load(std::sync::atomic::Ordering::Relaxed) {
        return true;
    }
    static L: OnceLock<Vec<String>> = OnceLock::new();
    let l = L.get_or_init(|| {
        let mut v: Vec<String> = load_findings().into_iter().filter(|f| f.status == "known" && (f.property == "C34" || f.property == "C35")).map(|f| f.signature).collect();
        if let Ok(e) = std::env::var("VERIF_AVOID") {
            v.extend(e.split(',').map(|s| s.trim().to_string()).filter(|s| !s.is_empty()));
        }
        v
    });
    l.iter().any(|s| s.contains(part))
}
fn own<T: ColumnValueRef>(g: T::Get<'_>) -> T {
    <T as ColumnValueRef>::to_owned(g)
}

/// a few (a, b) windows, including empty, full, clamped-past-the-end
fn windows(rng: &mut Lcg, n: usize, k: usize) -> Vec<(usize, usize)> {
    let mut w = vec![(0, n)];
    for _ in 0..k {
        let a = rng.below(n + 2);
        let b = a + rng.below(n + 3 - a.min(n + 2));
        w.push((a, b));
    }
    w
}
fn probes(rng: &mut Lcg, n: usize) -> Vec<usize> {
    if n <= 40 {
        (0..n).collect()
    } else {
        let mut p = vec![0, n - 1, n / 2];
        for _ in 0..24 {
            p.push(rng.below(n));
        }
        p
    }
}
/// maximal non-decreasing stretch around a random position, then a sub-window of it
fn sorted_window<V: Ord>(rng: &mut Lcg, m: &[V]) -> Option<(usize, usize)> {
    if m.is_empty() {
        return None;
    }
    let p = rng.below(m.len());
    let (mut lo, mut hi) = (p, p + 1);
    while lo > 0 && m[lo - 1] <= m[lo] {
        lo -= 1;
    }
    while hi < m.len() && m[hi - 1] <= m[hi] {
        hi += 1;
    }
    if rng.below(3) == 0 {
        let a = lo + rng.below(hi - lo);
        let b = a + 1 + rng.below(hi - a);
        Some((a, b))
    } else {
        Some((lo, hi))
    }
}
fn equal_range<V: Ord>(m: &[V], a: usize, b: usize, t: &V) -> (usize, usize) {
    let w = &m[a..b];
    let lo = a + w.partition_point(|x| x < t);
    let hi = a + w.partition_point(|x| x <= t);
    (lo, hi)
}
fn some_target<V: Elem>(rng: &mut Lcg, m: &[V], win: u8) -> V {
    if !m.is_empty() && rng.below(4) != 0 {
        m[rng.below(m.len())].clone()
    } else {
        V::mk(&Sd(rng.below(16) as u8, rng.next() >> (rng.below(64) as u32)), win)
    }
}

// ------------------------------------------------------------------------------------ Column<T>
pub fn check_column<T>(col: &Column<T>, m: &[T], rng: &mut Lcg, tr: &mut Track) -> CaseResult
where
    T: ColumnValueRef + Elem + Ord,
    for<'x> T::Get<'x>: Ord + AsColumnRef<T>,
{
    let n = m.len();
    let len = catch("len", || col.len())?;
    ensure!(len == n, "C34:state:len", "len() = {len}, model {n}");
    ensure!(col.is_empty() == (n == 0), "C34:state:is_empty", "is_empty() = {} with model len {n}", col.is_empty());
    let v: Vec<T> = catch("to_vec", || col.to_vec().into_iter().map(own::<T>).collect())?;
    ensure!(v == m, "C34:state:to_vec-mismatch", "to_vec: {}", diff(&v, m));
    invariants(catch("check_invariants", || col.check_invariants()), tr)?;
    match catch("validate_encoding", || col.validate_encoding())? {
        Ok(()) => {}
        Err(e) => fail!("C34:state:validate_encoding", "validate_encoding() = {e} on a column with {n} items"),
    }
    // get
    for i in probes(rng, n) {
        let g = catch(&format!("get({i})"), || col.get(i).map(own::<T>))?;
        ensure!(g.as_ref() == Some(&m[i]), "C34:state:get", "get({i}) = {:?}, model {:?} (len {n})", g, m[i]);
    }
    for i in [n, n + 1 + rng.below(5)] {
        let g = catch(&format!("get({i})"), || col.get(i).map(own::<T>))?;
        ensure!(g.is_none(), "C34:state:get-past-end", "get({i}) = {:?} with len {n}", g);
    }
    // iter_range (clamped) and its runs
    for (a, b) in windows(rng, n, 3) {
        let want = &m[a.min(n)..b.min(n)];
        let got: Vec<T> = catch(&format!("iter_range({a}..{b})"), || col.iter_range(a..b).map(own::<T>).collect())?;
        ensure!(got == want, "C34:state:iter_range", "iter_range({a}..{b}) (len {n}): {}", diff(&got, want));
        let runs: Vec<(usize, T)> = catch(&format!("iter_range({a}..{b}).runs()"), || col.iter_range(a..b).runs().map(|r| (r.count, own::<T>(r.value))).collect())?;
        let mut ex = vec![];
        for (c, v) in &runs {
            ensure!(*c > 0, "C34:state:runs-zero-count", "iter_range({a}..{b}).runs() yielded a run of count 0");
            for _ in 0..*c {
                ex.push(v.clone());
            }
        }
        ensure!(ex == want, "C34:state:runs", "iter_range({a}..{b}).runs() expands wrongly (len {n}): {}", diff(&ex, want));
        // ExactSizeIterator
        let l = catch("iter_range.len", || col.iter_range(a..b).len())?;
        ensure!(l == want.len(), "C34:state:iter-len", "iter_range({a}..{b}).len() = {l}, model {}", want.len());
    }
    // nth walk
    {
        let (a, b) = (rng.below(n + 1), n);
        let r = catch(&format!("nth walk from {a}"), || -> CaseResult {
            let mut it = col.iter_range(a..b);
            let mut pos = a;
            loop {
                let k = if rng.below(5) == 0 { rng.below(n + 2) } else { rng.below(6) };
                let got = it.nth(k).map(own::<T>);
                if pos + k >= b {
                    ensure!(got.is_none(), "C34:state:nth-past-end", "nth({k}) at pos {pos} of window {a}..{b} returned {:?}", got);
                    let nx = it.next().map(own::<T>);
                    ensure!(nx.is_none(), "C34:state:nth-past-end", "next() after exhausting nth returned {:?}", nx);
                    break;
                }
                ensure!(got.as_ref() == Some(&m[pos + k]), "C34:state:nth", "nth({k}) at pos {pos} = {:?}, model {:?}", got, m[pos + k]);
                pos += k + 1;
                ensure!(it.pos() == pos, "C34:state:iter-pos", "pos() = {} after reading index {}", it.pos(), pos - 1);
            }
            Ok(())
        })?;
        r?;
    }
    // shift / set_max re-windowing (forward only)
    if n > 0 {
        let a = rng.below(n);
        let b = a + rng.below(n - a + 1);
        let c = a + rng.below(n + 2 - a);
        let d = c + rng.below(n + 3 - c.min(n + 2));
        let want = &m[c.min(n)..d.min(n)];
        let got: Vec<T> = catch(&format!("iter_range({a}..{b}).shift({c}..{d})"), || {
            let mut it = col.iter_range(a..b);
            it.shift(c..d);
            it.map(own::<T>).collect()
        })?;
        ensure!(got == want, "C34:state:shift", "iter_range({a}..{b}) then shift({c}..{d}) (len {n}): {}", diff(&got, want));
        // suspend / resume on the unchanged column
        let k = rng.below(b - a + 1);
        let got: Result<Vec<T>, String> = catch("suspend/try_resume", || {
            let mut it = col.iter_range(a..b);
            if k > 0 {
                it.nth(k - 1);
            }
            let st = it.suspend();
            st.try_resume(col).map(|it| it.map(own::<T>).collect()).map_err(|e| e.to_string())
        })?;
        match got {
            Ok(g) => ensure!(g == &m[a + k..b], "C34:state:resume", "resume at {} of {a}..{b}: {}", a + k, diff(&g, &m[a + k..b])),
            Err(e) => fail!("C34:state:resume-error", "try_resume on an unchanged column failed: {e}"),
        }
    }
    // scan_to_value (find by value, unsorted)
    for _ in 0..2 {
        let a = rng.below(n + 1);
        let b = a + rng.below(n + 1 - a);
        let t = some_target::<T>(rng, m, 0);
        let want = (a..b).find(|&i| m[i] == t);
        let (got, nx, pos) = catch(&format!("iter_range({a}..{b}).scan_to_value({t:?})"), || {
            let mut it = col.iter_range(a..b);
            let r = it.scan_to_value(AsColumnRef::<T>::as_column_ref(&t));
            let nx = it.next().map(own::<T>);
            (r, nx, it.pos())
        })?;
        ensure!(got == want, "C34:state:scan_to_value", "iter_range({a}..{b}).scan_to_value({t:?}) = {:?}, model {:?}", got, want);
        let want_nx = match want {
            Some(i) if i + 1 < b => Some(m[i + 1].clone()),
            _ => None,
        };
        ensure!(nx == want_nx, "C34:state:scan_to_value-next", "after scan_to_value({t:?}) in {a}..{b} (hit {:?}) next() = {:?}, model {:?}; pos {pos}", want, nx, want_nx);
    }
    // scope_to_value / seek_to_value on a sorted window; unsorted: must not panic
    if let Some((a, b)) = sorted_window(rng, m) {
        for _ in 0..3 {
            let t = if rng.below(3) == 0 { some_target::<T>(rng, m, 0) } else { m[a + rng.below(b - a)].clone() };
            let (lo, hi) = equal_range(m, a, b, &t);
            let got = catch(&format!("scope_to_value({t:?}, {a}..{b})"), || col.scope_to_value(t.clone(), a..b))?;
            ensure!(got == (lo..hi), "C34:state:scope_to_value", "scope_to_value({t:?}, {a}..{b}) on sorted window = {:?}, model {:?}; window {:?}", got, lo..hi, &m[a..b.min(a + 12)]);
            let got = catch(&format!("iter().seek_to_value({t:?}, {a}..{b})"), || col.iter().seek_to_value(AsColumnRef::<T>::as_column_ref(&t), a..b))?;
            ensure!(got == (lo..hi), "C34:state:seek_to_value", "iter().seek_to_value({t:?}, {a}..{b}) on sorted window = {:?}, model {:?}", got, lo..hi);
        }
    }
    {
        let a = rng.below(n + 1);
        let b = a + rng.below(n + 1 - a);
        let t = some_target::<T>(rng, m, 0);
        let r = catch(&format!("scope_to_value({t:?}, {a}..{b}) on unsorted data"), || col.scope_to_value(t.clone(), a..b))?;
        let _ = r;
    }
    // is_only / save_to_unless
    {
        let t = some_target::<T>(rng, m, 0);
        let want = m.iter().all(|x| *x == t);
        let got = catch(&format!("is_only({t:?})"), || col.is_only(AsColumnRef::<T>::as_column_ref(&t)))?;
        ensure!(got == want, "C34:state:is_only", "is_only({t:?}) = {got}, model {want} (len {n})");
        let mut out = vec![9u8];
        let r = catch("save_to_unless", || col.save_to_unless(&mut out, AsColumnRef::<T>::as_column_ref(&t)))?;
        ensure!(r.is_empty() == want && r.end == out.len() && r.start >= 1, "C34:state:save_to_unless", "save_to_unless({t:?}) wrote {:?} (out len {}), all-equal = {want}", r, out.len());
    }
    Ok(())
}

impl<T> Fam for Column<T>
where
    T: ColumnValueRef + Elem + Ord,
    for<'x> T::Get<'x>: Ord + AsColumnRef<T>,
{
    type V = T;
    fn with_seg(seg: usize) -> Self {
        Column::with_max_segments(seg)
    }
    fn from_vals(v: Vec<T>, seg: usize) -> Self {
        Column::from_values_with_max_segments(v, seg)
    }
    fn len(&self) -> usize {
        Column::len(self)
    }
    fn slabs(&self) -> usize {
        self.slab_count()
    }
    fn to_vec(&self) -> Vec<T> {
        Column::to_vec(self).into_iter().map(own::<T>).collect()
    }
    fn splice(&mut self, i: usize, d: usize, v: Vec<T>) {
        Column::splice(self, i, d, v)
    }
    fn insert(&mut self, i: usize, v: T) {
        Column::insert(self, i, v)
    }
    fn remove(&mut self, i: usize) {
        Column::remove(self, i)
    }
    fn remove_n(&mut self, i: usize, n: usize) {
        Column::remove_n(self, i, n)
    }
    fn push(&mut self, v: T) {
        Column::push(self, v)
    }
    fn extend(&mut self, v: Vec<T>) {
        Extend::extend(self, v)
    }
    fn truncate(&mut self, l: usize) {
        Column::truncate(self, l)
    }
    fn clear(&mut self) {
        Column::clear(self)
    }
    fn splice_runs(&mut self, i: usize, d: usize, runs: &Runs, win: u8) -> Vec<T> {
        let rs: Vec<Run<T>> = runs.iter().map(|(s, c)| Run { count: *c as usize, value: T::mk(s, win) }).collect();
        Column::splice_runs(self, i, d, rs);
        expand(runs, win)
    }
    fn edit(&mut self, m: &[T], steps: &[EStep], win: u8) -> Option<Result<Vec<T>, Failure>> {
        let n = m.len();
        let mut out: Vec<T> = vec![];
        let mut p = 0usize;
        let mut it = steps.iter();
        let mut e = match steps.first() {
            Some(EStep::Seek(x)) => {
                it.next();
                p = at_of(*x, n);
                out.extend_from_slice(&m[..p]);
                std::mem::ManuallyDrop::new(self.edit_at(p))
            }
            _ => std::mem::ManuallyDrop::new(Column::edit(self)),
        };
        for st in it {
            let rem = n - p;
            match st {
                EStep::Seek(x) => {
                    let to = p + at_of(*x, rem);
                    e.seek(to);
                    out.extend_from_slice(&m[p..to]);
                    p = to;
                }
                EStep::Advance(k) => {
                    let k = at_of(*k, rem);
                    e.advance(k);
                    out.extend_from_slice(&m[p..p + k]);
                    p += k;
                }
                EStep::Delete(k) => {
                    // a delete off the end takes what is there (documented)
                    let k = if *k == u32::MAX { rem + 1 } else { *k as usize % (rem + 2) };
                    e.delete(k);
                    p += k.min(rem);
                }
                EStep::Insert(s) => {
                    let v = T::mk(s, win);
                    e.insert(v.clone());
                    out.push(v);
                }
                EStep::InsertRun(s, c) => {
                    let v = T::mk(s, win);
                    e.insert_run(v.clone(), *c as usize);
                    for _ in 0..*c {
                        out.push(v.clone());
                    }
                }
                EStep::Replace(s) => {
                    let v = T::mk(s, win);
                    let v2 = v.clone();
                    e.replace(move |_| v2);
                    if rem > 0 {
                        out.push(v);
                        p += 1;
                    }
                }
                EStep::Peek => {
                    let got = e.peek().map(own::<T>);
                    if got.as_ref() != m.get(p) {
                        return Some(Err(Failure::new("C34:edit:peek", format!("Edit::peek() at original position {p} = {:?}, model {:?}", got, m.get(p)))));
                    }
                }
            }
            if e.pos() != p || e.out_pos() != out.len() {
                return Some(Err(Failure::new("C34:edit:cursor-position", format!("after {st:?}: pos() = {} (model {p}), out_pos() = {} (model {})", e.pos(), e.out_pos(), out.len()))));
            }
        }
        // the cursor is held in ManuallyDrop: if the library panics mid-session the cursor's Drop (which
        // writes back) must not run during unwinding, or a second panic aborts the whole harness
        e.finish();
        drop(std::mem::ManuallyDrop::into_inner(e));
        out.extend_from_slice(&m[p..]);
        Some(Ok(out))
    }
    fn copy_ranges(&mut self, src: Self, sp: Vec<Splice>) {
        Column::copy_ranges(self, src, sp)
    }
    fn remap(&mut self, a: &T, b: &T) -> bool {
        let (a, b) = (a.clone(), b.clone());
        Column::remap(self, move |v: T| if v == a { b.clone() } else { v });
        true
    }
    fn save(&self) -> Vec<u8> {
        Column::save(self)
    }
    fn load(b: &[u8], seg: usize) -> Result<Self, String> {
        Column::load_with(b, LoadOpts::new().with_max_segments(seg)).map_err(|e| e.to_string())
    }
    fn check(&self, m: &[T], rng: &mut Lcg, tr: &mut Track) -> CaseResult {
        check_column(self, m, rng, tr)
    }
}

// ------------------------------------------------------------------------------------ dispatch
pub const COLUMN_KINDS: [&str; 13] = [
    "Column<u32>", "Column<u64>", "Column<i64>", "Column<usize>", "Column<String>", "Column<Vec<u8>>", "Column<bool>",
    "Column<Option<u32>>", "Column<Option<u64>>", "Column<Option<i64>>", "Column<Option<usize>>", "Column<Option<String>>", "Column<Option<Vec<u8>>>",
];
pub fn check_column_case(case: &Case, t: &mut Tally) -> CaseResult {
    enter("C34", "column", case);
    let k = case.kind as usize % COLUMN_KINDS.len();
    let name = COLUMN_KINDS[k];
    match k {
        0 => run_case::<Column<u32>>(case, name, t),
        1 => run_case::<Column<u64>>(case, name, t),
        2 => run_case::<Column<i64>>(case, name, t),
        3 => run_case::<Column<usize>>(case, name, t),
        4 => run_case::<Column<String>>(case, name, t),
        5 => run_case::<Column<Vec<u8>>>(case, name, t),
        6 => run_case::<Column<bool>>(case, name, t),
        7 => run_case::<Column<Option<u32>>>(case, name, t),
        8 => run_case::<Column<Option<u64>>>(case, name, t),
        9 => run_case::<Column<Option<i64>>>(case, name, t),
        10 => run_case::<Column<Option<usize>>>(case, name, t),
        11 => run_case::<Column<Option<String>>>(case, name, t),
        _ => run_case::<Column<Option<Vec<u8>>>>(case, name, t),
    }
}

// ------------------------------------------------------------------------------------ PrefixColumn<T>
pub trait PfxNum: Copy + Debug + PartialEq {
    fn to_i128(self) -> i128;
    fn from_u128(v: u128) -> Self;
}
impl PfxNum for u64 {
    fn to_i128(self) -> i128 {
        self as i128
    }
    fn from_u128(v: u128) -> Self {
        v as u64
    }
}
impl PfxNum for u128 {
    fn to_i128(self) -> i128 {
        self as i128
    }
    fn from_u128(v: u128) -> Self {
        v
    }
}
impl PfxNum for usize {
    fn to_i128(self) -> i128 {
        self as i128
    }
    fn from_u128(v: u128) -> Self {
        v as usize
    }
}
impl PfxNum for i128 {
    fn to_i128(self) -> i128 {
        self
    }
    fn from_u128(v: u128) -> Self {
        v as i128
    }
}
/// model contribution of a value to the running sum
pub trait Contrib {
    fn contrib(&self) -> i128;
}
impl Contrib for u32 {
    fn contrib(&self) -> i128 {
        *self as i128
    }
}
impl Contrib for u64 {
    fn contrib(&self) -> i128 {
        *self as i128
    }
}
impl Contrib for i64 {
    fn contrib(&self) -> i128 {
        *self as i128
    }
}
impl Contrib for bool {
    fn contrib(&self) -> i128 {
        *self as i128
    }
}
impl<T: Contrib> Contrib for Option<T> {
    fn contrib(&self) -> i128 {
        self.as_ref().map(|v| v.contrib()).unwrap_or(0)
    }
}

fn prefix_sums<T: Contrib>(m: &[T]) -> Vec<i128> {
    let mut p = Vec::with_capacity(m.len() + 1);
    let mut acc = 0i128;
    p.push(0);
    for v in m {
        acc += v.contrib();
        p.push(acc);
    }
    p
}

pub fn check_prefix<T>(col: &PrefixColumn<T>, m: &[T], rng: &mut Lcg, _tr: &mut Track) -> CaseResult
where
    T: PrefixValue + Elem + Ord + Contrib,
    T::Prefix: PfxNum,
    for<'x> T::Get<'x>: Ord + AsColumnRef<T>,
{
    let n = m.len();
    let ps = prefix_sums(m);
    ensure!(col.len() == n, "C34:state:len", "len() = {}, model {n}", col.len());
    ensure!(col.is_empty() == (n == 0), "C34:state:is_empty", "is_empty() = {} with model len {n}", col.is_empty());
    let v: Vec<T> = catch("to_vec", || col.to_vec().into_iter().map(own::<T>).collect())?;
    ensure!(v == m, "C34:state:to_vec-mismatch", "to_vec: {}", diff(&v, m));
    match catch("validate_encoding", || col.values().validate_encoding())? {
        Ok(()) => {}
        Err(e) => fail!("C34:state:validate_encoding", "validate_encoding() = {e} on a column with {n} items"),
    }
    // full iteration with running totals
    let got: Vec<(T, i128, i128)> = catch("iter", || col.iter().map(|pv| (own::<T>(pv.value), pv.prefix().to_i128(), pv.total().to_i128())).collect())?;
    ensure!(got.len() == n, "C34:state:iter-len", "iter() yielded {} items, model {n}", got.len());
    for (i, (v, p, t)) in got.iter().enumerate() {
        ensure!(*v == m[i] && *p == ps[i] && *t == ps[i + 1], "C34:state:prefix-iter", "iter() item {i}: value {:?} prefix {p} total {t}; model value {:?} prefix {} total {}", v, m[i], ps[i], ps[i + 1]);
    }
    // get / get_prefix / get_total / values().get
    for i in probes(rng, n) {
        let g = catch(&format!("get({i})"), || col.get(i).map(|pv| (own::<T>(pv.value), pv.prefix().to_i128(), pv.total().to_i128())))?;
        ensure!(g == Some((m[i].clone(), ps[i], ps[i + 1])), "C34:state:prefix-get", "get({i}) = {:?}, model ({:?}, {}, {})", g, m[i], ps[i], ps[i + 1]);
        let p = catch(&format!("get_prefix({i})"), || col.get_prefix(i).to_i128())?;
        ensure!(p == ps[i], "C34:state:get_prefix", "get_prefix({i}) = {p}, model {} (len {n})", ps[i]);
        let t = catch(&format!("get_total({i})"), || col.get_total(i).to_i128())?;
        ensure!(t == ps[i + 1], "C34:state:get_total", "get_total({i}) = {t}, model {} (len {n})", ps[i + 1]);
        let g = catch(&format!("values().get({i})"), || col.values().get(i).map(own::<T>))?;
        ensure!(g.as_ref() == Some(&m[i]), "C34:state:get", "values().get({i}) = {:?}, model {:?}", g, m[i]);
    }
    let p = catch(&format!("get_prefix({n})"), || col.get_prefix(n).to_i128())?;
    ensure!(p == ps[n], "C34:state:get_prefix", "get_prefix(len = {n}) = {p}, model {}", ps[n]);
    let g = catch(&format!("get({n})"), || col.get(n).is_none())?;
    ensure!(g, "C34:state:get-past-end", "get({n}) is Some with len {n}");
    // sum_range, iter_range, delta
    for (a, b) in windows(rng, n, 3) {
        let (ca, cb) = (a.min(n), b.min(n));
        if b <= n {
            let s = catch(&format!("sum_range({a}..{b})"), || col.sum_range(a..b).to_i128())?;
            ensure!(s == ps[cb] - ps[ca], "C34:state:sum_range", "sum_range({a}..{b}) = {s}, model {} (len {n})", ps[cb] - ps[ca]);
        }
        let got: Vec<(T, i128)> = catch(&format!("iter_range({a}..{b})"), || col.iter_range(a..b).map(|pv| (own::<T>(pv.value), pv.total().to_i128())).collect())?;
        let want: Vec<(T, i128)> = (ca..cb).map(|i| (m[i].clone(), ps[i + 1])).collect();
        ensure!(got == want, "C34:state:prefix-iter_range", "iter_range({a}..{b}) (len {n}): {}", diff(&got, &want));
        // runs with totals
        let runs: Vec<(usize, T, i128)> = catch(&format!("iter_range({a}..{b}).next_run"), || {
            let mut it = col.iter_range(a..b);
            let mut out = vec![];
            while let Some(r) = it.next_run() {
                out.push((r.count, own::<T>(r.value.value), r.value.total().to_i128()));
            }
            out
        })?;
        let mut pos = ca;
        for (c, v, t) in &runs {
            ensure!(*c > 0 && pos + c <= cb && m[pos..pos + c].iter().all(|x| x == v) && *t == ps[pos + c], "C34:state:prefix-runs", "iter_range({a}..{b}).next_run(): run ({c} x {:?}, total {t}) at {pos}; model total {:?}", v, ps.get(pos + c));
            pos += c;
        }
        ensure!(pos == cb, "C34:state:prefix-runs", "iter_range({a}..{b}) runs cover {ca}..{pos}, expected ..{cb}");
        if a <= b && b < n {
            let d = catch(&format!("delta({a},{b})"), || col.delta(a, b).map(|s| (s.pos, s.delta.to_i128(), own::<T>(s.pv.value), s.pv.total().to_i128())))?;
            ensure!(d == Some((b, ps[b] - ps[a], m[b].clone(), ps[b + 1])), "C34:state:delta", "delta({a},{b}) = {:?}, model ({b}, {}, {:?}, {})", d, ps[b] - ps[a], m[b], ps[b + 1]);
        }
    }
    // nth walk with totals
    {
        let a = rng.below(n + 1);
        let r = catch(&format!("nth walk from {a}"), || -> CaseResult {
            let mut it = col.iter_range(a..n);
            let mut pos = a;
            ensure!(it.total().to_i128() == ps[a], "C34:state:prefix-iter-start", "iter_range({a}..).total() = {:?}, model {}", it.total(), ps[a]);
            loop {
                let k = if rng.below(5) == 0 { rng.below(n + 2) } else { rng.below(6) };
                let got = it.nth(k).map(|pv| (own::<T>(pv.value), pv.total().to_i128()));
                if pos + k >= n {
                    ensure!(got.is_none(), "C34:state:nth-past-end", "nth({k}) at pos {pos} of window {a}..{n} returned {:?}", got);
                    break;
                }
                ensure!(got == Some((m[pos + k].clone(), ps[pos + k + 1])), "C34:state:prefix-nth", "nth({k}) at pos {pos} = {:?}, model ({:?}, {})", got, m[pos + k], ps[pos + k + 1]);
                pos += k + 1;
                ensure!(it.pos() == pos && it.total().to_i128() == ps[pos], "C34:state:iter-pos", "pos() = {}, total() = {:?} after reading index {}; model total {}", it.pos(), it.total(), pos - 1, ps[pos]);
            }
            Ok(())
        })?;
        r?;
    }
    Ok(())
}

/// inverse prefix queries (unsigned prefix types only)
pub fn check_prefix_unsigned<T>(col: &PrefixColumn<T>, m: &[T], rng: &mut Lcg) -> CaseResult
where
    T: PrefixValue + Elem + Ord + Contrib,
    T::Prefix: PfxNum + hexane::prefix::UnsignedPrefix + std::ops::Div<Output = T::Prefix> + TryInto<usize> + TryFrom<usize> + Ord,
{
    let n = m.len();
    let ps = prefix_sums(m);
    let grand = ps[n];
    let mut targets: Vec<i128> = vec![0, 1, grand, grand + 1];
    if grand > 1 {
        targets.push(grand - 1);
    }
    for _ in 0..8 {
        let i = rng.below(n + 1);
        targets.push(ps[i]);
        targets.push(ps[i] + 1);
        if ps[i] > 0 {
            targets.push(ps[i] - 1);
        }
        if grand > 0 {
            targets.push((rng.next() as u128 % (grand as u128 + 1)) as i128);
        }
    }
    for t in targets {
        if t < 0 {
            continue;
        }
        let tp = T::Prefix::from_u128(t as u128);
        if tp.to_i128() != t {
            continue;
        }
        // first index i with get_prefix(i) >= target; 0 for target 0; len + 1 when target exceeds the grand total
        let want_p = if t <= 0 { 0 } else { ps.iter().position(|p| *p >= t).unwrap_or(n + 1) };
        let got = catch(&format!("get_index_for_prefix({t})"), || col.get_index_for_prefix(tp))?;
        ensure!(got == want_p, "C34:state:get_index_for_prefix", "get_index_for_prefix({t}) = {got}, model {want_p} (len {n}, grand total {grand})");
        let got = catch(&format!("get_index_for_total({t})"), || col.get_index_for_total(tp))?;
        ensure!(got == want_p.saturating_sub(1), "C34:state:get_index_for_total", "get_index_for_total({t}) = {got}, model {} (len {n}, grand total {grand})", want_p.saturating_sub(1));
    }
    // advance_prefix: lands on the item containing unit n+1 past the current running total
    for _ in 0..4 {
        let a = rng.below(n + 1);
        let b = a + rng.below(n + 1 - a);
        let span = (ps[b] - ps[a]).max(0) as u128;
        let k = match rng.below(4) {
            0 => 0u128,
            1 => span,
            _ => rng.next() as u128 % (span + 2),
        };
        let kp = T::Prefix::from_u128(k);
        if kp.to_i128() != k as i128 {
            continue;
        }
        let abs = ps[a] + k as i128 + 1;
        let land = (0..n).find(|&i| ps[i + 1] >= abs);
        let want = match land {
            Some(i) if i >= a && i < b => Some((i, ps[i] - ps[a], m[i].clone(), ps[i + 1])),
            _ => None,
        };
        let (got, nx) = catch(&format!("iter_range({a}..{b}).advance_prefix({k})"), || {
            let mut it = col.iter_range(a..b);
            let r = it.advance_prefix(kp).map(|s| (s.pos, s.delta.to_i128(), own::<T>(s.pv.value), s.pv.total().to_i128()));
            let nx = it.next().map(|pv| own::<T>(pv.value));
            (r, nx)
        })?;
        ensure!(got == want, "C34:state:advance_prefix", "iter_range({a}..{b}).advance_prefix({k}) = {:?}, model {:?} (prefix at {a} = {})", got, want, ps[a]);
        let want_nx = match want {
            Some((i, ..)) if i + 1 < b => Some(m[i + 1].clone()),
            _ => None,
        };
        ensure!(nx == want_nx, "C34:state:advance_prefix-next", "next() after advance_prefix({k}) in {a}..{b} = {:?}, model {:?}", nx, want_nx);
    }
    Ok(())
}

macro_rules! prefix_fam {
    ($t:ty, $unsigned:tt) => {
        impl Fam for PrefixColumn<$t> {
            type V = $t;
            fn with_seg(seg: usize) -> Self {
                PrefixColumn::with_max_segments(seg)
            }
            fn from_vals(v: Vec<$t>, seg: usize) -> Self {
                PrefixColumn::from_column(Column::from_values_with_max_segments(v, seg))
            }
            fn len(&self) -> usize {
                PrefixColumn::len(self)
            }
            fn slabs(&self) -> usize {
                self.slab_count()
            }
            fn to_vec(&self) -> Vec<$t> {
                PrefixColumn::to_vec(self).into_iter().map(own::<$t>).collect()
            }
            fn splice(&mut self, i: usize, d: usize, v: Vec<$t>) {
                PrefixColumn::splice(self, i, d, v)
            }
            fn insert(&mut self, i: usize, v: $t) {
                PrefixColumn::insert(self, i, v)
            }
            fn remove(&mut self, i: usize) {
                PrefixColumn::remove(self, i)
            }
            fn remove_n(&mut self, i: usize, n: usize) {
                PrefixColumn::remove_n(self, i, n)
            }
            fn push(&mut self, v: $t) {
                PrefixColumn::push(self, v)
            }
            fn extend(&mut self, v: Vec<$t>) {
                let l = PrefixColumn::len(self);
                PrefixColumn::splice(self, l, 0, v)
            }
            fn truncate(&mut self, l: usize) {
                PrefixColumn::truncate(self, l)
            }
            fn clear(&mut self) {
                PrefixColumn::clear(self)
            }
            fn splice_runs(&mut self, i: usize, d: usize, runs: &Runs, win: u8) -> Vec<$t> {
                let rs: Vec<Run<$t>> = runs.iter().map(|(s, c)| Run { count: *c as usize, value: <$t as Elem>::mk(s, win) }).collect();
                PrefixColumn::splice_runs(self, i, d, rs);
                expand(runs, win)
            }
            fn copy_ranges(&mut self, src: Self, sp: Vec<Splice>) {
                PrefixColumn::copy_ranges(self, src, sp)
            }
            fn save(&self) -> Vec<u8> {
                PrefixColumn::save(self)
            }
            fn load(b: &[u8], seg: usize) -> Result<Self, String> {
                PrefixColumn::load_with(b, LoadOpts::new().with_max_segments(seg)).map_err(|e| e.to_string())
            }
            fn check(&self, m: &[$t], rng: &mut Lcg, tr: &mut Track) -> CaseResult {
                check_prefix(self, m, rng, tr)?;
                prefix_fam!(@inv $unsigned, self, m, rng);
                Ok(())
            }
        }
    };
    (@inv true, $s:expr, $m:expr, $rng:expr) => {
        check_prefix_unsigned($s, $m, $rng)?
    };
    (@inv false, $s:expr, $m:expr, $rng:expr) => {};
}
prefix_fam!(u32, true);
prefix_fam!(u64, true);
prefix_fam!(i64, false);
prefix_fam!(bool, true);
prefix_fam!(Option<u32>, true);
prefix_fam!(Option<u64>, true);
prefix_fam!(Option<i64>, false);

pub const PREFIX_KINDS: [&str; 7] = ["PrefixColumn<u32>", "PrefixColumn<u64>", "PrefixColumn<i64>", "PrefixColumn<bool>", "PrefixColumn<Option<u32>>", "PrefixColumn<Option<u64>>", "PrefixColumn<Option<i64>>"];
pub fn check_prefix_case(case: &Case, t: &mut Tally) -> CaseResult {
    enter("C34", "prefix", case);
    let k = case.kind as usize % PREFIX_KINDS.len();
    let name = PREFIX_KINDS[k];
    match k {
        0 => run_case::<PrefixColumn<u32>>(case, name, t),
        1 => run_case::<PrefixColumn<u64>>(case, name, t),
        2 => run_case::<PrefixColumn<i64>>(case, name, t),
        3 => run_case::<PrefixColumn<bool>>(case, name, t),
        4 => run_case::<PrefixColumn<Option<u32>>>(case, name, t),
        5 => run_case::<PrefixColumn<Option<u64>>>(case, name, t),
        _ => run_case::<PrefixColumn<Option<i64>>>(case, name, t),
    }
}

// ------------------------------------------------------------------------------------ DeltaColumn<T>
/// inclusive bounds of the generator's window for this case (realized values as i64)
fn delta_window<T: DeltaValue>(win: u8) -> (i64, i64) {
    let (lo, hi) = match win {
        1 => (-(1i64 << 62), (1i64 << 62) - 1),
        2 => (0, i64::MAX),
        3 => (-i64::MAX, 0),
        _ => (-(1i64 << 61), (1i64 << 61) - 1),
    };
    (lo.max(T::MIN_I64), hi.min(T::MAX_I64))
}

/// A run of `cnt` values starting at the seed's value with a small step, as a DeltaRun plus the
/// realized model values.  Falls back to step 0 when the progression would leave the domain.
fn delta_run_of<T: DeltaValue + Elem>(sd: &Sd, cnt: usize, win: u8) -> (DeltaRun, Vec<T>) {
    let v = T::mk(sd, win);
    match v.to_i64() {
        None => (DeltaRun { prefix: 0, delta: None, count: cnt }, vec![v; cnt]),
        Some(v0) => {
            let mut step = [0i64, 0, 0, 1, 1, 2, -1, 3, -2, 1000][((sd.1 >> 8) % 10) as usize];
            let (lo, hi) = delta_window::<T>(win);
            let last = v0 as i128 + step as i128 * (cnt as i128 - 1);
            if last < lo as i128 || last > hi as i128 || v0.checked_sub(step).is_none() {
                step = 0;
            }
            let vals: Vec<T> = (0..cnt).map(|j| T::from_i64(v0 + step * j as i64)).collect();
            (DeltaRun { prefix: v0 - step, delta: Some(step), count: cnt }, vals)
        }
    }
}

pub fn check_delta<T>(col: &DeltaColumn<T>, m: &[T], rng: &mut Lcg, tr: &mut Track, win: u8) -> CaseResult
where
    T: DeltaValue + Elem + Ord,
{
    let n = m.len();
    ensure!(col.len() == n, "C34:state:len", "len() = {}, model {n}", col.len());
    ensure!(col.is_empty() == (n == 0), "C34:state:is_empty", "is_empty() = {} with model len {n}", col.is_empty());
    let v: Vec<T> = catch("to_vec", || col.to_vec())?;
    ensure!(v == m, "C34:state:to_vec-mismatch", "to_vec: {}", diff(&v, m));
    invariants(catch("check_invariants", || col.check_invariants()), tr)?;
    for i in probes(rng, n) {
        let g = catch(&format!("get({i})"), || col.get(i))?;
        ensure!(g == Some(m[i]), "C34:state:get", "get({i}) = {:?}, model {:?} (len {n})", g, m[i]);
    }
    for i in [n, n + 1 + rng.below(5)] {
        let g = catch(&format!("get({i})"), || col.get(i))?;
        ensure!(g.is_none(), "C34:state:get-past-end", "get({i}) = {:?} with len {n}", g);
    }
    let (f, l) = catch("first/last", || (col.first(), col.last()))?;
    ensure!(f == m.first().copied() && l == m.last().copied(), "C34:state:first-last", "first() = {:?}, last() = {:?}; model {:?}, {:?}", f, l, m.first(), m.last());
    // iter_range and runs
    for (a, b) in windows(rng, n, 3) {
        let (ca, cb) = (a.min(n), b.min(n));
        let want = &m[ca..cb];
        let got: Vec<T> = catch(&format!("iter_range({a}..{b})"), || col.iter_range(a..b).collect())?;
        ensure!(got == want, "C34:state:iter_range", "iter_range({a}..{b}) (len {n}): {}", diff(&got, want));
        let runs: Vec<DeltaRun> = catch(&format!("iter_range({a}..{b}).runs()"), || col.iter_range(a..b).runs().collect())?;
        let mut ex: Vec<T> = vec![];
        for r in &runs {
            ensure!(r.count > 0, "C34:state:runs-zero-count", "iter_range({a}..{b}).runs() yielded an empty run {:?}", r);
            for j in 1..=r.count {
                ex.push(match r.delta {
                    None => T::null_value(),
                    Some(d) => match (d as i128 * j as i128 + r.prefix as i128).try_into().ok().and_then(|x: i64| T::try_from_i64(x).ok()) {
                        Some(v) => v,
                        None => fail!("C34:state:runs", "iter_range({a}..{b}).runs(): run {:?} realizes a value outside the domain at step {j}", r),
                    },
                });
            }
        }
        ensure!(ex == want, "C34:state:runs", "iter_range({a}..{b}).runs() expands wrongly (len {n}): {}; runs {:?}", diff(&ex, want), &runs[..runs.len().min(6)]);
    }
    // nth walk
    {
        let a = rng.below(n + 1);
        let r = catch(&format!("nth walk from {a}"), || -> CaseResult {
            let mut it = col.iter_range(a..n);
            let mut pos = a;
            loop {
                let k = if rng.below(5) == 0 { rng.below(n + 2) } else { rng.below(6) };
                let got = it.nth(k);
                if pos + k >= n {
                    ensure!(got.is_none(), "C34:state:nth-past-end", "nth({k}) at pos {pos} of window {a}..{n} returned {:?}", got);
                    break;
                }
                ensure!(got == Some(m[pos + k]), "C34:state:nth", "nth({k}) at pos {pos} = {:?}, model {:?}", got, m[pos + k]);
                pos += k + 1;
                ensure!(it.pos() == pos, "C34:state:iter-pos", "pos() = {} after reading index {}", it.pos(), pos - 1);
            }
            Ok(())
        })?;
        r?;
    }
    // shift
    if n > 0 {
        let a = rng.below(n);
        let b = a + rng.below(n - a + 1);
        let c = a + rng.below(n + 2 - a);
        let d = c + rng.below(n + 3 - c.min(n + 2));
        let want = &m[c.min(n)..d.min(n)];
        let got: Vec<T> = catch(&format!("iter_range({a}..{b}).shift({c}..{d})"), || {
            let mut it = col.iter_range(a..b);
            it.shift(c..d);
            it.collect()
        })?;
        ensure!(got == want, "C34:state:shift", "iter_range({a}..{b}) then shift({c}..{d}) (len {n}): {}", diff(&got, want));
    }
    // find_by_value / find_first / find_by_range (non-null targets; null targets: see end-of-case query)
    let mvals: Vec<Option<i64>> = m.iter().map(|v| v.to_i64()).collect();
    for _ in 0..4 {
        let t = some_target::<T>(rng, m, win);
        let Some(ti) = t.to_i64() else { continue };
        if avoid("C34:find_by_value:panic") && (ti.unsigned_abs() >= 1u64 << 61 || DeltaFam::<T>::near_edge(m)) {
            tr.note_excluded("find_by_value with |value| >= 2^61");
            continue;
        }
        let want: Vec<usize> = (0..n).filter(|&i| mvals[i] == Some(ti)).collect();
        let got: Vec<usize> = q("find_by_value", &format!("find_by_value({t:?})"), || col.find_by_value(t).collect())?;
        ensure!(got == want, "C34:state:find_by_value", "find_by_value({t:?}) = {:?}, model {:?} (len {n})", &got[..got.len().min(10)], &want[..want.len().min(10)]);
        let got = catch(&format!("find_first({t:?})"), || col.find_first(t))?;
        ensure!(got == want.first().copied(), "C34:state:find_first", "find_first({t:?}) = {:?}, model {:?}", got, want.first());
    }
    for _ in 0..3 {
        let (lo_w, hi_w) = delta_window::<T>(win);
        let pick = |rng: &mut Lcg| -> i64 {
            let base = match some_target::<T>(rng, m, win).to_i64() {
                Some(v) => v,
                None => 0,
            };
            let off = [0i64, 1, -1, 2, -2, 10, 1000][rng.below(7)];
            base.checked_add(off).unwrap_or(base).clamp(lo_w, hi_w)
        };
        let (x, y) = (pick(rng), pick(rng));
        let (lo, hi) = (x.min(y), x.max(y));
        if avoid("C34:find_by_value:panic") && (lo.unsigned_abs() >= 1u64 << 61 || hi.unsigned_abs() >= 1u64 << 61 || DeltaFam::<T>::near_edge(m)) {
            tr.note_excluded("find_by_value with |value| >= 2^61");
            continue;
        }
        let want: Vec<usize> = (0..n).filter(|&i| matches!(mvals[i], Some(v) if v >= lo && v < hi)).collect();
        let got: Vec<usize> = q("find_by_value", &format!("find_by_range({lo}..{hi})"), || col.find_by_range(lo..hi).collect())?;
        ensure!(got == want, "C34:state:find_by_range", "find_by_range({lo}..{hi}) = {:?}, model {:?} (len {n})", &got[..got.len().min(10)], &want[..want.len().min(10)]);
    }
    // unstorable unsigned targets are simply not found (documented)
    if T::MIN_I64 == 0 && T::MAX_I64 == i64::MAX {
        // T is u64/usize (or their Option): build an out-of-domain value through the full-domain seed
        let big = T::mk(&Sd(9, 11), 0); // 1 << 63
        if big.try_to_i64().is_none() && !big.is_null() {
            let got: Vec<usize> = catch("find_by_value(2^63)", || col.find_by_value(big).collect())?;
            ensure!(got.is_empty(), "C34:state:find_by_value-unstorable", "find_by_value(2^63) = {:?}", got);
        }
    }
    // scan_to_value / scan_to_range on windows
    for _ in 0..2 {
        let a = rng.below(n + 1);
        let b = a + rng.below(n + 1 - a);
        let t = some_target::<T>(rng, m, win);
        if t.is_null() {
            continue;
        }
        let want = (a..b).find(|&i| m[i] == t);
        let (got, nx) = catch(&format!("iter_range({a}..{b}).scan_to_value({t:?})"), || {
            let mut it = col.iter_range(a..b);
            let r = it.scan_to_value(t);
            (r, it.next())
        })?;
        ensure!(got == want, "C34:state:scan_to_value", "iter_range({a}..{b}).scan_to_value({t:?}) = {:?}, model {:?}", got, want);
        let want_nx = match want {
            Some(i) if i + 1 < b => Some(m[i + 1]),
            _ => None,
        };
        ensure!(nx == want_nx, "C34:state:scan_to_value-next", "after scan_to_value({t:?}) in {a}..{b} (hit {:?}) next() = {:?}, model {:?}", want, nx, want_nx);
        // range form
        let t2 = some_target::<T>(rng, m, win);
        if let (Some(x), Some(y)) = (t.to_i64(), t2.to_i64()) {
            let (lo, hi) = if x <= y { (t, t2) } else { (t2, t) };
            let (li, hi_i) = (x.min(y), x.max(y));
            let want = (a..b).find(|&i| matches!(mvals[i], Some(v) if v >= li && v <= hi_i));
            let got = catch(&format!("iter_range({a}..{b}).scan_to_range({lo:?}..={hi:?})"), || col.iter_range(a..b).scan_to_range(lo..=hi))?;
            ensure!(got == want.map(|i| (i, m[i])), "C34:state:scan_to_range", "iter_range({a}..{b}).scan_to_range({lo:?}..={hi:?}) = {:?}, model {:?}", got, want.map(|i| (i, m[i])));
        }
    }
    // scope_to_value on a sorted window (T's Ord: nulls first); unsorted: must not panic
    if let Some((a, b)) = sorted_window(rng, m) {
        for _ in 0..3 {
            let t = if rng.below(3) == 0 { some_target::<T>(rng, m, win) } else { m[a + rng.below(b - a)] };
            let (lo, hi) = equal_range(m, a, b, &t);
            if avoid("C34:scope_to_value:panic") && big_jump(&mvals, b) {
                tr.note_excluded("scope_to_value(jump>=2^61)");
                continue;
            }
            let got = q("scope_to_value", &format!("scope_to_value({t:?}, {a}..{b}) on sorted window"), || col.scope_to_value(t, a..b))?;
            ensure!(got == (lo..hi), "C34:state:scope_to_value", "scope_to_value({t:?}, {a}..{b}) on sorted window = {:?}, model {:?}; window starts {:?}", got, lo..hi, &m[a..b.min(a + 12)]);
        }
    }
    {
        let a = rng.below(n + 1);
        let b = a + rng.below(n + 1 - a);
        let t = some_target::<T>(rng, m, win);
        if avoid("C34:scope_to_value:panic") && big_jump(&mvals, b) {
            tr.note_excluded("scope_to_value(jump>=2^61)");
        } else {
            let _ = q("scope_to_value", &format!("scope_to_value({t:?}, {a}..{b}) on unsorted data"), || col.scope_to_value(t, a..b))?;
        }
    }
    // save_to_unless compares realized values
    {
        let t = some_target::<T>(rng, m, win);
        let want = m.iter().all(|x| *x == t);
        let mut out = vec![9u8];
        let r = catch(&format!("save_to_unless({t:?})"), || col.save_to_unless(&mut out, t))?;
        ensure!(r.is_empty() == want, "C34:state:save_to_unless", "save_to_unless({t:?}) wrote {:?}, all-equal = {want} (len {n})", r);
    }
    Ok(())
}

/// a step of at least 2^61 between consecutive realized values (from the implicit 0) before index `b`
fn big_jump(mv: &[Option<i64>], b: usize) -> bool {
    let mut prev = 0i64;
    for v in mv[..b].iter().flatten() {
        if (*v as i128 - prev as i128).abs() >= 1i128 << 61 {
            return true;
        }
        prev = *v;
    }
    false
}
/// Newtype carrying the case's domain window so that `Fam::check` can generate in-domain targets.
pub struct DeltaFam<T: DeltaValue>(pub DeltaColumn<T>, pub u8);

impl<T> Fam for DeltaFam<T>
where
    T: DeltaValue + Elem + Ord,
{
    type V = T;
    const DELTA: bool = true;
    fn with_seg(seg: usize) -> Self {
        DeltaFam(DeltaColumn::with_max_segments(seg), 1)
    }
    fn from_vals(v: Vec<T>, seg: usize) -> Self {
        let mut c = DeltaColumn::with_max_segments(seg);
        c.splice(0, 0, v);
        DeltaFam(c, 1)
    }
    fn len(&self) -> usize {
        self.0.len()
    }
    fn slabs(&self) -> usize {
        self.0.slab_count()
    }
    fn to_vec(&self) -> Vec<T> {
        self.0.to_vec()
    }
    fn splice(&mut self, i: usize, d: usize, v: Vec<T>) {
        self.0.splice(i, d, v)
    }
    fn insert(&mut self, i: usize, v: T) {
        self.0.insert(i, v)
    }
    fn remove(&mut self, i: usize) {
        self.0.remove(i)
    }
    fn remove_n(&mut self, i: usize, n: usize) {
        self.0.remove_n(i, n)
    }
    fn push(&mut self, v: T) {
        self.0.push(v)
    }
    fn pop(&mut self) -> Option<Option<T>> {
        Some(self.0.pop())
    }
    fn extend(&mut self, v: Vec<T>) {
        Extend::extend(&mut self.0, v)
    }
    fn truncate(&mut self, l: usize) {
        self.0.truncate(l)
    }
    fn clear(&mut self) {
        self.0.clear()
    }
    fn splice_runs(&mut self, i: usize, d: usize, runs: &Runs, win: u8) -> Vec<T> {
        self.1 = win;
        let mut rs = vec![];
        let mut vals = vec![];
        for (s, c) in runs {
            let (r, v) = delta_run_of::<T>(s, *c as usize, win);
            rs.push(r);
            vals.extend(v);
        }
        self.0.splice_runs(i, d, rs);
        vals
    }
    fn edit(&mut self, m: &[T], steps: &[EStep], win: u8) -> Option<Result<Vec<T>, Failure>> {
        self.1 = win;
        let n = m.len();
        let mut out: Vec<T> = vec![];
        let mut p = 0usize;
        let mut it = steps.iter();
        let mut e = match steps.first() {
            Some(EStep::Seek(x)) => {
                it.next();
                p = at_of(*x, n);
                out.extend_from_slice(&m[..p]);
                std::mem::ManuallyDrop::new(self.0.edit_at(p))
            }
            _ => std::mem::ManuallyDrop::new(self.0.edit()),
        };
        for st in it {
            let rem = n - p;
            match st {
                EStep::Seek(x) => {
                    let to = p + at_of(*x, rem);
                    e.seek(to);
                    out.extend_from_slice(&m[p..to]);
                    p = to;
                }
                EStep::Advance(k) => {
                    let k = at_of(*k, rem);
                    e.advance(k);
                    out.extend_from_slice(&m[p..p + k]);
                    p += k;
                }
                EStep::Delete(k) => {
                    let k = at_of(*k, rem);
                    e.delete(k);
                    p += k;
                }
                EStep::Insert(s) => {
                    let v = T::mk(s, win);
                    e.insert(v);
                    out.push(v);
                }
                EStep::InsertRun(s, c) => {
                    if s.1 & 1 == 0 {
                        let v = T::mk(s, win);
                        e.insert_run(v, *c as usize);
                        for _ in 0..*c {
                            out.push(v);
                        }
                    } else {
                        let (r, v) = delta_run_of::<T>(s, *c as usize, win);
                        e.insert_runs([r]);
                        out.extend(v);
                    }
                }
                EStep::Replace(s) => {
                    let v = T::mk(s, win);
                    e.replace(move |_| v);
                    if rem > 0 {
                        out.push(v);
                        p += 1;
                    }
                }
                EStep::Peek => {
                    let got = e.peek();
                    if got != m.get(p).copied() {
                        return Some(Err(Failure::new("C34:edit:peek", format!("DeltaEdit::peek() at original position {p} = {:?}, model {:?}", got, m.get(p)))));
                    }
                }
            }
            if e.pos() != p {
                return Some(Err(Failure::new("C34:edit:cursor-position", format!("after {st:?}: pos() = {} (model {p})", e.pos()))));
            }
        }
        // the cursor is held in ManuallyDrop: if the library panics mid-session the cursor's Drop (which
        // writes back) must not run during unwinding, or a second panic aborts the whole harness
        e.finish();
        drop(std::mem::ManuallyDrop::into_inner(e));
        out.extend_from_slice(&m[p..]);
        Some(Ok(out))
    }
    fn copy_ranges(&mut self, src: Self, sp: Vec<Splice>) {
        self.0.copy_ranges(src.0, sp)
    }
    fn near_edge(v: &[T]) -> bool {
        v.iter().any(|x| matches!(x.to_i64(), Some(i) if i.unsigned_abs() >= 1u64 << 61))
    }
    fn final_queries(&self, m: &[T], tr: &mut Track) -> CaseResult {
        if <T as DeltaValue>::NULLABLE && m.iter().any(|v| v.is_null()) {
            if avoid("C34:find_by_value:null-target") {
                tr.note_excluded("find_by_value(None)");
                return Ok(());
            }
            let want: Vec<usize> = (0..m.len()).filter(|&i| m[i].is_null()).collect();
            let got: Vec<usize> = q("find_by_value", "find_by_value(None)", || self.0.find_by_value(T::null_value()).collect())?;
            ensure!(got == want, "C34:find_by_value:null-target-not-found", "find_by_value(None) = {:?}, model {:?} (len {}); scan_to_value(None) does find them", &got[..got.len().min(8)], &want[..want.len().min(8)], m.len());
        }
        Ok(())
    }
    fn save(&self) -> Vec<u8> {
        self.0.save()
    }
    fn load(b: &[u8], seg: usize) -> Result<Self, String> {
        DeltaColumn::load_with(b, LoadOpts::new().with_max_segments(seg)).map(|c| DeltaFam(c, 1)).map_err(|e| e.to_string())
    }
    fn check(&self, m: &[T], rng: &mut Lcg, tr: &mut Track) -> CaseResult {
        check_delta(&self.0, m, rng, tr, tr.win)
    }
}

pub const DELTA_KINDS: [&str; 10] = [
    "DeltaColumn<u32>", "DeltaColumn<u64>", "DeltaColumn<i64>", "DeltaColumn<usize>", "DeltaColumn<i32>",
    "DeltaColumn<Option<u32>>", "DeltaColumn<Option<u64>>", "DeltaColumn<Option<i64>>", "DeltaColumn<Option<usize>>", "DeltaColumn<Option<i32>>",
];
pub fn check_delta_case(case: &Case, t: &mut Tally) -> CaseResult {
    enter("C34", "delta", case);
    let k = case.kind as usize % DELTA_KINDS.len();
    let name = DELTA_KINDS[k];
    match k {
        0 => run_case::<DeltaFam<u32>>(case, name, t),
        1 => run_case::<DeltaFam<u64>>(case, name, t),
        2 => run_case::<DeltaFam<i64>>(case, name, t),
        3 => run_case::<DeltaFam<usize>>(case, name, t),
        4 => run_case::<DeltaFam<i32>>(case, name, t),
        5 => run_case::<DeltaFam<Option<u32>>>(case, name, t),
        6 => run_case::<DeltaFam<Option<u64>>>(case, name, t),
        7 => run_case::<DeltaFam<Option<i64>>>(case, name, t),
        8 => run_case::<DeltaFam<Option<usize>>>(case, name, t),
        _ => run_case::<DeltaFam<Option<i32>>>(case, name, t),
    }
}

// ------------------------------------------------------------------------------------ RawColumn
/// RawColumn seen as a vector of blobs: every splice point is a blob boundary (the documented
/// contract), so every blob must stay readable as one contiguous `get`.
pub struct RawFam {
    pub col: RawColumn,
    pub lens: Vec<usize>,
}
impl RawFam {
    fn off(&self, i: usize) -> usize {
        self.lens[..i].iter().sum()
    }
}
impl Fam for RawFam {
    type V = Vec<u8>;
    fn with_seg(seg: usize) -> Self {
        RawFam { col: RawColumn::with_max_segments(seg * 4), lens: vec![] }
    }
    fn from_vals(v: Vec<Vec<u8>>, seg: usize) -> Self {
        let mut r = Self::with_seg(seg);
        for b in v {
            r.push(b);
        }
        r
    }
    fn len(&self) -> usize {
        self.lens.len()
    }
    fn slabs(&self) -> usize {
        let n = self.col.len();
        if n > 0 && self.col.try_get(0..n).is_err() {
            2
        } else {
            1
        }
    }
    fn to_vec(&self) -> Vec<Vec<u8>> {
        let mut off = 0;
        self.lens
            .iter()
            .map(|l| {
                let b = self.col.get(off..off + l).to_vec();
                off += l;
                b
            })
            .collect()
    }
    fn splice(&mut self, i: usize, d: usize, v: Vec<Vec<u8>>) {
        let off = self.off(i);
        let delb: usize = self.lens[i..i + d].iter().sum();
        self.col.splice(off, delb, v.iter());
        self.lens.splice(i..i + d, v.iter().map(|b| b.len()));
    }
    fn insert(&mut self, i: usize, v: Vec<u8>) {
        let off = self.off(i);
        self.col.splice_slice(off, 0, &v);
        self.lens.insert(i, v.len());
    }
    fn remove(&mut self, i: usize) {
        self.remove_n(i, 1)
    }
    fn remove_n(&mut self, i: usize, n: usize) {
        let off = self.off(i);
        let delb: usize = self.lens[i..i + n].iter().sum();
        self.col.try_splice_slice(off, delb, &[]).expect("in-bounds raw delete");
        self.lens.drain(i..i + n);
    }
    fn push(&mut self, v: Vec<u8>) {
        let n = self.lens.len();
        self.insert(n, v)
    }
    fn extend(&mut self, v: Vec<Vec<u8>>) {
        let n = self.lens.len();
        self.splice(n, 0, v)
    }
    fn truncate(&mut self, l: usize) {
        let n = self.lens.len();
        if l < n {
            self.remove_n(l, n - l)
        }
    }
    fn clear(&mut self) {
        let n = self.lens.len();
        self.remove_n(0, n)
    }
    fn splice_runs(&mut self, i: usize, d: usize, runs: &Runs, win: u8) -> Vec<Vec<u8>> {
        let v: Vec<Vec<u8>> = expand(runs, win);
        // one concatenated payload through the single-slice entry point
        let off = self.off(i);
        let delb: usize = self.lens[i..i + d].iter().sum();
        let cat: Vec<u8> = v.iter().flatten().copied().collect();
        self.col.splice_slice(off, delb, &cat);
        self.lens.splice(i..i + d, v.iter().map(|b| b.len()));
        v
    }
    fn copy_ranges(&mut self, src: Self, sp: Vec<Splice>) {
        let mut lens = vec![];
        let mut cur = 0;
        let mut bsp = vec![];
        for s in &sp {
            lens.extend_from_slice(&self.lens[cur..s.pos]);
            lens.extend_from_slice(&src.lens[s.range.clone()]);
            cur = s.pos + s.delete;
            bsp.push(Splice { pos: self.off(s.pos), delete: self.lens[s.pos..s.pos + s.delete].iter().sum(), range: src.off(s.range.start)..src.off(s.range.end) });
        }
        lens.extend_from_slice(&self.lens[cur..]);
        self.col.copy_ranges(src.col, bsp);
        self.lens = lens;
    }
    fn save(&self) -> Vec<u8> {
        self.col.save()
    }
    fn load(b: &[u8], seg: usize) -> Result<Self, String> {
        RawColumn::load_with_max_segments(b, seg * 4).map(|col| RawFam { col, lens: vec![] }).map_err(|e| e.to_string())
    }
    fn reload(&self, b: &[u8], seg: usize) -> Result<Self, String> {
        Self::load(b, seg).map(|mut r| {
            r.lens = self.lens.clone();
            r
        })
    }
    fn check(&self, m: &[Vec<u8>], rng: &mut Lcg, _tr: &mut Track) -> CaseResult {
        let col = &self.col;
        let flat: Vec<u8> = m.iter().flatten().copied().collect();
        let total = flat.len();
        ensure!(self.lens.len() == m.len() && self.lens.iter().zip(m).all(|(l, b)| *l == b.len()), "C34:harness:raw-lens", "harness blob table out of step");
        ensure!(col.len() == total && col.is_empty() == (total == 0), "C34:state:len", "len() = {}, model {total} bytes", col.len());
        let s = catch("save", || col.save())?;
        ensure!(s == flat, "C34:state:to_vec-mismatch", "save(): {}", diff(&s, &flat));
        // every blob is one contiguous read
        let mut off = 0usize;
        let mut offs = vec![];
        for b in m {
            offs.push(off);
            match catch(&format!("try_get({off}..{})", off + b.len()), || col.try_get(off..off + b.len()).map(|x| x.to_vec()).map_err(|e| e.to_string()))? {
                Ok(g) => ensure!(g == *b, "C34:state:get", "get({off}..{}) = {:?}, model {:?}", off + b.len(), &g[..g.len().min(16)], &b[..b.len().min(16)]),
                Err(e) => fail!("C34:state:raw-value-crosses-slab", "blob at {off}..{} spliced only at value boundaries is not readable: {e}", off + b.len()),
            }
            off += b.len();
        }
        // arbitrary ranges: Ok implies the model bytes; out of bounds is an error
        for _ in 0..4 {
            let a = rng.below(total + 2);
            let b = a + rng.below(total + 3 - a.min(total + 2));
            match catch(&format!("try_get({a}..{b})"), || col.try_get(a..b).map(|x| x.to_vec()).map_err(|e| e.to_string()))? {
                Ok(g) => ensure!(b <= total && g == flat[a..b], "C34:state:get", "try_get({a}..{b}) = Ok({} bytes) with len {total}", g.len()),
                Err(_) => {}
            }
        }
        // sequential reader from a blob boundary: take each blob, or skip it
        if !m.is_empty() {
            let i0 = rng.below(m.len());
            let r = catch(&format!("iter_at({}) take/skip", offs[i0]), || -> CaseResult {
                let mut it = col.iter_at(offs[i0]);
                let mut pos = offs[i0];
                for b in &m[i0..] {
                    if rng.below(3) == 0 {
                        it.skip(b.len());
                    } else {
                        let g = it.take(b.len());
                        ensure!(g == &b[..], "C34:state:raw-iter", "iter take({}) at {pos} = {:?}, model {:?}", b.len(), &g[..g.len().min(16)], &b[..b.len().min(16)]);
                    }
                    pos += b.len();
                    ensure!(it.pos() == pos, "C34:state:iter-pos", "RawColumnIter::pos() = {}, model {pos}", it.pos());
                }
                Ok(())
            })?;
            r?;
        }
        Ok(())
    }
}
pub fn check_raw_case(case: &Case, t: &mut Tally) -> CaseResult {
    enter("C34", "raw", case);
    run_case::<RawFam>(case, "RawColumn", t)
}

pub fn property(_ctx: &Ctx) -> Property {
    Property {
        id: "C34",
        level: "exploration",
        rule: "proptest-generated stateful edit sequences (<=40 ops quick, <=120 thorough: splice, insert, remove, remove_n, push, pop, extend, truncate, clear, splice_runs, edit()/edit_at() cursor sessions with seek/advance/delete/insert/insert_run/replace/peek, multi-point copy_ranges, remap, reload via save+load_with(max_segments), re-sort) applied to a hexane column built with max_segments in {2,3,4,5,8,16,64} and to a Vec model; values biased to a 3-symbol alphabet (long runs up to 300), nulls, LEB128 boundaries and the extremes of each documented domain. 13 Column<T> types (u32,u64,i64,usize,String,Vec<u8>,bool and Option of each RLE type), 7 PrefixColumn types, 10 DeltaColumn types (values inside one 2^63-wide window containing 0; unsigned < 2^63), RawColumn (blobs spliced at value boundaries only). After EVERY op: len/is_empty, to_vec, get(i) (all or 27 probes) and past-the-end, clamped iter_range windows, runs()/next_run expansion, ExactSize len, nth walks with pos(), shift/set_max re-windowing, suspend/try_resume, scan_to_value, scope_to_value/seek_to_value on sorted windows (equal-range model) and no-panic on unsorted data, is_only/save_to_unless; prefix columns additionally prefix()/total() per item, get_prefix/get_total/sum_range/delta, get_index_for_prefix/get_index_for_total/advance_prefix for unsigned prefixes; delta columns additionally first/last, DeltaRun expansion, find_by_value/find_first/find_by_range, scan_to_range, unstorable targets; raw columns save()==concat, every blob readable as one get(), try_get on arbitrary ranges, iter_at/take/skip; plus the library's check_invariants() and validate_encoding(). Non-trivial = the column had >1 slab at some point and an edit split, shortened or merged a run of equal values (model-side detection); distinct by case fingerprint. evaluations counts compared states (ops).",
        assumptions: &[
            "documented preconditions respected: index+del <= len, forward-only cursors, ascending non-overlapping copy_ranges splices, max_segments >= 2, DeltaColumn values within one 2^63-wide window that contains the implicit start value 0 (unsigned < 2^63), DeltaRun progressions stay inside that window, RawColumn splices and reads only at blob boundaries",
            "check_invariants() is the library's own #[doc(hidden)] structural checker; its merge-policy clause is not asserted once the slab layout came from load()/remap() (the loader cuts half-full slabs)",
            "scope_to_value/seek_to_value results are asserted only on sorted windows (on unsorted data only: no panic, as documented)",
            "exclusion list = known findings of C34/C35 in known_findings.json (signature substring) or VERIF_AVOID; excluded shapes are counted in classes excluded_known:*",
        ],
        subs: vec![
            sub::<Case, _, _>("column", 28800, 600000, |c| case_strategy(13, if c.thorough() { 120 } else { 40 }), check_column_case),
            sub::<Case, _, _>("prefix", 14400, 300000, |c| case_strategy(7, if c.thorough() { 120 } else { 40 }), check_prefix_case),
            sub::<Case, _, _>("delta", 19200, 400000, |c| case_strategy(10, if c.thorough() { 120 } else { 40 }), check_delta_case),
            sub::<Case, _, _>("raw", 9600, 200000, |c| case_strategy(1, if c.thorough() { 120 } else { 40 }), check_raw_case),
        ],
    }
}
