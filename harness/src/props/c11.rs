//! C11 save/load round-trips a document exactly.
use super::common::*;
use crate::engine::driver::*;
use crate::engine::graph::{Graph, Lcg};
use crate::engine::interp::{load_opts, Interp};
use crate::engine::program::*;
use crate::ensure;
use automerge::{Automerge, Change, ChangeHash, ReadDoc, SaveOptions, TextEncoding};
use proptest::prelude::*;
use std::collections::{BTreeMap, HashSet};

type Case = (Program, u8, u64);

fn change_map(d: &Automerge) -> Result<BTreeMap<ChangeHash, Vec<u8>>, Failure> {
    Ok(catch("get_changes", || d.get_changes(&[]))?.into_iter().map(|c| (c.hash(), c.raw_bytes().to_vec())).collect())
}

pub fn roundtrip(d: &Automerge, enc: TextEncoding, heads: &[Vec<ChangeHash>], who: &str, t: &mut Tally) -> CaseResult {
    let plain = catch("save_nocompress", || d.save_nocompress())?;
    for deflate in [true, false] {
        for retain in [true, false] {
            let o = SaveOptions { deflate, retain_orphans: retain };
            let bytes = catch("save_with_options", || d.save_with_options(o))?;
            if deflate && retain && bytes.len() < plain.len() {
                t.class("column_actually_deflated");
            }
            let l = catch("load_with_options", || Automerge::load_with_options(&bytes, load_opts(enc)))?
                .map_err(|e| Failure::new("C11:load-error", format!("{who}: load(save(deflate={deflate},orphans={retain})) failed: {e}")))?;
            ensure!(heads_sorted(&l) == heads_sorted(d), "C11:heads", "{who}: heads differ after reload");
            let (ma, mb) = (change_map(d)?, change_map(&l)?);
            ensure!(ma == mb, "C11:change-bytes", "{who}: change set / bytes differ after reload ({} vs {} changes)", ma.len(), mb.len());
            let oa = obs_of(d, None, who)?;
            let ob = obs_of(&l, None, "reloaded")?;
            expect_same("C11", "reload-current", &oa, &ob)?;
            for h in heads.iter().filter(|_| deflate && retain) {
                if h.iter().all(|x| ma.contains_key(x)) {
                    let oa = obs_of(d, Some(h), who)?;
                    let ob = obs_of(&l, Some(h), "reloaded")?;
                    expect_same("C11", "reload-at-heads", &oa, &ob)?;
                    t.extra_evals += 1;
                }
            }
            // pending queue
            let mut qa = d.get_missing_deps(&[]);
            let mut qb = l.get_missing_deps(&[]);
            qa.sort();
            qb.sort();
            if retain {
                ensure!(qa == qb, "C11:orphans:missing-deps", "{who}: missing deps differ after reload with retain_orphans: {:?} vs {:?}", qa, qb);
            } else {
                ensure!(qb.is_empty(), "C11:orphans:not-discarded", "{who}: reload without retain_orphans still reports missing deps {:?}", qb);
            }
            let again = catch("save again", || l.save_with_options(SaveOptions { deflate, retain_orphans: retain }))?;
            ensure!(again == bytes, "C11:resave-bytes", "{who}: saving the loaded document (deflate={deflate}, orphans={retain}) gives different bytes ({} vs {})", again.len(), bytes.len());
            t.extra_evals += 1;
        }
    }
    Ok(())
}

pub fn check(case: &Case, t: &mut Tally) -> CaseResult {
    let (p0, bulk, seed) = case;
    // optional bulk prefix so that columns exceed the DEFLATE threshold
    let mut p = p0.clone();
    if *bulk > 0 {
        let mut pre = vec![];
        for i in 0..(*bulk as u16 * 8) {
            pre.push(Step { k: SPLICE_TEXT, r: (i % 3) as u8, a: 0, b: i.wrapping_mul(7919), c: 0, d: 61000, n: 1 });
            pre.push(Step { k: PUT, r: (i % 3) as u8, a: 0, b: i.wrapping_mul(4099), c: 20000, d: 64000, n: i as i64 });
            if i % 5 == 4 {
                pre.push(Step { k: COMMIT, r: (i % 3) as u8, a: 1, b: i, c: 0, d: 0, n: i as i64 });
            }
        }
        pre.extend(p.steps);
        p.steps = pre;
        p.shared = true;
    }
    let mut it = run_program(&p, default_opts())?;
    let enc = it.enc;
    let heads = it.heads.clone();
    let mut actors = HashSet::new();
    for r in 0..it.reps.len() {
        let d = it.reps[r].doc.document().clone();
        for c in d.get_changes(&[]) {
            actors.insert(c.actor_id().clone());
        }
        roundtrip(&d, enc, &heads, &format!("replica {r}"), t)?;
    }
    // a document with queued orphans: deliver everything except one change that has descendants
    let (m, g) = all_changes(&mut it)?;
    let full: HashSet<ChangeHash> = hashes(&m);
    let topo = g.topo(&full);
    let mut rng = Lcg(*seed);
    let with_desc: Vec<ChangeHash> = topo.iter().filter(|h| topo.iter().any(|x| m[x].deps().contains(h))).copied().collect();
    if !with_desc.is_empty() {
        let missing = with_desc[rng.below(with_desc.len())];
        let mut d = fresh(enc);
        let v: Vec<Change> = topo.iter().filter(|h| **h != missing).map(|h| m[h].clone()).collect();
        catch("apply_changes", || d.apply_changes(v))?.map_err(|e| Failure::new("C11:apply:error", e.to_string()))?;
        if !d.get_missing_deps(&[]).is_empty() {
            t.class("with_orphans");
            roundtrip(&d, enc, &heads, "doc-with-orphans", t)?;
            // the retained queue must still be live: delivering the missing change releases it
            let bytes = d.save_with_options(SaveOptions { deflate: true, retain_orphans: true });
            let mut l = Automerge::load_with_options(&bytes, load_opts(enc)).map_err(|e| Failure::new("C11:load-error", e.to_string()))?;
            let c = m[&missing].clone();
            catch("apply missing", || l.apply_changes([c.clone()]))?.map_err(|e| Failure::new("C11:apply:error", e.to_string()))?;
            catch("apply missing", || d.apply_changes([c]))?.map_err(|e| Failure::new("C11:apply:error", e.to_string()))?;
            ensure!(heads_sorted(&l) == heads_sorted(&d) && heads_sorted(&d) == Graph::heads_of(&g, &full), "C11:orphans:queue-not-live", "after delivering the missing change, reloaded heads {:?} vs original {:?} vs all {:?}", heads_sorted(&l), heads_sorted(&d), g.heads_of(&full));
        }
    }
    if actors.len() >= 2 {
        t.class("two_plus_actors");
        t.nontrivial();
        if *bulk == 0 {
            t.sample = Some(p0.describe());
        }
    }
    Ok(())
}

pub fn property(_ctx: &Ctx) -> Property {
    Property {
        id: "C11",
        level: "exploration",
        rule: "proptest-generated histories (optionally with a generated bulk prefix so columns exceed the 256-byte DEFLATE threshold), every replica plus a document holding queued orphans; for deflate x retain_orphans: L = load(save(D)) must have equal heads, equal hash->raw-bytes change map, equal full observation at current and every recorded heads, equal missing deps when orphans are retained (and the queue must still release when the missing change arrives), empty queue when not, and L.save(same options) must be byte-identical. All four text encodings. Non-trivial = >=2 actors (class column_actually_deflated counts compressed outputs); distinct by case. evaluations counts (document, option, heads) comparisons.",
        assumptions: &[],
        subs: vec![
            sub::<Case, _, _>("history", 1600, 60000, |c| (program_strategy(STORAGE, if c.thorough() { 100 } else { 40 }, 4, 4), Just(0u8), any::<u64>()), check),
            sub::<Case, _, _>("counters", 1200, 40000, |c| (program_strategy(COUNTER, if c.thorough() { 100 } else { 40 }, 4, 4), Just(0u8), any::<u64>()), check),
            sub::<Case, _, _>("bulk", 160, 6000, |c| (program_strategy(STORAGE, if c.thorough() { 60 } else { 25 }, 3, 4), 2u8..6, any::<u64>()), check),
        ],
    }
}
