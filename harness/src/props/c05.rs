//! C05 Changes with missing dependencies are held back until they become ready.
use super::common::*;
use crate::engine::driver::*;
use crate::engine::graph::Lcg;
use crate::engine::program::*;
use crate::ensure;
use automerge::sync::{self, SyncDoc};
use automerge::{Change, ChangeHash, ReadDoc};
use proptest::prelude::*;
use std::collections::HashSet;

type Case = (Program, u64);

pub fn check(case: &Case, t: &mut Tally) -> CaseResult {
    let (p, seed) = case;
    let mut it = run_program(p, default_opts())?;
    let enc = it.enc;
    let (m, g) = all_changes(&mut it)?;
    if m.len() < 2 {
        return Ok(());
    }
    let mut rng = Lcg(*seed);
    let full: HashSet<ChangeHash> = hashes(&m);
    let topo = g.topo(&full);
    // delivery order: reversed, shuffled, or shuffled partial subset
    let mut order = topo.clone();
    match rng.below(4) {
        0 => order.reverse(),
        1 => rng.shuffle(&mut order),
        2 => {
            rng.shuffle(&mut order);
            let keep = 1 + rng.below(order.len());
            order.truncate(keep);
        }
        _ => {
            // mostly topological with a few displaced changes: long held chains
            for _ in 0..1 + rng.below(3) {
                let i = rng.below(order.len());
                let c = order.remove(i);
                let j = rng.below(order.len() + 1);
                order.insert(j, c);
            }
        }
    }
    let mut doc = fresh(enc);
    let mut st = sync::State::new();
    let mut delivered: HashSet<ChangeHash> = HashSet::new();
    let mut early = false;
    let mut multi_release = false;
    let mut pos = 0;
    let mut prev_applied = 0usize;
    while pos < order.len() {
        let k = 1 + rng.below(3.min(order.len() - pos));
        let batch: Vec<Change> = order[pos..pos + k].iter().map(|h| m[h].clone()).collect();
        pos += k;
        let path = rng.below(3);
        match path {
            0 => {
                catch("apply_changes", || doc.apply_changes(batch.clone()))?.map_err(|e| Failure::new("C05:apply_changes:error", e.to_string()))?;
            }
            1 => {
                let mut bytes = vec![];
                for c in &batch {
                    bytes.extend_from_slice(c.raw_bytes());
                }
                catch("load_incremental", || doc.load_incremental(&bytes))?.map_err(|e| Failure::new("C05:load_incremental:error", e.to_string()))?;
            }
            _ => {
                let msg = sync::Message {
                    heads: vec![],
                    need: vec![],
                    have: vec![],
                    changes: sync::ChunkList::from(batch.iter().map(|c| c.raw_bytes().to_vec()).collect::<Vec<_>>()),
                    flags: None,
                    version: sync::MessageVersion::V1,
                };
                let msg = sync::Message::decode(&msg.encode()).map_err(|e| Failure::new("C05:sync:decode", e.to_string()))?;
                catch("receive_sync_message", || doc.receive_sync_message(&mut st, msg))?.map_err(|e| Failure::new("C05:receive_sync_message:error", e.to_string()))?;
            }
        }
        for c in &batch {
            delivered.insert(c.hash());
        }
        let a = g.closed_subset(&delivered);
        let held: HashSet<ChangeHash> = delivered.difference(&a).copied().collect();
        if !held.is_empty() {
            early = true;
        }
        // released by this delivery = newly applied minus the batch itself
        let newly = a.len() - prev_applied;
        let from_batch = batch.iter().filter(|c| a.contains(&c.hash())).count();
        if newly >= from_batch + 2 {
            multi_release = true;
        }
        prev_applied = a.len();
        // heads
        let want_heads = g.heads_of(&a);
        ensure!(heads_sorted(&doc) == want_heads, "C05:heads", "after delivering {} changes ({} held): heads {:?}, expected heads of the causally closed subset {:?}", delivered.len(), held.len(), heads_sorted(&doc), want_heads);
        // applied set
        let got: HashSet<ChangeHash> = catch("get_changes", || doc.get_changes(&[]))?.iter().map(|c| c.hash()).collect();
        ensure!(got == a, "C05:applied-set", "applied changes differ from the causally closed subset: {} vs {}", got.len(), a.len());
        // state = state of a fresh document given exactly A in topological order
        let ref_order: Vec<ChangeHash> = topo.iter().filter(|h| a.contains(h)).copied().collect();
        let reference = apply_in_order(enc, &ref_order, &m)?;
        expect_same("C05", "state-with-held-changes", &obs_of(&reference, None, "reference")?, &obs_of(&doc, None, "doc")?)?;
        // missing deps
        for xi in 0..3 {
            let x: Vec<ChangeHash> = match xi {
                0 => vec![],
                1 => vec![topo[rng.below(topo.len())]],
                _ => vec![topo[rng.below(topo.len())], ChangeHash([0xAB; 32])],
            };
            let mut want: HashSet<ChangeHash> = HashSet::new();
            for h in &held {
                for d in &g.nodes[h].deps {
                    want.insert(*d);
                }
            }
            for h in &x {
                want.insert(*h);
            }
            let mut want: Vec<ChangeHash> = want.into_iter().filter(|h| !a.contains(h) && !held.contains(h)).collect();
            want.sort();
            let got = catch("get_missing_deps", || doc.get_missing_deps(&x))?;
            ensure!(got == want, "C05:get_missing_deps", "get_missing_deps({:?}) = {:?}, expected {:?} ({} applied, {} held)", x, got, want, a.len(), held.len());
        }
        t.extra_evals += 1;
    }
    if early {
        t.class("arrived_before_dependency");
    }
    if multi_release {
        t.class("one_delivery_released_2plus");
    }
    if early && multi_release {
        t.nontrivial();
        t.sample = Some(p.describe());
    }
    Ok(())
}

pub fn property(_ctx: &Ctx) -> Property {
    Property {
        id: "C05",
        level: "exploration",
        rule: "proptest-generated histories give a change set; a generated schedule (reversed / shuffled / shuffled partial subset / mostly-topological with displaced changes) delivers it in batches of 1-3 through apply_changes, load_incremental of raw chunks, or a crafted sync message. After EVERY delivery: heads = heads of the largest causally closed subset A of the delivered set (harness graph), applied set = A, full observation = a fresh document given A topologically, get_missing_deps(x) = (deps of held changes + x) minus applied minus held, for x = [], a known hash, a known + an unknown hash. Non-trivial = some change arrived before a dependency AND one delivery released >=2 held changes; distinct by case. evaluations counts deliveries.",
        assumptions: &[],
        subs: vec![sub::<Case, _, _>("delivery", 4800, 120000, |c| (program_strategy(HISTORY, if c.thorough() { 80 } else { 35 }, 3, 4), any::<u64>()), check)],
    }
}
