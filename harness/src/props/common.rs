//! Helpers shared by property modules.
use crate::engine::driver::{catch, CaseResult, Failure};
use crate::engine::graph::Graph;
use crate::engine::interp::{Interp, Opts};
use crate::engine::obs::{first_diff, observe, ONode};
use crate::engine::program::Program;
use automerge::{ActorId, Automerge, Change, ChangeHash, ReadDoc, TextEncoding};
use std::collections::{HashMap, HashSet};

pub fn observer_actor() -> ActorId {
    ActorId::from(vec![0xEEu8, 0xEE])
}

pub fn fresh(enc: TextEncoding) -> Automerge {
    Automerge::new_with_encoding(enc).with_actor(observer_actor())
}

/// default interpreter options, with the exclusions demanded by known findings
pub fn default_opts() -> Opts {
    let mut o = Opts::default();
    for f in crate::engine::driver::load_findings() {
        if f.status == "known" && f.signature.contains("insert-after-counter") && !o.avoid.iter().any(|a| a == "insert-after-counter") {
            o.avoid.push("insert-after-counter".into());
        }
    }
    o
}

/// run a program under catch_unwind; a panic inside the library is a failure with a panic signature
pub fn run_program(p: &Program, opts: Opts) -> Result<Interp, Failure> {
    let mut it = Interp::new(p, opts);
    for (i, s) in p.steps.iter().enumerate() {
        let r = catch(&format!("step {i} {}", s.describe()), || it.step(s));
        match r {
            Ok(out) => {
                if let Some(e) = out.err {
                    if e.starts_with("load(save()) failed") {
                        return Err(Failure::new("save-load:load-of-own-save-fails", format!("step {i}: {e}")));
                    }
                }
            }
            Err(f) => return Err(f),
        }
    }
    for r in 0..it.reps.len() {
        catch("final commit", || {
            it.commit(r);
        })?;
    }
    Ok(it)
}

/// union of all changes held by all replicas, by hash
pub fn all_changes(it: &mut Interp) -> Result<(HashMap<ChangeHash, Change>, Graph), Failure> {
    let mut m = HashMap::new();
    for r in 0..it.reps.len() {
        let ch = catch("get_changes(&[])", || it.reps[r].doc.get_changes(&[]))?;
        for c in ch {
            m.entry(c.hash()).or_insert(c);
        }
    }
    let g = Graph::from_changes(m.values());
    Ok((m, g))
}

pub fn apply_in_order(enc: TextEncoding, order: &[ChangeHash], m: &HashMap<ChangeHash, Change>) -> Result<Automerge, Failure> {
    let mut d = fresh(enc);
    for h in order {
        let c = m[h].clone();
        catch("apply_changes(one)", || d.apply_changes([c]))?.map_err(|e| Failure::new("apply:error-on-valid-change", format!("apply_changes returned {e}")))?;
    }
    Ok(d)
}

pub fn obs_of(doc: &Automerge, heads: Option<&[ChangeHash]>, what: &str) -> Result<ONode, Failure> {
    catch(&format!("observe {what}"), || observe(doc, heads))
}

pub fn expect_same(prop: &str, what: &str, reference: &ONode, got: &ONode) -> CaseResult {
    if let Some((kind, d)) = first_diff(reference, got) {
        return Err(Failure::new(format!("{prop}:{what}:{kind}"), format!("{what}: reference vs got: {d}")));
    }
    Ok(())
}

pub fn heads_sorted(d: &Automerge) -> Vec<ChangeHash> {
    let mut h = d.get_heads();
    h.sort();
    h
}

pub fn hashes(m: &HashMap<ChangeHash, Change>) -> HashSet<ChangeHash> {
    m.keys().copied().collect()
}

/// objects touched by a change (as rendered ids) — harness-side, via decode()
pub fn touched_objects(c: &Change) -> HashSet<String> {
    c.decode().operations.iter().map(|o| format!("{:?}", o.obj)).collect()
}
