//! C03 Local edits have their documented sequential effect (metamorphic per-call model, DESIGN B.3).
use super::common::*;
use crate::engine::driver::*;
use crate::engine::interp::{bounds, expand_of, scalar, FRAGS, KEYS, MARK_NAMES};
use crate::engine::obs::{exid, observe, render_scalar, Id, ONode, OText, OVal};
use crate::engine::program::*;
use crate::engine::refdoc::width;
use crate::engine::view::unit_to_byte;
use crate::ensure;
use automerge::marks::Mark;
use automerge::transaction::{CommitOptions, Transactable};
use automerge::{ObjId, ObjType, ReadDoc, ScalarValue, TextEncoding, ROOT};
use proptest::prelude::*;
use std::collections::BTreeMap;

type Call = (u8, u16, u16, u16, u16, i64);
type Case = (Program, Vec<Call>, bool);

fn take_node(root: &mut ONode, target: &Id) -> Option<ONode> {
    fn regs(r: &mut [(Id, OVal)], target: &Id) -> Option<ONode> {
        for (id, v) in r.iter_mut() {
            if let OVal::Obj(n) = v {
                if id == target {
                    return Some(std::mem::replace(n.as_mut(), ONode::Map(BTreeMap::new())));
                }
                if let Some(x) = take_node(n, target) {
                    return Some(x);
                }
            }
        }
        None
    }
    match root {
        ONode::Map(m) => m.values_mut().find_map(|r| regs(r, target)),
        ONode::List(l) => l.iter_mut().find_map(|r| regs(r, target)),
        ONode::Text(t) => t.elems.iter_mut().find_map(|(_, r)| regs(r, target)),
    }
}

fn split(root: &ONode, obj: &ObjId) -> Option<(ONode, ONode)> {
    if *obj == ROOT {
        return Some((ONode::Map(BTreeMap::new()), root.clone()));
    }
    let mut rest = root.clone();
    let node = take_node(&mut rest, &exid(obj))?;
    Some((rest, node))
}

fn oscalar(v: &ScalarValue) -> OVal {
    match v {
        ScalarValue::Counter(c) => OVal::Counter(i64::from(c)),
        x => OVal::Scalar(render_scalar(x)),
    }
}

fn empty_node(t: ObjType) -> ONode {
    match t {
        ObjType::Map | ObjType::Table => ONode::Map(BTreeMap::new()),
        ObjType::List => ONode::List(vec![]),
        ObjType::Text => ONode::Text(OText { text: String::new(), len: 0, elems: vec![], marks: vec![], spans: Some(vec![]) }),
    }
}

fn vals(r: &[(Id, OVal)]) -> Vec<OVal> {
    r.iter().map(|x| x.1.clone()).collect()
}

fn same(prop: &str, what: &str, a: &ONode, b: &ONode) -> CaseResult {
    // rendered spans embed the contents of block maps, which are objects of their own: compare without them
    let (a, b) = (&a.without_spans(), &b.without_spans());
    if let Some((k, d)) = crate::engine::obs::first_diff(a, b) {
        return Err(Failure::new(format!("C03:{prop}:{k}"), format!("{what}: expected vs actual: {d}")));
    }
    Ok(())
}

/// expected register after an increment: non-counters are overwritten, every counter += n (ids kept)
fn inc_reg(r: &[(Id, OVal)], n: i64) -> Vec<(Id, OVal)> {
    r.iter().filter_map(|(id, v)| if let OVal::Counter(c) = v { Some((id.clone(), OVal::Counter(c.wrapping_add(n)))) } else { None }).collect()
}

pub fn one_call<T: Transactable + ReadDoc>(tx: &mut T, objs: &mut Vec<(ObjId, ObjType)>, call: &Call, enc: TextEncoding, t: &mut Tally) -> CaseResult {
    let (k, a, b, c, d, n) = *call;
    let live: Vec<(ObjId, ObjType)> = objs.iter().filter(|(id, _)| tx.object_type(id).is_ok()).cloned().collect();
    let of = |types: &[ObjType], s: u16| -> Option<ObjId> {
        let v: Vec<&(ObjId, ObjType)> = live.iter().filter(|(_, ty)| types.contains(ty)).collect();
        if v.is_empty() { None } else { Some(v[sel(s, v.len())].0.clone()) }
    };
    let before = catch("observe before", || observe(tx, None))?;
    let pending_before = tx.pending_ops();
    let key = KEYS[sel(b, 5)];
    let invalid = k >= 200; // ~22 % invalid calls
    let kind = k % 14;
    // returns (name, target object, result, expectation closure result) — handled inline per kind
    macro_rules! finish_invalid {
        ($name:expr, $res:expr) => {{
            let res = $res;
            let after = catch("observe after", || observe(tx, None))?;
            match res {
                Err(_) => {
                    t.class("invalid_call_rejected");
                    ensure!(tx.pending_ops() == pending_before, format!("C03:invalid:{}:pending_ops", $name), "{} returned Err but pending_ops went {} -> {}", $name, pending_before, tx.pending_ops());
                    same(&format!("invalid:{}", $name), $name, &before, &after)?;
                }
                Ok(_) => {
                    t.class(format!("accepted:{}", $name));
                }
            }
            return Ok(());
        }};
    }
    if invalid {
        let big = 1 + (d as usize % 5);
        match kind {
            0 => { let Some(o) = of(&[ObjType::List], a) else { return Ok(()) }; let l = tx.length(&o); finish_invalid!("insert(index>len)", tx.insert(&o, l + big, n)) }
            1 => { let Some(o) = of(&[ObjType::List], a) else { return Ok(()) }; let l = tx.length(&o); finish_invalid!("put(list,index>=len)", tx.put(&o, l + big - 1, n)) }
            2 => { let Some(o) = of(&[ObjType::List], a) else { return Ok(()) }; let l = tx.length(&o); finish_invalid!("delete(list,index>=len)", tx.delete(&o, l + big - 1)) }
            3 => { let Some(o) = of(&[ObjType::List, ObjType::Text], a) else { return Ok(()) }; finish_invalid!("put(seq,string key)", tx.put(&o, "key", n)) }
            4 => { let Some(o) = of(&[ObjType::Map], a) else { return Ok(()) }; finish_invalid!("put(map,index)", tx.put(&o, c as usize % 3, n)) }
            5 => {
                let Some(o) = of(&[ObjType::Map], a) else { return Ok(()) };
                // a key whose visible values contain no counter
                let keys: Vec<String> = tx.keys(&o).filter(|kk| tx.get_all(&o, kk.as_str()).map(|v| !v.is_empty() && v.iter().all(|(x, _)| !matches!(x, automerge::Value::Scalar(s) if matches!(s.as_ref(), ScalarValue::Counter(_))))).unwrap_or(false)).collect();
                if keys.is_empty() { return Ok(()) }
                let kk = keys[sel(c, keys.len())].clone();
                finish_invalid!("increment(non-counter)", tx.increment(&o, kk.as_str(), n))
            }
            6 => { let Some(o) = of(&[ObjType::Text], a) else { return Ok(()) }; let l = tx.length(&o); finish_invalid!("splice_text(index>len)", tx.splice_text(&o, l + big, 0, "x")) }
            7 => { let Some(o) = of(&[ObjType::Text], a) else { return Ok(()) }; let l = tx.length(&o); finish_invalid!("mark(end>len)", tx.mark(&o, Mark::new("bold".into(), true, l.min(1), l + big), expand_of(c as usize))) }
            8 => { let Some(o) = of(&[ObjType::Text], a) else { return Ok(()) }; finish_invalid!("put_object(text,key)", tx.put_object(&o, "k", ObjType::Map)) }
            9 => { let o = ObjId::Id(7777 + c as u64, automerge::ActorId::from(vec![1, 2, 3]), 0); finish_invalid!("put(unknown object)", tx.put(&o, "k", n)) }
            10 => { let Some(o) = of(&[ObjType::Text], a) else { return Ok(()) }; let l = tx.length(&o); finish_invalid!("split_block(index>len)", tx.split_block(&o, l + big)) }
            11 => { let Some(o) = of(&[ObjType::List], a) else { return Ok(()) }; let l = tx.length(&o); finish_invalid!("splice(list,index>len)", tx.splice(&o, l + big, 0, vec![ScalarValue::Int(n)])) }
            12 => { let Some(o) = of(&[ObjType::Text], a) else { return Ok(()) }; finish_invalid!("splice(text,non-string)", tx.splice(&o, 0, 0, vec![automerge::hydrate::Value::map()])) }
            _ => { let Some(o) = of(&[ObjType::Map], a) else { return Ok(()) }; finish_invalid!("insert(map)", tx.insert(&o, 0, n)) }
        }
    }
    // ---------------- valid calls
    match kind {
        0 | 1 => {
            // put / put_object on a map
            let Some(o) = of(&[ObjType::Map], a) else { return Ok(()) };
            let Some((rest_b, ONode::Map(mb))) = split(&before, &o) else { return Ok(()) };
            let (what, want) = if kind == 0 {
                let v = scalar(c, n, d);
                let r = catch("put", || tx.put(&o, key, v.clone()))?;
                ensure!(r.is_ok(), "C03:put:error-on-valid-call", "put(map,{key:?}) failed: {:?}", r.err().map(|e| e.to_string()));
                ("put(map)", oscalar(&v))
            } else {
                let ty = [ObjType::Map, ObjType::List, ObjType::Text][sel(c, 3)];
                let r = catch("put_object", || tx.put_object(&o, key, ty))?.map_err(|e| Failure::new("C03:put_object:error-on-valid-call", e.to_string()))?;
                ensure!(tx.object_type(&r).ok() == Some(ty), "C03:put_object:returned-id-does-not-resolve", "returned id {r} is not a {:?}", ty);
                objs.push((r, ty));
                ("put_object(map)", OVal::Obj(Box::new(empty_node(ty))))
            };
            let after = catch("observe", || observe(tx, None))?;
            let Some((rest_a, ONode::Map(ma))) = split(&after, &o) else { return Err(Failure::new(format!("C03:{what}:object-vanished"), "target object not found after the call".to_string())) };
            same(what, "rest of the document", &rest_b, &rest_a)?;
            let mut exp = mb.clone();
            exp.remove(key);
            let mut got = ma.clone();
            let reg = got.remove(key).unwrap_or_default();
            ensure!(reg.len() == 1, format!("C03:{what}:register-not-single"), "{what} {key:?}: register holds {} values afterwards", reg.len());
            let gv = if let OVal::Obj(nn) = &reg[0].1 { OVal::Obj(Box::new(nn.without_spans())) } else { reg[0].1.clone() };
            let wv = if let OVal::Obj(nn) = &want { OVal::Obj(Box::new(nn.without_spans())) } else { want.clone() };
            ensure!(gv == wv, format!("C03:{what}:value"), "{what} {key:?}: reads back {:?}, expected {:?}", gv, wv);
            same(what, "other keys of the target map", &ONode::Map(exp), &ONode::Map(got))?;
            if mb.get(key).map(|r| r.len() > 1).unwrap_or(false) {
                t.class("edit_on_conflicted_register");
            }
        }
        2 => {
            let Some(o) = of(&[ObjType::Map], a) else { return Ok(()) };
            let Some((rest_b, ONode::Map(mb))) = split(&before, &o) else { return Ok(()) };
            let r = catch("delete", || tx.delete(&o, key))?;
            let after = catch("observe", || observe(tx, None))?;
            let Some((rest_a, ONode::Map(ma))) = split(&after, &o) else { return Ok(()) };
            same("delete(map)", "rest of the document", &rest_b, &rest_a)?;
            if r.is_ok() {
                let mut exp = mb.clone();
                exp.remove(key);
                same("delete(map)", "target map", &ONode::Map(exp), &ONode::Map(ma))?;
            } else {
                same("delete(map):err", "target map", &ONode::Map(mb), &ONode::Map(ma))?;
            }
        }
        3 => {
            // increment on a map key that holds at least one counter
            let Some(o) = of(&[ObjType::Map], a) else { return Ok(()) };
            let Some((rest_b, ONode::Map(mb))) = split(&before, &o) else { return Ok(()) };
            let ks: Vec<&String> = mb.iter().filter(|(_, r)| r.iter().any(|(_, v)| matches!(v, OVal::Counter(_)))).map(|x| x.0).collect();
            if ks.is_empty() { return Ok(()) }
            let kk = ks[sel(c, ks.len())].clone();
            let r = catch("increment", || tx.increment(&o, kk.as_str(), n))?;
            ensure!(r.is_ok(), "C03:increment:error-on-valid-call", "increment({kk:?}) on a register with a counter failed: {:?}", r.err().map(|e| e.to_string()));
            let after = catch("observe", || observe(tx, None))?;
            let Some((rest_a, ONode::Map(ma))) = split(&after, &o) else { return Ok(()) };
            same("increment(map)", "rest of the document", &rest_b, &rest_a)?;
            let mut exp = mb.clone();
            let reg = inc_reg(&mb[&kk], n);
            exp.insert(kk.clone(), reg);
            same("increment(map)", "target map", &ONode::Map(exp), &ONode::Map(ma))?;
            if mb[&kk].len() > 1 { t.class("increment_on_conflicted_register"); }
        }
        4..=8 => {
            // list operations
            let Some(o) = of(&[ObjType::List], a) else { return Ok(()) };
            let Some((rest_b, ONode::List(lb))) = split(&before, &o) else { return Ok(()) };
            let len = lb.len();
            let mut exp = lb.clone();
            let what;
            let mut new_at: Option<(usize, OVal)> = None;
            match kind {
                4 => {
                    what = "insert(list)";
                    let i = sel(b, len + 1);
                    let v = scalar(c, n, d);
                    catch(what, || tx.insert(&o, i, v.clone()))?.map_err(|e| Failure::new("C03:insert:error-on-valid-call", e.to_string()))?;
                    exp.insert(i, vec![((0, vec![]), oscalar(&v))]);
                    new_at = Some((i, oscalar(&v)));
                }
                5 => {
                    what = "insert_object(list)";
                    let i = sel(b, len + 1);
                    let ty = [ObjType::Map, ObjType::List, ObjType::Text][sel(c, 3)];
                    let r = catch(what, || tx.insert_object(&o, i, ty))?.map_err(|e| Failure::new("C03:insert_object:error-on-valid-call", e.to_string()))?;
                    ensure!(tx.object_type(&r).ok() == Some(ty), "C03:insert_object:returned-id-does-not-resolve", "returned id {r} is not a {:?}", ty);
                    objs.push((r, ty));
                    exp.insert(i, vec![((0, vec![]), OVal::Obj(Box::new(empty_node(ty))))]);
                    new_at = Some((i, OVal::Obj(Box::new(empty_node(ty)))));
                }
                6 => {
                    what = "put(list)";
                    if len == 0 { return Ok(()) }
                    let i = sel(b, len);
                    let v = scalar(c, n, d);
                    catch(what, || tx.put(&o, i, v.clone()))?.map_err(|e| Failure::new("C03:put(list):error-on-valid-call", e.to_string()))?;
                    if lb[i].len() > 1 { t.class("edit_on_conflicted_register"); }
                    exp[i] = vec![((0, vec![]), oscalar(&v))];
                    new_at = Some((i, oscalar(&v)));
                }
                7 => {
                    what = "delete(list)";
                    if len == 0 { return Ok(()) }
                    let i = sel(b, len);
                    catch(what, || tx.delete(&o, i))?.map_err(|e| Failure::new("C03:delete(list):error-on-valid-call", e.to_string()))?;
                    if lb[i].len() > 1 { t.class("edit_on_conflicted_register"); }
                    exp.remove(i);
                }
                _ => {
                    what = "splice(list)";
                    let pos = sel(b, len + 1);
                    let del = sel(c, (len - pos).min(3) + 1);
                    let nv = sel(d, 4);
                    let vs: Vec<ScalarValue> = (0..nv).map(|i| scalar(d.wrapping_mul(11 + i as u16), n + i as i64, a)).collect();
                    let signed = if del > 0 && pos >= del && n < 0 { -(del as isize) } else { del as isize };
                    let start = if signed < 0 { pos - del } else { pos };
                    catch(what, || tx.splice(&o, pos, signed, vs.clone()))?.map_err(|e| Failure::new("C03:splice:error-on-valid-call", e.to_string()))?;
                    exp.splice(start..start + del, vs.iter().map(|v| vec![((0, vec![]), oscalar(v))]));
                    if signed < 0 { t.class("negative_delete"); }
                }
            }
            let after = catch("observe", || observe(tx, None))?;
            let Some((rest_a, ONode::List(la))) = split(&after, &o) else { return Err(Failure::new(format!("C03:{what}:object-vanished"), "target list not found after the call".to_string())) };
            same(what, "rest of the document", &rest_b, &rest_a)?;
            ensure!(la.len() == exp.len(), format!("C03:{what}:length"), "{what}: length {} afterwards, expected {}", la.len(), exp.len());
            for (i, (e, g)) in exp.iter().zip(la.iter()).enumerate() {
                let fresh = e.len() == 1 && e[0].0 == (0, vec![]);
                if fresh {
                    ensure!(g.len() == 1, format!("C03:{what}:register-not-single"), "{what}: element {i} holds {} values", g.len());
                    let gv = if let OVal::Obj(nn) = &g[0].1 { OVal::Obj(Box::new(nn.without_spans())) } else { g[0].1.clone() };
                    let wv = if let OVal::Obj(nn) = &e[0].1 { OVal::Obj(Box::new(nn.without_spans())) } else { e[0].1.clone() };
                    ensure!(gv == wv, format!("C03:{what}:value"), "{what}: element {i} reads {:?}, expected {:?}", gv, wv);
                } else {
                    ensure!(e == g, format!("C03:{what}:other-element-changed"), "{what}: element {i} changed: {:?} -> {:?}", vals(e), vals(g));
                }
            }
            let _ = new_at;
        }
        9 | 10 => {
            // splice_text at element boundaries
            let Some(o) = of(&[ObjType::Text], a) else { return Ok(()) };
            let Some((rest_b, ONode::Text(tb))) = split(&before, &o) else { return Ok(()) };
            let bd = bounds(tx, &o);
            let i = sel(b, bd.len());
            let j = (i + sel(c, 4)).min(bd.len() - 1);
            let frag = if n < 0 { "" } else { FRAGS[sel(d, FRAGS.len())] };
            let (pos, del) = (bd[i], bd[j] - bd[i]);
            catch("splice_text", || tx.splice_text(&o, pos, del as isize, frag))?.map_err(|e| Failure::new("C03:splice_text:error-on-valid-call", format!("splice_text({pos},{del},{frag:?}) on {:?}: {e}", tb.text)))?;
            let after = catch("observe", || observe(tx, None))?;
            let Some((rest_a, ONode::Text(ta))) = split(&after, &o) else { return Ok(()) };
            same("splice_text", "rest of the document", &rest_b, &rest_a)?;
            if let (Some(s), Some(e)) = (unit_to_byte(&tb.text, enc, pos), unit_to_byte(&tb.text, enc, pos + del)) {
                let mut exp = tb.text.clone();
                exp.replace_range(s..e, frag);
                ensure!(ta.text == exp, "C03:splice_text:text", "splice_text({pos},{del},{frag:?}) on {:?} gives {:?}, expected {:?}", tb.text, ta.text, exp);
                if enc != TextEncoding::GraphemeCluster {
                    ensure!(ta.len == tb.len - del + width(enc, frag), "C03:splice_text:length", "length {} -> {} after deleting {del} and inserting {:?}", tb.len, ta.len, frag);
                    // marks before and after the edit point are untouched
                    ensure!(ta.marks[..pos] == tb.marks[..pos], "C03:splice_text:marks-before-changed", "marks before the splice point changed");
                    let tail_b = &tb.marks[pos + del..];
                    let tail_a = &ta.marks[ta.marks.len() - tail_b.len()..];
                    ensure!(tail_a == tail_b, "C03:splice_text:marks-after-changed", "marks after the splice changed");
                }
                if tb.elems.iter().any(|(_, r)| r.len() > 1) { t.class("text_with_conflicted_element"); }
                if tb.text.chars().any(|ch| width(enc, &ch.to_string()) > 1) { t.class("multi_unit_text"); }
            }
        }
        11 | 12 => {
            // mark / unmark between element boundaries
            let Some(o) = of(&[ObjType::Text], a) else { return Ok(()) };
            let Some((rest_b, ONode::Text(tb))) = split(&before, &o) else { return Ok(()) };
            let bd = bounds(tx, &o);
            let (mut i, mut j) = (sel(b, bd.len()), sel(c, bd.len()));
            if i > j { std::mem::swap(&mut i, &mut j); }
            let (s, e) = (bd[i], bd[j]);
            let name = MARK_NAMES[sel(d, 3)];
            let ex = expand_of(d as usize / 7);
            let value = if kind == 12 || n < 0 { ScalarValue::Null } else { ScalarValue::Int(n % 3) };
            let r = if kind == 11 { catch("mark", || tx.mark(&o, Mark::new(name.to_string(), value.clone(), s, e), ex))? } else { catch("unmark", || tx.unmark(&o, name, s, e, ex))? };
            r.map_err(|er| Failure::new("C03:mark:error-on-valid-call", format!("mark({s}..{e}) on text of length {}: {er}", tb.len)))?;
            let after = catch("observe", || observe(tx, None))?;
            let Some((rest_a, ONode::Text(ta))) = split(&after, &o) else { return Ok(()) };
            same("mark", "rest of the document", &rest_b, &rest_a)?;
            ensure!(ta.text == tb.text && ta.len == tb.len, "C03:mark:text-changed", "mark changed the text");
            if ta.marks.len() == tb.marks.len() {
                for p in 0..ta.marks.len() {
                    let mut exp = tb.marks[p].clone();
                    if s <= p && p < e {
                        if matches!(value, ScalarValue::Null) { exp.remove(name); } else { exp.insert(name.to_string(), render_scalar(&value)); }
                    }
                    ensure!(ta.marks[p] == exp, "C03:mark:position", "after {}({s}..{e}, {name}={:?}) position {p} reports {:?}, expected {:?}", if kind == 11 { "mark" } else { "unmark" }, value, ta.marks[p], exp);
                }
            }
            t.class("mark_call");
        }
        _ => {
            // split_block
            let Some(o) = of(&[ObjType::Text], a) else { return Ok(()) };
            let Some((rest_b, ONode::Text(tb))) = split(&before, &o) else { return Ok(()) };
            let bd = bounds(tx, &o);
            let pos = bd[sel(b, bd.len())];
            let r = catch("split_block", || tx.split_block(&o, pos))?.map_err(|e| Failure::new("C03:split_block:error-on-valid-call", e.to_string()))?;
            ensure!(tx.object_type(&r).ok() == Some(ObjType::Map), "C03:split_block:returned-id-does-not-resolve", "block id {r} is not a map");
            objs.push((r, ObjType::Map));
            let after = catch("observe", || observe(tx, None))?;
            let Some((rest_a, ONode::Text(ta))) = split(&after, &o) else { return Ok(()) };
            same("split_block", "rest of the document", &rest_b, &rest_a)?;
            if let Some(sb) = unit_to_byte(&tb.text, enc, pos) {
                let mut exp = tb.text.clone();
                exp.insert(sb, '\u{fffc}');
                ensure!(ta.text == exp, "C03:split_block:text", "split_block({pos}) on {:?} gives {:?}", tb.text, ta.text);
            }
        }
    }
    t.extra_evals += 1;
    Ok(())
}

pub fn check(case: &Case, t: &mut Tally) -> CaseResult {
    let (p, calls, manual) = case;
    let mut it = run_program(p, default_opts())?;
    let enc = it.enc;
    let mut objs = it.objs.clone();
    let mut invalid = false;
    // replica 0 absorbs the other replicas so that the prior state has conflicts and tombstones
    for r in 1..it.reps.len() {
        let mut other = it.reps[r].doc.clone();
        catch("merge", || it.reps[0].doc.merge(&mut other))?.map_err(|e| Failure::new("C03:merge:error", e.to_string()))?;
    }
    if *manual {
        let mut doc = it.reps[0].doc.document().clone();
        let in_tx;
        {
            let mut tx = doc.transaction();
            for c in calls {
                one_call(&mut tx, &mut objs, c, enc, t)?;
                invalid |= c.0 >= 200;
            }
            in_tx = catch("observe in tx", || observe(&tx, None))?;
            tx.commit_with(CommitOptions::default().with_time(0));
        }
        let after = obs_of(&doc, None, "after commit")?;
        same("commit", "state after commit vs inside the transaction", &in_tx, &after)?;
        t.class("manual_transaction");
    } else {
        let doc = &mut it.reps[0].doc;
        for (i, c) in calls.iter().enumerate() {
            one_call(doc, &mut objs, c, enc, t)?;
            invalid |= c.0 >= 200;
            if i % 5 == 4 {
                let in_tx = catch("observe", || observe(doc, None))?;
                doc.commit_with(CommitOptions::default().with_time(0));
                let after = catch("observe", || observe(doc, None))?;
                same("commit", "state after commit vs inside the transaction", &in_tx, &after)?;
            }
        }
        t.class("autocommit");
    }
    let interesting = t.classes.iter().any(|c| matches!(c.as_str(), "edit_on_conflicted_register" | "increment_on_conflicted_register" | "text_with_conflicted_element" | "multi_unit_text"));
    if invalid && interesting && t.classes.iter().any(|c| c == "invalid_call_rejected") {
        t.nontrivial();
        t.sample = Some(serde_json::json!({"history": p.describe(), "calls": calls, "manual": manual}));
    }
    Ok(())
}

pub fn property(_ctx: &Ctx) -> Property {
    let calls = || prop::collection::vec((prop_oneof![4 => 0u8..200, 1 => 200u8..=255], any::<u16>(), any::<u16>(), any::<u16>(), any::<u16>(), -3i64..12), 1..25);
    Property {
        id: "C03",
        level: "exploration",
        rule: "a proptest-generated multi-replica prefix gives a prior state with conflicts, tombstones and multi-unit text; then 1-24 generated calls (~22 % invalid) run on replica 0 through Automerge::transaction() or AutoCommit, under each encoding. Each call is checked metamorphically against the documented effect (DESIGN B.3): the observation before the call, transformed by the call's specification (register := exactly the value; delete removes all visible values; increment adds to every counter and overwrites non-counters; list insert/put/delete/splice incl. negative deletes as Vec operations; splice_text as a string splice in encoding units at element boundaries with marks outside the edit untouched; mark/unmark set/clear the name on exactly s..e; split_block inserts U+FFFC; returned object ids resolve) must equal the observation after it, and EVERYTHING ELSE in the document must be literally unchanged; invalid calls must return Err and change neither observation nor pending_ops; the state after commit equals the state seen inside the transaction. Non-trivial = >=1 rejected invalid call and an edit on a conflicted register/element or multi-unit text; distinct by case. evaluations counts valid calls verified.",
        assumptions: &["text indexes inside a multi-unit character are not exercised", "marks of text inserted at a splice point are not asserted (expand rules: C25)", "GraphemeCluster lengths are not asserted here (C24 known finding)"],
        subs: vec![
            sub::<Case, _, _>("conflict", 6000, 150000, move |c| (program_strategy(CONFLICT, if c.thorough() { 80 } else { 30 }, 3, 4), calls(), any::<bool>()), check),
            sub::<Case, _, _>("text", 4000, 100000, move |c| (program_strategy(TEXT, if c.thorough() { 80 } else { 30 }, 3, 4), calls(), any::<bool>()), check),
            sub::<Case, _, _>("text-conflict", 3000, 80000, move |c| (program_strategy(TEXT_CONFLICT, if c.thorough() { 80 } else { 30 }, 3, 4), calls(), any::<bool>()), check),
        ],
    }
}
