//! C12 Incremental saves and loads compose.
use super::common::*;
use crate::engine::driver::*;
use crate::engine::graph::Lcg;
use crate::engine::interp::{load_opts, Interp};
use crate::engine::program::*;
use crate::ensure;
use automerge::{AutoCommit, Automerge, ChangeHash, ReadDoc};
use proptest::prelude::*;

type Case = (Program, u64);

struct File {
    /// index into `pieces` from which later pieces belong to this file
    from_piece: usize,
    bytes: Vec<u8>,
    /// full-save bytes alone (reader start state)
    start: Vec<u8>,
}

fn verify(it: &mut Interp, f: &File, pieces: &[Vec<u8>], rng: &mut Lcg, t: &mut Tally) -> CaseResult {
    let enc = it.enc;
    let w = it.reps[0].doc.document().clone();
    let wo = obs_of(&w, None, "writer")?;
    let wh = heads_sorted(&w);
    let wchanges = w.get_changes(&[]).len();
    let cmp = |what: &str, d: &Automerge| -> CaseResult {
        ensure!(heads_sorted(d) == wh, format!("C12:{what}:heads"), "{what}: heads {:?} vs writer {:?}", heads_sorted(d), wh);
        ensure!(d.get_changes(&[]).len() == wchanges, format!("C12:{what}:change-count"), "{what}: {} changes vs writer {}", d.get_changes(&[]).len(), wchanges);
        let o = obs_of(d, None, what)?;
        expect_same("C12", what, &wo, &o)
    };
    // (1) concatenation loads to the writer's state
    let d = catch("load(concat)", || Automerge::load_with_options(&f.bytes, load_opts(enc)))?
        .map_err(|e| Failure::new("C12:concat:load-error", format!("save ++ later pieces failed to load: {e}")))?;
    cmp("concat", &d)?;
    // (2) reader at the save point fed later pieces in order, then again (3)
    let later: Vec<&Vec<u8>> = pieces[f.from_piece..].iter().collect();
    let mut rd = catch("load(start)", || AutoCommit::load_with_options(&f.start, load_opts(enc)))?
        .map_err(|e| Failure::new("C12:start:load-error", e.to_string()))?;
    for b in &later {
        catch("load_incremental", || rd.load_incremental(b))?.map_err(|e| Failure::new("C12:in-order:load_incremental-error", e.to_string()))?;
    }
    cmp("reader-in-order", rd.document())?;
    let before = rd.document().save();
    for b in &later {
        catch("load_incremental again", || rd.load_incremental(b))?.map_err(|e| Failure::new("C12:again:load_incremental-error", e.to_string()))?;
    }
    cmp("reader-fed-twice", rd.document())?;
    ensure!(rd.document().save() == before, "C12:again:bytes-changed", "feeding the same pieces again changed the saved bytes");
    // shuffled order
    let mut order: Vec<usize> = (0..later.len()).collect();
    rng.shuffle(&mut order);
    if std::env::var("VERIF_DEBUG").is_ok() {
        eprintln!("shuffled order {:?} sizes {:?} start {}", order, later.iter().map(|b| b.len()).collect::<Vec<_>>(), f.start.len());
    }
    let mut rd = AutoCommit::load_with_options(&f.start, load_opts(enc)).map_err(|e| Failure::new("C12:start:load-error", e.to_string()))?;
    for i in order {
        catch("load_incremental (shuffled)", || rd.load_incremental(later[i]))?.map_err(|e| Failure::new("C12:shuffled:load_incremental-error", e.to_string()))?;
        if std::env::var("VERIF_DEBUG").is_ok() {
            eprintln!("  after piece {i} ({}): enc {:?} changes {} missing {:?} hex {}", later[i].len(), rd.text_encoding(), rd.get_changes(&[]).len(), rd.get_missing_deps(&[]).len(), hex::encode(later[i]));
        }
    }
    cmp("reader-shuffled", rd.document())?;
    t.extra_evals += 4;
    Ok(())
}

/// close the open file: one last save_incremental, then verify against the writer as it is now
fn close(it: &mut Interp, file: &mut Option<File>, pieces: &mut Vec<Vec<u8>>, rng: &mut Lcg, t: &mut Tally) -> CaseResult {
    if let Some(mut f) = file.take() {
        it.commit(0);
        let last = catch("save_incremental", || it.reps[0].doc.save_incremental())?;
        f.bytes.extend_from_slice(&last);
        pieces.push(last);
        verify(it, &f, pieces, rng, t)?;
    }
    Ok(())
}

pub fn check(case: &Case, t: &mut Tally) -> CaseResult {
    let (p, seed) = case;
    let mut rng = Lcg(*seed);
    let mut opts = default_opts();
    opts.max_reps = p.nrep.clamp(1, 5) as usize + 1; // FORK may add one replica but never replaces the writer
    let mut it = Interp::new(p, opts);
    let enc = it.enc;
    let mut file: Option<File> = None;
    let mut pieces: Vec<Vec<u8>> = vec![];
    let mut inc_pieces = 0;
    let mut merge_since_piece = false;
    let mut nontrivial = false;
    for (i, s) in p.steps.iter().enumerate() {
        if s.k == FORK && (s.r as usize) % it.reps.len() == 0 && it.reps.len() >= it.opts.max_reps {
            continue; // would replace the writer
        }
        if s.k == SAVE_LOAD && (s.r as usize) % it.reps.len() == 0 {
            continue; // reloading the writer restarts its incremental-save cursor outside the file model
        }
        let out = catch(&format!("step {i} {}", s.describe()), || it.step(s))?;
        if out.rep == 0 && matches!(s.k, MERGE | APPLY | SYNC | LOAD_INC) && out.applied {
            merge_since_piece = true;
        }
        if it.reps[0].isolated.is_some() {
            continue;
        }
        let act = rng.below(6);
        if std::env::var("VERIF_DEBUG").is_ok() {
            eprintln!("step {i} {} -> storage action {act}", s.describe());
        }
        match act {
            0 => {
                // a new full save closes the previous file (the incremental cursor restarts here)
                close(&mut it, &mut file, &mut pieces, &mut rng, t)?;
                it.commit(0);
                let w = &mut it.reps[0].doc;
                let b = catch("save", || w.save())?;
                file = Some(File { from_piece: pieces.len(), bytes: b.clone(), start: b });
                inc_pieces = 0;
                merge_since_piece = false;
                t.class("full_save");
            }
            1 | 2 => {
                it.commit(0);
                let w = &mut it.reps[0].doc;
                let b = catch("save_incremental", || w.save_incremental())?;
                if !b.is_empty() {
                    if inc_pieces > 0 && merge_since_piece && file.is_some() {
                        nontrivial = true;
                        t.class("merge_between_pieces");
                    }
                    merge_since_piece = false;
                    inc_pieces += 1;
                    t.class("save_incremental");
                }
                if let Some(f) = file.as_mut() {
                    f.bytes.extend_from_slice(&b);
                }
                pieces.push(b);
            }
            3 => {
                if !it.heads.is_empty() && file.is_some() {
                    it.commit(0);
                    let h: Vec<ChangeHash> = it.heads[rng.below(it.heads.len())].clone();
                    let f = file.as_mut().unwrap();
                    // only heads the file already contains (so the piece has no dangling dependencies)
                    let knows = Automerge::load_with_options(&f.bytes, load_opts(enc)).map(|d| h.iter().all(|x| d.get_change_by_hash(x).is_some())).unwrap_or(false);
                    if knows && it.knows_heads(0, &h) {
                        let w = &mut it.reps[0].doc;
                        let b = catch("save_after", || w.save_after(&h))?;
                        f.bytes.extend_from_slice(&b);
                        pieces.push(b);
                        t.class("save_after");
                    }
                }
            }
            _ => {}
        }
    }
    close(&mut it, &mut file, &mut pieces, &mut rng, t)?;
    if nontrivial {
        t.nontrivial();
        t.sample = Some(p.describe());
    }
    Ok(())
}

pub fn property(_ctx: &Ctx) -> Property {
    Property {
        id: "C12",
        level: "exploration",
        rule: "proptest-generated multi-replica programs; replica 0 is a writer that performs save / save_nocompress / save_incremental / save_after(recorded heads) at generated points between edits and merges. For every full save: (1) save ++ all later pieces loads to the writer's final heads, change count and full observation; (2) a reader loaded from the save and fed the later save_incremental pieces through load_incremental, in writing order and in a shuffled order, equals the writer; (3) feeding all pieces again returns Ok and changes neither state nor saved bytes. Non-trivial = >=2 non-empty incremental pieces with a merge/apply/sync into the writer between them; distinct by case. evaluations counts documents compared.",
        assumptions: &["save_after pieces are appended only to files that already contain the given heads"],
        subs: vec![sub::<Case, _, _>("writer", 4800, 120000, |c| (program_strategy(STORAGE, if c.thorough() { 100 } else { 40 }, 3, 4), any::<u64>()), check)],
    }
}
