//! C06 Failed calls leave the document unchanged.
use super::common::*;
use super::dupseq::*;
use crate::engine::driver::*;
use crate::engine::graph::Lcg;
use crate::engine::interp::{bounds, load_opts, FRAGS};
use crate::engine::program::*;
use crate::ensure;
use automerge::marks::{ExpandMark, Mark};
use automerge::transaction::Transactable;
use automerge::{AutoCommit, Automerge, ObjId, ObjType, ReadDoc, ScalarValue, ROOT};
use proptest::prelude::*;

fn same(before: &Snapshot, after: &Snapshot, what: &str) -> CaseResult {
    same_k(before, after, what, None)
}

fn same_k(before: &Snapshot, after: &Snapshot, what: &str, known: Option<(&Vec<u8>, u64, &G)>) -> CaseResult {
    ensure!(before.heads == after.heads, "C06:err-changed:heads", "{what} returned Err but heads changed: {:?} -> {:?}", before.heads, after.heads);
    if let Some((kind, d)) = crate::engine::obs::first_diff(&before.obs, &after.obs) {
        return Err(Failure::new(format!("C06:err-changed:state:{kind}"), format!("{what} returned Err but the state changed: {d}")));
    }
    if before.missing != after.missing || before.saved != after.saved {
        // which queued changes were lost?
        let qb = crate::engine::chunks::trailing_change_hashes(&before.saved);
        let qa = crate::engine::chunks::trailing_change_hashes(&after.saved);
        let lost: Vec<[u8; 32]> = qb.iter().filter(|h| !qa.contains(h)).copied().collect();
        let gained = qa.iter().filter(|h| !qb.contains(h)).count();
        let mut sig = "C06:err-changed:queue:other".to_string();
        if gained == 0 && !lost.is_empty() && what.contains("duplicate seq") {
            // the DuplicateSeqNumber error path prunes queued changes of the rejected change's actor with a
            // later sequence number (and their queued dependents): Automerge::apply_changes_batch_log_patches
            // -> ChangeQueue::remove_actor_branch_from(actor, seq + 1)
            let all_later_of_actor = known.map(|(actor, seq, g)| {
                let direct: Vec<[u8; 32]> = lost.iter().filter(|h| g.iter().any(|(hh, a, s, _)| hh == *h && a == actor && *s > seq)).copied().collect();
                lost.iter().all(|h| direct.contains(h) || depends_on(g, h, &direct))
            }).unwrap_or(false);
            if all_later_of_actor {
                sig = "C06:err-changed:queue:dupseq-error-prunes-queued-later-seq-of-actor".to_string();
            }
        }
        if gained > 0 && lost.is_empty() && what.contains("duplicate seq") && what.contains("sync(") {
            // receive_sync_message ingests the changes of one message in several steps: the ones before the
            // rejected change stay queued although the call returns Err
            sig = "C06:err-changed:queue:dupseq-error-after-part-of-a-sync-message-was-queued".to_string();
        }
        return Err(Failure::new(sig, format!("{what} returned Err but the pending queue changed: get_missing_deps {:?} -> {:?}; {} queued change(s) lost, {} gained", before.missing, after.missing, lost.len(), gained)));
    }
    Ok(())
}

type G = Vec<([u8; 32], Vec<u8>, u64, Vec<[u8; 32]>)>;

fn depends_on(g: &G, h: &[u8; 32], targets: &[[u8; 32]]) -> bool {
    let mut st = vec![*h];
    let mut seen = std::collections::HashSet::new();
    while let Some(x) = st.pop() {
        if !seen.insert(x) {
            continue;
        }
        if x != *h && targets.contains(&x) {
            return true;
        }
        if let Some((_, _, _, deps)) = g.iter().find(|(hh, _, _, _)| *hh == x) {
            st.extend(deps.iter().copied());
        }
    }
    false
}

fn graph_of(sc: &Scenario) -> G {
    let mut g: G = vec![];
    for c in sc.a_doc.get_changes(&[]).iter().chain(sc.b_doc.get_changes(&[]).iter()) {
        if !g.iter().any(|(h, _, _, _)| *h == c.hash().0) {
            g.push((c.hash().0, c.actor_id().to_bytes().to_vec(), c.seq(), c.deps().iter().map(|d| d.0).collect()));
        }
    }
    g
}

/// parse "duplicate seq N found for actor HEX" out of the library's error text
fn dup_of(err: &str) -> Option<(Vec<u8>, u64)> {
    let rest = err.split("duplicate seq ").nth(1)?;
    let seq: u64 = rest.split_whitespace().next()?.parse().ok()?;
    let actor = rest.split("actor ").nth(1)?.trim().trim_end_matches(')');
    Some((hex::decode(actor).ok()?, seq))
}

/// duplicate (actor, seq) deliveries: after Err nothing changed; a twin that skips the failing call ends equal
pub fn check_dup(case: &Case, t: &mut Tally) -> CaseResult {
    let sc = build(case)?;
    let mut rng = Lcg(case.3);
    let (mut tgt, shares) = target(&sc, &mut rng);
    let mut twin = tgt.clone();
    let n = 3 + rng.below(6);
    let mut nontrivial = false;
    for i in 0..n {
        let before_doc = tgt.document().clone();
        let before = snapshot(&before_doc)?;
        let mut probe = tgt.clone();
        let mut rng_probe = Lcg(rng.0);
        let d = deliver(&sc, &mut tgt, &mut rng, shares, t)?;
        let what = format!("delivery {i} {}", d.what);
        match &d.result {
            Err(e) => {
                t.class("call_failed");
                let after = snapshot(tgt.document())?;
                let g = graph_of(&sc);
                let dup = dup_of(e);
                same_k(&before, &after, &format!("{what} ({e})"), dup.as_ref().map(|(a, s)| (a, *s, &g)))?;
                if !before.missing.is_empty() {
                    t.class("failed_with_nonempty_queue");
                }
                if before_doc.get_changes(&[]).len() > 0 {
                    nontrivial = true;
                }
                // the twin skips the failing call (but consumes the same generated choices)
                let _ = (&mut probe, &mut rng_probe);
            }
            Ok(()) => {
                let mut tl = Tally::default();
                let d2 = deliver(&sc, &mut twin, &mut rng_probe, shares, &mut tl)?;
                let _ = d2;
            }
        }
        t.extra_evals += 1;
    }
    // later behaviour: twin (which never saw the failing calls) ends in the same state
    let a = snapshot(tgt.document())?;
    let b = snapshot(twin.document())?;
    ensure!(a.heads == b.heads, "C06:twin:heads", "document that saw failing calls ends with heads {:?}, twin that skipped them {:?}", a.heads, b.heads);
    if let Some((kind, d)) = crate::engine::obs::first_diff(&b.obs, &a.obs) {
        return Err(Failure::new(format!("C06:twin:state:{kind}"), format!("twin vs document: {d}")));
    }
    ensure!(a.missing == b.missing, "C06:twin:queue", "pending queues differ between document and twin: {:?} vs {:?}", a.missing, b.missing);
    // whatever happened the document can be saved and reloaded
    let bytes = tgt.save();
    let l = catch("load", || Automerge::load_with_options(&bytes, load_opts(sc.enc)))?.map_err(|e| Failure::new("C06:final:load-error", e.to_string()))?;
    expect_same("C06", "final-save-load", &a.obs, &obs_of(&l, None, "reloaded")?)?;
    if nontrivial {
        t.nontrivial();
        t.sample = Some(serde_json::json!({"base": case.0.describe(), "branch_a": case.1.iter().map(|s| s.describe()).collect::<Vec<_>>(), "branch_b": case.2.iter().map(|s| s.describe()).collect::<Vec<_>>()}));
    }
    Ok(())
}

/// rejected transaction operations and corrupted incremental data
type OpsCase = (Program, Vec<(u8, u16, u16, u16, i64)>, u64);

fn invalid_call(d: &mut AutoCommit, objs: &[(ObjId, ObjType)], k: u8, a: u16, b: u16, c: u16, n: i64) -> Option<(String, Result<(), String>)> {
    let live: Vec<&(ObjId, ObjType)> = objs.iter().filter(|(id, _)| d.object_type(id).is_ok()).collect();
    let of = |t: ObjType, s: u16| -> Option<ObjId> {
        let v: Vec<&&(ObjId, ObjType)> = live.iter().filter(|(_, ty)| *ty == t).collect();
        if v.is_empty() { None } else { Some(v[sel(s, v.len())].0.clone()) }
    };
    let big = 1 + (b as usize % 7);
    let r = match k % 16 {
        0 => { let o = of(ObjType::List, a)?; let l = d.length(&o); ("insert(list, len+k)".to_string(), d.insert(&o, l + big, n).map_err(|e| e.to_string())) }
        1 => { let o = of(ObjType::List, a)?; let l = d.length(&o); ("put(list, len+k)".to_string(), d.put(&o, l + big - 1, n).map_err(|e| e.to_string())) }
        2 => { let o = of(ObjType::List, a)?; let l = d.length(&o); ("delete(list, len+k)".to_string(), d.delete(&o, l + big - 1).map_err(|e| e.to_string())) }
        3 => { let o = of(ObjType::List, a)?; ("put(list, \"key\")".to_string(), d.put(&o, "key", n).map_err(|e| e.to_string())) }
        4 => { let o = of(ObjType::Map, a)?; ("put(map, index)".to_string(), d.put(&o, b as usize % 3, n).map_err(|e| e.to_string())) }
        5 => {
            let o = ROOT;
            // "pending" holds an Int when the harness put it; only then is this an invalid call
            match d.get(&o, "pending") { Ok(Some((automerge::Value::Scalar(s), _))) if matches!(s.as_ref(), ScalarValue::Int(_)) => {}, _ => return None }
            ("increment(non-counter)".to_string(), d.increment(&o, "pending", n).map_err(|e| e.to_string()))
        }
        6 => { let o = of(ObjType::Text, a)?; let l = d.length(&o); ("splice_text(len+k)".to_string(), d.splice_text(&o, l + big, 0, "x").map_err(|e| e.to_string())) }
        7 => { let o = of(ObjType::Text, a)?; let l = d.length(&o); ("mark(1..len+k)".to_string(), d.mark(&o, Mark::new("bold".into(), true, l.min(1), l + big), ExpandMark::After).map_err(|e| e.to_string())) }
        8 => { let o = of(ObjType::Text, a)?; let l = d.length(&o); ("mark(len+k..len+k+1)".to_string(), d.mark(&o, Mark::new("bold".into(), true, l + big, l + big + 1), ExpandMark::None).map_err(|e| e.to_string())) }
        9 => { let o = of(ObjType::Text, a)?; ("put_object(text, key)".to_string(), d.put_object(&o, "k", ObjType::Map).map(|_| ()).map_err(|e| e.to_string())) }
        10 => { let o = ObjId::Id(9999 + c as u64, automerge::ActorId::from(vec![1, 2, 3]), 0); ("put(unknown object)".to_string(), d.put(&o, "k", n).map_err(|e| e.to_string())) }
        11 => { let o = of(ObjType::List, a)?; let l = d.length(&o); ("increment(list, len+k)".to_string(), d.increment(&o, l + big - 1, n).map_err(|e| e.to_string())) }
        12 => { let o = of(ObjType::Text, a)?; let l = d.length(&o); ("split_block(len+k)".to_string(), d.split_block(&o, l + big).map(|_| ()).map_err(|e| e.to_string())) }
        13 => { let o = of(ObjType::Text, a)?; let l = d.length(&o); ("unmark(0..len+k)".to_string(), d.unmark(&o, "bold", 0, l + big, ExpandMark::After).map_err(|e| e.to_string())) }
        14 => { let o = of(ObjType::List, a)?; let l = d.length(&o); ("splice(list, len+k)".to_string(), d.splice(&o, l + big, 0, vec![ScalarValue::Int(n)]).map_err(|e| e.to_string())) }
        _ => { let o = of(ObjType::Map, a)?; ("delete(map, index)".to_string(), d.delete(&o, c as usize % 4).map_err(|e| e.to_string())) }
    };
    Some(r)
}

pub fn check_ops(case: &OpsCase, t: &mut Tally) -> CaseResult {
    let (p, calls, seed) = case;
    let mut it = run_program(p, default_opts())?;
    let objs = it.objs.clone();
    let enc = it.enc;
    let mut rng = Lcg(*seed);
    let r = 0usize;
    let mut nontrivial = false;
    for (k, a, b, c, n) in calls {
        // some valid pending edits first so that the transaction is open and non-empty
        if rng.below(2) == 0 {
            let _ = it.reps[r].doc.put(ROOT, "pending", rng.below(9) as i64);
            if let Some((o, _)) = objs.iter().find(|(id, ty)| *ty == ObjType::Text && it.reps[r].doc.object_type(id).is_ok()) {
                let bd = bounds(&it.reps[r].doc, o);
                let _ = it.reps[r].doc.splice_text(o, bd[rng.below(bd.len())], 0, FRAGS[rng.below(4)]);
            }
        }
        let before_obs = catch("observe", || crate::engine::obs::observe(&it.reps[r].doc, None))?;
        let before_pending = it.reps[r].doc.pending_ops();
        let res = catch("invalid call", || invalid_call(&mut it.reps[r].doc, &objs, *k, *a, *b, *c, *n))?;
        let Some((what, res)) = res else { continue };
        t.extra_evals += 1;
        match res {
            Ok(()) => {
                t.class(format!("accepted:{what}"));
            }
            Err(e) => {
                t.class("rejected_op");
                if before_pending > 0 {
                    nontrivial = true;
                }
                let after_obs = catch("observe", || crate::engine::obs::observe(&it.reps[r].doc, None))?;
                let after_pending = it.reps[r].doc.pending_ops();
                ensure!(after_pending == before_pending, format!("C06:rejected-op:pending_ops:{what}"), "{what} returned Err({e}) but pending_ops went {before_pending} -> {after_pending}");
                if let Some((kind, d)) = crate::engine::obs::first_diff(&before_obs, &after_obs) {
                    return Err(Failure::new(format!("C06:rejected-op:state:{what}:{kind}"), format!("{what} returned Err({e}) but the state changed: {d}")));
                }
            }
        }
        if rng.below(3) == 0 {
            it.commit(r);
        }
    }
    it.commit(r);
    // corrupted incremental data on which load_incremental returns Err leaves the document unchanged
    let lastrep = it.reps.len() - 1;
    let other = it.reps[lastrep].doc.save_after(&[]);
    if !other.is_empty() {
        for _ in 0..6 {
            let mut bad = other.clone();
            let i = rng.below(bad.len());
            bad[i] ^= 1 << rng.below(8);
            if rng.below(3) == 0 {
                bad.truncate(i);
            }
            let before = snapshot(it.reps[r].doc.document())?;
            let res = catch("load_incremental(corrupt)", || it.reps[r].doc.load_incremental(&bad))?;
            t.extra_evals += 1;
            if res.is_err() {
                t.class("load_incremental_err");
                let after = snapshot(it.reps[r].doc.document())?;
                same(&before, &after, "load_incremental(corrupted bytes)")?;
            }
        }
    }
    let d = it.reps[r].doc.document().clone();
    let l = catch("load", || Automerge::load_with_options(&d.save(), load_opts(enc)))?.map_err(|e| Failure::new("C06:final:load-error", e.to_string()))?;
    expect_same("C06", "final-save-load", &obs_of(&d, None, "doc")?, &obs_of(&l, None, "reloaded")?)?;
    if nontrivial {
        t.nontrivial();
    }
    Ok(())
}

/// Rejected calls inside an ISOLATED transaction that ends empty (every op rejected, or rolled back): the document
/// must be as before, including who it is: get_actor() and the authorship / sequence of the next local change.
pub fn check_isolated(case: &OpsCase, t: &mut Tally) -> CaseResult {
    let (p, calls, seed) = case;
    let mut it = run_program(p, default_opts())?;
    let objs = it.objs.clone();
    let mut rng = Lcg(*seed);
    // the derived isolation actor sorts below actors 1.. of the harness and above actor 0: use the last replica
    let r = it.reps.len() - 1;
    it.commit(r);
    if it.reps[r].isolated.is_some() {
        return Ok(());
    }
    let actor0 = it.reps[r].doc.get_actor().clone();
    let own_before = it.reps[r].doc.get_changes(&[]).iter().filter(|c| c.actor_id() == &actor0).count();
    let known: Vec<Vec<automerge::ChangeHash>> = it.heads.clone().into_iter().filter(|h| it.knows_heads(r, h)).collect();
    let at: Vec<automerge::ChangeHash> = if known.is_empty() || rng.below(3) == 0 { vec![] } else { known[rng.below(known.len())].clone() };
    let before = snapshot(it.reps[r].doc.document())?;
    catch("isolate", || it.reps[r].doc.isolate(&at))?;
    let mut rejected = 0;
    for (k, a, b, c, n) in calls {
        let pending = it.reps[r].doc.pending_ops();
        let res = catch("invalid call (isolated)", || invalid_call(&mut it.reps[r].doc, &objs, *k, *a, *b, *c, *n))?;
        match res {
            Some((_, Err(_))) => rejected += 1,
            Some((what, Ok(()))) => {
                // an accepted call: undo it so that the isolated transaction still ends empty
                let _ = what;
                let _ = catch("rollback", || it.reps[r].doc.rollback())?;
            }
            None => {}
        }
        let _ = pending;
        t.extra_evals += 1;
    }
    match rng.below(3) {
        0 => {
            let _ = catch("commit (empty isolated transaction)", || it.reps[r].doc.commit())?;
        }
        1 => {
            let _ = catch("get_heads", || it.reps[r].doc.get_heads())?;
        }
        _ => {}
    }
    catch("integrate", || it.reps[r].doc.integrate())?;
    let actor1 = catch("get_actor", || it.reps[r].doc.get_actor().clone())?;
    ensure!(actor1 == actor0, "C06:isolated-rejected-ops:actor-changed", "after an isolated transaction in which every call was rejected or rolled back, get_actor() is {} (was {})", actor1.to_hex_string(), actor0.to_hex_string());
    let after = snapshot(it.reps[r].doc.document())?;
    same(&before, &after, "isolated transaction that ended empty")?;
    // the next local change is authored by the same actor with the next sequence number
    catch("put", || it.reps[r].doc.put(ROOT, "after-isolation", 1))?.map_err(|e| Failure::new("C06:isolated-rejected-ops:edit-error", e.to_string()))?;
    catch("commit", || it.reps[r].doc.commit())?;
    let own: Vec<automerge::Change> = it.reps[r].doc.get_changes(&[]).into_iter().filter(|c| c.actor_id() == &actor0).collect();
    ensure!(own.len() == own_before + 1, "C06:isolated-rejected-ops:next-change-authorship", "the edit after the isolated transaction is not attributed to the document's actor {}: it has {} changes by it, expected {}", actor0.to_hex_string(), own.len(), own_before + 1);
    // and every other replica can still merge it
    for o in 0..it.reps.len() {
        if o != r {
            let mut src = it.reps[r].doc.clone();
            catch("merge", || it.reps[o].doc.merge(&mut src))?.map_err(|e| Failure::new("C06:isolated-rejected-ops:merge-error", e.to_string()))?;
        }
    }
    t.class(if at.is_empty() { "isolated_at_root" } else { "isolated_at_recorded_heads" });
    if rejected > 0 && own_before > 0 {
        t.nontrivial();
    }
    Ok(())
}

pub fn property(_ctx: &Ctx) -> Property {
    Property {
        id: "C06",
        level: "exploration",
        rule: "(dupseq) the C38 scenario: a generated schedule offers two conflicting (actor, seq) branches to a target through apply_changes (single/batch/mixed with good changes), load_incremental, merge, sync, load; whenever a call returns Err the snapshot (heads, full observation, save_with_options(retain_orphans) bytes, get_missing_deps) must be unchanged, and a twin that skips every failing call must end with equal heads/state/queue. (ops) generated invalid transaction calls (index out of range, wrong key kind, unknown object, increment of a non-counter, marks/splices past the end...) inside a non-empty open transaction: Err => observation and pending_ops unchanged; bit-flipped/truncated incremental bytes on which load_incremental returns Err => snapshot unchanged. (isolated-ops) the same invalid calls inside an isolated transaction (isolate at the root or at recorded heads) that ends empty, then integrate: snapshot and get_actor() unchanged, the next local change is authored by the document's actor with the next seq and merges everywhere. Every program ends with load(save()) equal. Non-trivial = a call returned Err on a document with history (ops: with pending ops); distinct by case.",
        assumptions: &["load_incremental of corrupt bytes that returns Ok (partial load) is not constrained here (see C13/C14)"],
        subs: vec![
            sub::<Case, _, _>("dupseq", 4000, 100000, |c| strategy(c.thorough()), check_dup),
            sub::<OpsCase, _, _>("ops", 3200, 80000, |c| (program_strategy(HISTORY, if c.thorough() { 60 } else { 25 }, 2, 4), prop::collection::vec((any::<u8>(), any::<u16>(), any::<u16>(), any::<u16>(), -3i64..9), 1..10), any::<u64>()), check_ops),
            sub::<OpsCase, _, _>("isolated-ops", 2400, 60000, |c| (program_strategy(HISTORY, if c.thorough() { 60 } else { 25 }, 3, 4), prop::collection::vec((any::<u8>(), any::<u16>(), any::<u16>(), any::<u16>(), -3i64..9), 1..6), any::<u64>()), check_isolated),
        ],
    }
}
