//! C23 The sync Bloom filter has no false negatives and never crashes.
use crate::engine::chunks::write_uleb;
use crate::engine::driver::*;
use crate::ensure;
use automerge::sync::BloomFilter;
use automerge::ChangeHash;
use proptest::prelude::*;
use sha2::{Digest, Sha256};

fn hashes(seed: u64, n: usize, colliding: bool) -> Vec<ChangeHash> {
    (0..n)
        .map(|i| {
            let mut h = Sha256::new();
            h.update(seed.to_le_bytes());
            h.update((i as u64).to_le_bytes());
            let mut b: [u8; 32] = h.finalize().into();
            if colliding {
                // same 12-byte prefix (the bytes the probe sequence is derived from) in groups of 4
                let g = (i / 4) as u8;
                for x in b.iter_mut().take(12) {
                    *x = g;
                }
            }
            ChangeHash(b)
        })
        .collect()
}

type MCase = (u64, u16, bool);

pub fn check_members(case: &MCase, t: &mut Tally) -> CaseResult {
    let (seed, n, colliding) = case;
    let n = (*n as usize) % 5001;
    let set = hashes(*seed, n, *colliding);
    let f = catch("from_hashes", || BloomFilter::from_hashes(set.iter()))?;
    for h in &set {
        ensure!(catch("contains_hash", || f.contains_hash(h))?, "C23:false-negative", "from_hashes of {n} hashes does not contain member {h}");
    }
    let bytes = catch("to_bytes", || f.to_bytes())?;
    let g = catch("try_from", || BloomFilter::try_from(bytes.as_slice()))?.map_err(|e| Failure::new("C23:roundtrip:decode-error", format!("try_from(to_bytes()) failed: {e}")))?;
    ensure!(g == f, "C23:roundtrip:not-equal", "decoded filter differs from the original ({n} entries)");
    for h in &set {
        ensure!(catch("contains_hash", || g.contains_hash(h))?, "C23:false-negative-after-decode", "decoded filter lost member {h}");
    }
    ensure!(g.to_bytes() == bytes, "C23:roundtrip:re-encode-differs", "re-encoding a decoded filter gives different bytes");
    t.extra_evals += n as u64;
    if n >= 1 {
        t.nontrivial();
        t.class(if *colliding { "colliding_prefixes" } else { "random_hashes" });
        if n > 1000 {
            t.class("over_1000_entries");
        }
        if n < 40 {
            t.sample = Some(serde_json::json!({"entries": n, "colliding": colliding, "encoded_bytes": bytes.len()}));
        }
    }
    Ok(())
}

/// (num_entries, bits_per_entry, probes, bits_len_mode, payload seed, raw bytes)
type DCase = (u32, u32, u32, u8, u64, Vec<u8>);

pub fn check_decoded(case: &DCase, t: &mut Tally) -> CaseResult {
    let (entries, bpe, probes, mode, seed, raw) = case;
    let bytes: Vec<u8> = match mode % 4 {
        0 => raw.clone(),
        _ => {
            // a structurally valid encoding with generated (possibly degenerate) parameters
            let mut b = vec![];
            write_uleb(&mut b, *entries as u64);
            write_uleb(&mut b, *bpe as u64);
            write_uleb(&mut b, *probes as u64);
            let want = ((*entries as f64 * *bpe as f64) / 8.0).ceil();
            if want <= 4096.0 {
                let n = want as usize;
                let fill = if mode % 4 == 1 { 0xffu8 } else { (*seed & 0xff) as u8 };
                b.extend(std::iter::repeat(fill).take(n));
                if mode % 4 == 3 {
                    b.extend_from_slice(raw); // trailing bytes
                }
            } else {
                b.extend_from_slice(raw); // too short for the announced size: must be rejected, not crash
            }
            b
        }
    };
    let r = catch("BloomFilter::try_from", || BloomFilter::try_from(bytes.as_slice()))?;
    match r {
        Err(_) => {
            t.class("rejected");
        }
        Ok(f) => {
            t.class("decoded");
            let hs = hashes(*seed, 6, false);
            for h in hs.iter().chain([ChangeHash([0; 32]), ChangeHash([0xff; 32])].iter()) {
                let _b: bool = catch("contains_hash on decoded filter", || f.contains_hash(h))?;
                t.extra_evals += 1;
            }
            // decoded filters re-encode and decode to an equal filter
            let again = catch("to_bytes", || f.to_bytes())?;
            let g = catch("try_from(to_bytes)", || BloomFilter::try_from(again.as_slice()))?;
            if !again.is_empty() {
                // (a filter announcing zero entries encodes as the empty string and decodes to the default filter)
                ensure!(g.map(|g| g == f).unwrap_or(false), "C23:decoded:roundtrip", "a decoded filter with entries does not survive to_bytes/try_from");
            }
            if !bytes.is_empty() && bytes[0] != 0 {
                t.nontrivial();
                if *bpe == 0 || *probes == 0 {
                    t.class("degenerate_parameters");
                }
                if *probes > 64 {
                    t.class("probes_over_64");
                }
                t.sample = Some(serde_json::json!({"hex": hex::encode(&bytes[..bytes.len().min(24)]), "len": bytes.len()}));
            }
        }
    }
    Ok(())
}

pub fn property(_ctx: &Ctx) -> Property {
    let small = || prop_oneof![Just(0u32), Just(1u32), Just(2u32), Just(7u32), Just(8u32), Just(10u32), Just(255u32), 0u32..400, Just(u32::MAX), Just(1u32 << 31), any::<u32>()];
    Property {
        id: "C23",
        level: "exploration",
        rule: "(members) hash sets of size 0..5000 derived from a generated seed, random or with colliding 12-byte probe prefixes: from_hashes(S) contains every member, to_bytes/try_from gives an equal filter that still contains every member and re-encodes identically. (decoded) filter bytes from raw generated bytes and from structurally valid encodings with generated parameter triples (entries, bits/entry, probes drawn from {0,1,2,7,8,10,255, small, 2^31, 2^32-1, any}) with matching, all-ones, patterned or trailing bit arrays: try_from returns Ok/Err without panicking and contains_hash on every decoded filter returns a bool for 8 hashes; decoded filters survive re-encoding. Non-trivial = |S| >= 1, respectively a decoded filter with num_entries != 0; distinct by case. evaluations counts membership queries.",
        assumptions: &[],
        subs: vec![
            sub::<MCase, _, _>("members", 3200, 60000, |_| (any::<u64>(), prop_oneof![0u16..50, 0u16..5001], any::<bool>()), check_members),
            sub::<DCase, _, _>("decoded", 64000, 2000000, move |_| (small(), small(), small(), any::<u8>(), any::<u64>(), prop::collection::vec(any::<u8>(), 0..40)), check_decoded),
        ],
    }
}
