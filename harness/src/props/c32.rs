//! C32 Serde export (`AutoSerde`) is a faithful image of the current state and honours serde's
//! length contract.
//!
//! A strict `serde::Serializer` (this file) builds a value tree and checks every announced
//! container length: `serialize_map(Some(n))` must be followed by exactly n entries,
//! `serialize_seq(Some(n))` by exactly n elements — that is what a length-prefixed format relies on.
//! The tree is compared with the expected image computed from `ReadDoc` (`keys`, `get_all`,
//! `length`, `text`): winners only (last of each `get_all` list), text objects as strings.
use super::common::*;
use crate::engine::driver::*;
use crate::engine::program::*;
use automerge::{AutoSerde, Automerge, ObjId, ObjType, ReadDoc, ScalarValue, Value, ROOT};
use serde::ser::{self, Serialize};
use serde_json::Value as J;
use std::cell::RefCell;
use std::collections::BTreeMap;

// ------------------------------------------------------------------ strict serializer

/// value tree produced by the strict serializer
#[derive(Clone, Debug, PartialEq)]
pub enum T {
    Bool(bool),
    I64(i64),
    U64(u64),
    F64(f64),
    Str(String),
    Bytes(Vec<u8>),
    Unit,
    None,
    Some(Box<T>),
    Seq { announced: Option<usize>, items: Vec<T> },
    Map { announced: Option<usize>, entries: Vec<(T, T)> },
    /// anything else serde can express (structs, tuples, variants, chars, 128-bit ints)
    Other(String, Vec<T>),
}

#[derive(Clone, Copy, PartialEq, Debug)]
pub enum Mode {
    /// behave like a length-prefixed format: the first broken announcement is an error
    Enforce,
    /// record broken announcements and keep going (so that everything else can still be compared)
    Record,
}

#[derive(Clone, Debug)]
pub struct LenViolation {
    pub kind: &'static str, // "map" | "seq"
    pub path: String,
    pub announced: usize,
    pub actual: usize,
}

pub struct St {
    pub mode: Mode,
    pub path: RefCell<Vec<String>>,
    pub violations: RefCell<Vec<LenViolation>>,
    pub unannounced_maps: RefCell<u64>,
    pub unannounced_seqs: RefCell<u64>,
}
impl St {
    pub fn new(mode: Mode) -> Self {
        St { mode, path: RefCell::new(vec![]), violations: RefCell::new(vec![]), unannounced_maps: RefCell::new(0), unannounced_seqs: RefCell::new(0) }
    }
    fn path_str(&self) -> String {
        let p = self.path.borrow();
        if p.is_empty() {
            "ROOT".to_string()
        } else {
            format!("ROOT/{}", p.join("/"))
        }
    }
    fn length_broken(&self, kind: &'static str, announced: usize, actual: usize) -> Result<(), SErr> {
        let v = LenViolation { kind, path: self.path_str(), announced, actual };
        let msg = format!("length contract: {} at {} announced {} but produced {}", v.kind, v.path, v.announced, v.actual);
        self.violations.borrow_mut().push(v);
        match self.mode {
            Mode::Enforce => Err(SErr(msg)),
            Mode::Record => Ok(()),
        }
    }
}

#[derive(Debug, Clone)]
pub struct SErr(pub String);
impl std::fmt::Display for SErr {
    fn fmt(&self, f: &mut std::fmt::Formatter<'_>) -> std::fmt::Result {
        write!(f, "{}", self.0)
    }
}
impl std::error::Error for SErr {}
impl ser::Error for SErr {
    fn custom<M: std::fmt::Display>(m: M) -> Self {
        SErr(m.to_string())
    }
}

#[derive(Clone, Copy)]
pub struct Strict<'a> {
    pub st: &'a St,
}

pub struct SeqB<'a> {
    st: &'a St,
    announced: Option<usize>,
    items: Vec<T>,
    wrap: Option<String>,
}
pub struct MapB<'a> {
    st: &'a St,
    announced: Option<usize>,
    entries: Vec<(T, T)>,
    key: Option<T>,
    wrap: Option<String>,
}

fn key_label(k: &T) -> String {
    match k {
        T::Str(s) => format!("{s:?}"),
        x => format!("{x:?}"),
    }
}

impl<'a> SeqB<'a> {
    fn push<V: ?Sized + Serialize>(&mut self, v: &V) -> Result<(), SErr> {
        if let (Some(n), Mode::Enforce) = (self.announced, self.st.mode) {
            if self.wrap.is_none() && self.items.len() >= n {
                // a length-prefixed format has no room for this element
                self.st.length_broken("seq", n, self.items.len() + 1)?;
            }
        }
        self.st.path.borrow_mut().push(format!("[{}]", self.items.len()));
        let r = v.serialize(Strict { st: self.st });
        self.st.path.borrow_mut().pop();
        self.items.push(r?);
        Ok(())
    }
    fn finish(self) -> Result<T, SErr> {
        if let Some(name) = self.wrap {
            return Ok(T::Other(name, self.items));
        }
        match self.announced {
            Some(n) if n != self.items.len() => self.st.length_broken("seq", n, self.items.len())?,
            None => *self.st.unannounced_seqs.borrow_mut() += 1,
            _ => {}
        }
        Ok(T::Seq { announced: self.announced, items: self.items })
    }
}

impl<'a> ser::SerializeSeq for SeqB<'a> {
    type Ok = T;
    type Error = SErr;
    fn serialize_element<V: ?Sized + Serialize>(&mut self, v: &V) -> Result<(), SErr> {
        self.push(v)
    }
    fn end(self) -> Result<T, SErr> {
        self.finish()
    }
}
impl<'a> ser::SerializeTuple for SeqB<'a> {
    type Ok = T;
    type Error = SErr;
    fn serialize_element<V: ?Sized + Serialize>(&mut self, v: &V) -> Result<(), SErr> {
        self.push(v)
    }
    fn end(self) -> Result<T, SErr> {
        self.finish()
    }
}
impl<'a> ser::SerializeTupleStruct for SeqB<'a> {
    type Ok = T;
    type Error = SErr;
    fn serialize_field<V: ?Sized + Serialize>(&mut self, v: &V) -> Result<(), SErr> {
        self.push(v)
    }
    fn end(self) -> Result<T, SErr> {
        self.finish()
    }
}
impl<'a> ser::SerializeTupleVariant for SeqB<'a> {
    type Ok = T;
    type Error = SErr;
    fn serialize_field<V: ?Sized + Serialize>(&mut self, v: &V) -> Result<(), SErr> {
        self.push(v)
    }
    fn end(self) -> Result<T, SErr> {
        self.finish()
    }
}

impl<'a> MapB<'a> {
    fn put_key<K: ?Sized + Serialize>(&mut self, k: &K) -> Result<(), SErr> {
        if let (Some(n), Mode::Enforce) = (self.announced, self.st.mode) {
            if self.wrap.is_none() && self.entries.len() >= n {
                self.st.length_broken("map", n, self.entries.len() + 1)?;
            }
        }
        self.st.path.borrow_mut().push("<key>".into());
        let r = k.serialize(Strict { st: self.st });
        self.st.path.borrow_mut().pop();
        self.key = Some(r?);
        Ok(())
    }
    fn put_value<V: ?Sized + Serialize>(&mut self, v: &V) -> Result<(), SErr> {
        let k = self.key.take().ok_or_else(|| SErr("serialize_value before serialize_key".into()))?;
        self.st.path.borrow_mut().push(key_label(&k));
        let r = v.serialize(Strict { st: self.st });
        self.st.path.borrow_mut().pop();
        self.entries.push((k, r?));
        Ok(())
    }
    fn finish(self) -> Result<T, SErr> {
        if self.key.is_some() {
            return Err(SErr("map ended after a key without a value".into()));
        }
        if let Some(name) = self.wrap {
            return Ok(T::Other(name, self.entries.into_iter().flat_map(|(k, v)| [k, v]).collect()));
        }
        match self.announced {
            Some(n) if n != self.entries.len() => self.st.length_broken("map", n, self.entries.len())?,
            None => *self.st.unannounced_maps.borrow_mut() += 1,
            _ => {}
        }
        Ok(T::Map { announced: self.announced, entries: self.entries })
    }
}
impl<'a> ser::SerializeMap for MapB<'a> {
    type Ok = T;
    type Error = SErr;
    fn serialize_key<K: ?Sized + Serialize>(&mut self, k: &K) -> Result<(), SErr> {
        self.put_key(k)
    }
    fn serialize_value<V: ?Sized + Serialize>(&mut self, v: &V) -> Result<(), SErr> {
        self.put_value(v)
    }
    fn end(self) -> Result<T, SErr> {
        self.finish()
    }
}
impl<'a> ser::SerializeStruct for MapB<'a> {
    type Ok = T;
    type Error = SErr;
    fn serialize_field<V: ?Sized + Serialize>(&mut self, name: &'static str, v: &V) -> Result<(), SErr> {
        self.key = Some(T::Str(name.to_string()));
        self.put_value(v)
    }
    fn end(self) -> Result<T, SErr> {
        self.finish()
    }
}
impl<'a> ser::SerializeStructVariant for MapB<'a> {
    type Ok = T;
    type Error = SErr;
    fn serialize_field<V: ?Sized + Serialize>(&mut self, name: &'static str, v: &V) -> Result<(), SErr> {
        self.key = Some(T::Str(name.to_string()));
        self.put_value(v)
    }
    fn end(self) -> Result<T, SErr> {
        self.finish()
    }
}

impl<'a> ser::Serializer for Strict<'a> {
    type Ok = T;
    type Error = SErr;
    type SerializeSeq = SeqB<'a>;
    type SerializeTuple = SeqB<'a>;
    type SerializeTupleStruct = SeqB<'a>;
    type SerializeTupleVariant = SeqB<'a>;
    type SerializeMap = MapB<'a>;
    type SerializeStruct = MapB<'a>;
    type SerializeStructVariant = MapB<'a>;

    fn serialize_bool(self, v: bool) -> Result<T, SErr> {
        Ok(T::Bool(v))
    }
    fn serialize_i8(self, v: i8) -> Result<T, SErr> {
        Ok(T::I64(v as i64))
    }
    fn serialize_i16(self, v: i16) -> Result<T, SErr> {
        Ok(T::I64(v as i64))
    }
    fn serialize_i32(self, v: i32) -> Result<T, SErr> {
        Ok(T::I64(v as i64))
    }
    fn serialize_i64(self, v: i64) -> Result<T, SErr> {
        Ok(T::I64(v))
    }
    fn serialize_u8(self, v: u8) -> Result<T, SErr> {
        Ok(T::U64(v as u64))
    }
    fn serialize_u16(self, v: u16) -> Result<T, SErr> {
        Ok(T::U64(v as u64))
    }
    fn serialize_u32(self, v: u32) -> Result<T, SErr> {
        Ok(T::U64(v as u64))
    }
    fn serialize_u64(self, v: u64) -> Result<T, SErr> {
        Ok(T::U64(v))
    }
    fn serialize_i128(self, v: i128) -> Result<T, SErr> {
        Ok(T::Other(format!("i128:{v}"), vec![]))
    }
    fn serialize_u128(self, v: u128) -> Result<T, SErr> {
        Ok(T::Other(format!("u128:{v}"), vec![]))
    }
    fn serialize_f32(self, v: f32) -> Result<T, SErr> {
        Ok(T::F64(v as f64))
    }
    fn serialize_f64(self, v: f64) -> Result<T, SErr> {
        Ok(T::F64(v))
    }
    fn serialize_char(self, v: char) -> Result<T, SErr> {
        Ok(T::Other(format!("char:{v:?}"), vec![]))
    }
    fn serialize_str(self, v: &str) -> Result<T, SErr> {
        Ok(T::Str(v.to_string()))
    }
    fn serialize_bytes(self, v: &[u8]) -> Result<T, SErr> {
        Ok(T::Bytes(v.to_vec()))
    }
    fn serialize_none(self) -> Result<T, SErr> {
        Ok(T::None)
    }
    fn serialize_some<V: ?Sized + Serialize>(self, v: &V) -> Result<T, SErr> {
        Ok(T::Some(Box::new(v.serialize(self)?)))
    }
    fn serialize_unit(self) -> Result<T, SErr> {
        Ok(T::Unit)
    }
    fn serialize_unit_struct(self, name: &'static str) -> Result<T, SErr> {
        Ok(T::Other(format!("unit_struct:{name}"), vec![]))
    }
    fn serialize_unit_variant(self, name: &'static str, _i: u32, variant: &'static str) -> Result<T, SErr> {
        Ok(T::Other(format!("unit_variant:{name}::{variant}"), vec![]))
    }
    fn serialize_newtype_struct<V: ?Sized + Serialize>(self, name: &'static str, v: &V) -> Result<T, SErr> {
        Ok(T::Other(format!("newtype_struct:{name}"), vec![v.serialize(self)?]))
    }
    fn serialize_newtype_variant<V: ?Sized + Serialize>(self, name: &'static str, _i: u32, variant: &'static str, v: &V) -> Result<T, SErr> {
        Ok(T::Other(format!("newtype_variant:{name}::{variant}"), vec![v.serialize(self)?]))
    }
    fn serialize_seq(self, len: Option<usize>) -> Result<SeqB<'a>, SErr> {
        Ok(SeqB { st: self.st, announced: len, items: vec![], wrap: None })
    }
    fn serialize_tuple(self, len: usize) -> Result<SeqB<'a>, SErr> {
        Ok(SeqB { st: self.st, announced: Some(len), items: vec![], wrap: Some("tuple".into()) })
    }
    fn serialize_tuple_struct(self, name: &'static str, len: usize) -> Result<SeqB<'a>, SErr> {
        Ok(SeqB { st: self.st, announced: Some(len), items: vec![], wrap: Some(format!("tuple_struct:{name}")) })
    }
    fn serialize_tuple_variant(self, name: &'static str, _i: u32, variant: &'static str, len: usize) -> Result<SeqB<'a>, SErr> {
        Ok(SeqB { st: self.st, announced: Some(len), items: vec![], wrap: Some(format!("tuple_variant:{name}::{variant}")) })
    }
    fn serialize_map(self, len: Option<usize>) -> Result<MapB<'a>, SErr> {
        Ok(MapB { st: self.st, announced: len, entries: vec![], key: None, wrap: None })
    }
    fn serialize_struct(self, name: &'static str, len: usize) -> Result<MapB<'a>, SErr> {
        Ok(MapB { st: self.st, announced: Some(len), entries: vec![], key: None, wrap: Some(format!("struct:{name}")) })
    }
    fn serialize_struct_variant(self, name: &'static str, _i: u32, variant: &'static str, len: usize) -> Result<MapB<'a>, SErr> {
        Ok(MapB { st: self.st, announced: Some(len), entries: vec![], key: None, wrap: Some(format!("struct_variant:{name}::{variant}")) })
    }
    fn is_human_readable(&self) -> bool {
        false
    }
}

/// the tree as serde_json would render it (serde_json's documented data-model mapping)
pub fn t_to_json(t: &T) -> Option<J> {
    Some(match t {
        T::Bool(b) => J::Bool(*b),
        T::I64(i) => J::from(*i),
        T::U64(u) => J::from(*u),
        T::F64(f) => serde_json::Number::from_f64(*f).map(J::Number).unwrap_or(J::Null),
        T::Str(s) => J::String(s.clone()),
        T::Bytes(b) => J::Array(b.iter().map(|x| J::from(*x)).collect()),
        T::Unit | T::None => J::Null,
        T::Some(x) => t_to_json(x)?,
        T::Seq { items, .. } => J::Array(items.iter().map(t_to_json).collect::<Option<Vec<_>>>()?),
        T::Map { entries, .. } => {
            let mut m = serde_json::Map::new();
            for (k, v) in entries {
                let T::Str(k) = k else { return None };
                m.insert(k.clone(), t_to_json(v)?);
            }
            J::Object(m)
        }
        T::Other(..) => return None,
    })
}

// ------------------------------------------------------------------ expected image

#[derive(Clone, Debug)]
pub enum E {
    Map(BTreeMap<String, E>),
    List(Vec<E>),
    Text(String),
    Scalar(ScalarValue),
}

#[derive(Default)]
pub struct Stats {
    pub root_len: usize,
    pub nested_maps: u64,
    pub nested_map_size_differs: u64,
    pub lists: u64,
    pub nonempty_lists: u64,
    pub texts: u64,
    pub nonempty_texts: u64,
    pub conflicts: u64,
    pub kinds: Vec<&'static str>,
    pub max_depth: usize,
}

fn kind_of(s: &ScalarValue) -> &'static str {
    match s {
        ScalarValue::Bytes(_) => "bytes",
        ScalarValue::Str(_) => "str",
        ScalarValue::Int(_) => "int",
        ScalarValue::Uint(_) => "uint",
        ScalarValue::F64(_) => "f64",
        ScalarValue::Counter(_) => "counter",
        ScalarValue::Timestamp(_) => "timestamp",
        ScalarValue::Boolean(_) => "bool",
        ScalarValue::Unknown { .. } => "unknown",
        ScalarValue::Null => "null",
    }
}

fn winner<D: ReadDoc>(doc: &D, vals: Vec<(Value<'_>, ObjId)>, st: &mut Stats, depth: usize) -> Option<E> {
    if vals.len() > 1 {
        st.conflicts += 1;
    }
    let (v, id) = vals.last()?;
    Some(match v {
        Value::Object(t) => expected_node(doc, id, *t, st, depth + 1),
        Value::Scalar(s) => {
            let k = kind_of(s);
            if !st.kinds.contains(&k) {
                st.kinds.push(k);
            }
            E::Scalar(s.as_ref().clone())
        }
    })
}

/// the current state seen through `keys` / `length` / `get_all` (last = winner) / `text`
pub fn expected_node<D: ReadDoc>(doc: &D, obj: &ObjId, t: ObjType, st: &mut Stats, depth: usize) -> E {
    st.max_depth = st.max_depth.max(depth);
    if depth > 24 {
        return E::Map(BTreeMap::new());
    }
    match t {
        ObjType::Map | ObjType::Table => {
            let mut m = BTreeMap::new();
            let keys: Vec<String> = doc.keys(obj).collect();
            for k in keys {
                let vals = doc.get_all(obj, k.as_str()).unwrap_or_default();
                if let Some(e) = winner(doc, vals, st, depth) {
                    m.insert(k, e);
                }
            }
            if depth == 0 {
                st.root_len = m.len();
            } else {
                st.nested_maps += 1;
            }
            E::Map(m)
        }
        ObjType::List => {
            let len = doc.length(obj);
            let mut l = vec![];
            for i in 0..len {
                let vals = doc.get_all(obj, i).unwrap_or_default();
                if let Some(e) = winner(doc, vals, st, depth) {
                    l.push(e);
                }
            }
            st.lists += 1;
            if !l.is_empty() {
                st.nonempty_lists += 1;
            }
            E::List(l)
        }
        ObjType::Text => {
            let s = doc.text(obj).unwrap_or_else(|e| format!("<text error {e}>"));
            st.texts += 1;
            if !s.is_empty() {
                st.nonempty_texts += 1;
            }
            E::Text(s)
        }
    }
}

fn count_differing(e: &E, root_len: usize, depth: usize, st: &mut Stats) {
    match e {
        E::Map(m) => {
            if depth > 0 && m.len() != root_len {
                st.nested_map_size_differs += 1;
            }
            m.values().for_each(|v| count_differing(v, root_len, depth + 1, st));
        }
        E::List(l) => l.iter().for_each(|v| count_differing(v, root_len, depth + 1, st)),
        _ => {}
    }
}

fn short<X: std::fmt::Debug>(x: &X) -> String {
    let s = format!("{x:?}");
    if s.chars().count() > 300 {
        format!("{}…", s.chars().take(300).collect::<String>())
    } else {
        s
    }
}

fn int_of(t: &T) -> Option<i128> {
    match t {
        T::I64(i) => Some(*i as i128),
        T::U64(u) => Some(*u as i128),
        _ => None,
    }
}

/// compare the expected image with the strict tree; Err((signature suffix, detail))
pub fn compare(e: &E, t: &T, path: &str, t_classes: &mut Vec<&'static str>) -> Result<(), (String, String)> {
    match (e, t) {
        (E::Map(m), T::Map { entries, .. }) => {
            let mut seen: BTreeMap<&str, &T> = BTreeMap::new();
            for (k, v) in entries {
                let T::Str(k) = k else {
                    return Err(("map-key-not-string".into(), format!("{path}: key serialized as {}", short(k))));
                };
                if seen.insert(k.as_str(), v).is_some() {
                    return Err(("duplicate-key".into(), format!("{path}: key {k:?} serialized twice")));
                }
            }
            let ek: Vec<&str> = m.keys().map(|s| s.as_str()).collect();
            let tk: Vec<&str> = seen.keys().copied().collect();
            if ek != tk {
                return Err(("keys".into(), format!("{path}: document keys {:?} but serialized keys {:?}", ek, tk)));
            }
            for (k, ev) in m {
                compare(ev, seen[k.as_str()], &format!("{path}/{k:?}"), t_classes)?;
            }
            Ok(())
        }
        (E::List(l), T::Seq { items, .. }) => {
            if l.len() != items.len() {
                return Err(("list-length".into(), format!("{path}: list has {} elements, serialized {}", l.len(), items.len())));
            }
            for (i, (ev, tv)) in l.iter().zip(items.iter()).enumerate() {
                compare(ev, tv, &format!("{path}[{i}]"), t_classes)?;
            }
            Ok(())
        }
        (E::Text(s), T::Str(x)) => {
            if s != x {
                return Err(("text".into(), format!("{path}: text {s:?} serialized as {x:?}")));
            }
            Ok(())
        }
        (E::Scalar(s), t) => {
            let bad = |what: &str| Err((format!("scalar:{what}"), format!("{path}: {} serialized as {}", short(s), short(t))));
            match s {
                ScalarValue::Str(x) => match t {
                    T::Str(y) if x.as_str() == y => Ok(()),
                    _ => bad("str"),
                },
                ScalarValue::Int(i) => {
                    if int_of(t) == Some(*i as i128) {
                        Ok(())
                    } else {
                        bad("int")
                    }
                }
                ScalarValue::Uint(u) => {
                    if int_of(t) == Some(*u as i128) {
                        Ok(())
                    } else {
                        bad("uint")
                    }
                }
                ScalarValue::Counter(c) => {
                    if int_of(t) == Some(i64::from(c) as i128) {
                        Ok(())
                    } else {
                        bad("counter")
                    }
                }
                ScalarValue::F64(f) => match t {
                    T::F64(g) if f.to_bits() == g.to_bits() => Ok(()),
                    _ => bad("f64"),
                },
                ScalarValue::Boolean(b) => match t {
                    T::Bool(c) if b == c => Ok(()),
                    _ => bad("bool"),
                },
                ScalarValue::Null => match t {
                    T::Unit | T::None => Ok(()),
                    _ => bad("null"),
                },
                // representation not documented: only checked when it is a plain integer
                ScalarValue::Timestamp(ts) => match int_of(t) {
                    Some(i) if i == *ts as i128 => Ok(()),
                    Some(_) => bad("timestamp"),
                    None => {
                        t_classes.push("timestamp_not_integer");
                        Ok(())
                    }
                },
                // representation not documented: checked when it is a byte string or a sequence of integers
                ScalarValue::Bytes(b) => match t {
                    T::Bytes(x) => {
                        if x == b {
                            Ok(())
                        } else {
                            bad("bytes")
                        }
                    }
                    T::Seq { items, .. } if items.iter().all(|i| int_of(i).is_some()) => {
                        let got: Vec<i128> = items.iter().filter_map(int_of).collect();
                        let want: Vec<i128> = b.iter().map(|x| *x as i128).collect();
                        if got == want {
                            Ok(())
                        } else {
                            bad("bytes")
                        }
                    }
                    _ => {
                        t_classes.push("bytes_other_representation");
                        Ok(())
                    }
                },
                ScalarValue::Unknown { .. } => Ok(()),
            }
        }
        (e, t) => {
            let kind = match e {
                E::Map(_) => "map-not-a-map",
                E::List(_) => "list-not-a-seq",
                E::Text(_) => "text-not-a-string",
                E::Scalar(_) => "scalar",
            };
            Err((kind.into(), format!("{path}: expected {} but serialized {}", short(e), short(t))))
        }
    }
}

// ------------------------------------------------------------------ the check

/// result of checking one document: Ok(pending length-contract failure, if any)
pub fn check_doc<D: ReadDoc>(doc: &D, what: &str, t: &mut Tally) -> Result<Option<Failure>, Failure> {
    let mut stats = Stats::default();
    let expected = catch(&format!("read {what}"), || expected_node(doc, &ROOT, ObjType::Map, &mut stats, 0))?;
    let root_len = stats.root_len;
    count_differing(&expected, root_len, 0, &mut stats);

    // 1. lenient pass: build the tree, record broken announcements
    let st = St::new(Mode::Record);
    let tree = catch(&format!("AutoSerde::serialize(strict,record) {what}"), || AutoSerde::from(doc).serialize(Strict { st: &st }))?
        .map_err(|e| Failure::new("C32:serialize:error", format!("{what}: serializer returned {e}")))?;
    t.extra_evals += 1;

    // 2. the tree is the expected image
    let mut tc = vec![];
    if let Err((kind, d)) = compare(&expected, &tree, "ROOT", &mut tc) {
        return Err(Failure::new(format!("C32:image:{kind}"), format!("{what}: {d}")));
    }
    for c in tc {
        t.class(c);
    }

    // 3. serde_json agrees with the strict tree
    let jv = catch(&format!("serde_json::to_value(AutoSerde) {what}"), || serde_json::to_value(AutoSerde::from(doc)))?
        .map_err(|e| Failure::new("C32:json:to_value-error", format!("{what}: {e}")))?;
    match t_to_json(&tree) {
        Some(tj) => {
            if tj != jv {
                return Err(Failure::new("C32:json:differs-from-strict-tree", format!("{what}: strict tree as JSON {} but serde_json::to_value gave {}", short(&tj), short(&jv))));
            }
        }
        None => return Err(Failure::new("C32:image:non-json-data-model", format!("{what}: tree uses serde types outside maps/seqs/strings/scalars: {}", short(&tree)))),
    }
    let js = catch(&format!("serde_json::to_string(AutoSerde) {what}"), || serde_json::to_string(&AutoSerde::from(doc)))?
        .map_err(|e| Failure::new("C32:json:to_string-error", format!("{what}: {e}")))?;
    let back: J = serde_json::from_str(&js).map_err(|e| Failure::new("C32:json:output-does-not-parse", format!("{what}: {e}: {}", short(&js))))?;
    if back != jv {
        return Err(Failure::new("C32:json:to_string-vs-to_value", format!("{what}: {} vs {}", short(&back), short(&jv))));
    }
    t.extra_evals += 1;

    // classification
    if stats.nested_maps > 0 {
        t.class("nested_map");
    }
    if stats.nested_map_size_differs > 0 {
        t.class("nested_map_size_differs_from_root");
        t.nontrivial();
    }
    if stats.nonempty_lists > 0 {
        t.class("nonempty_list");
    }
    if stats.nonempty_texts > 0 {
        t.class("nonempty_text");
    }
    if stats.conflicts > 0 {
        t.class("conflict_on_exported_path");
    }
    if stats.max_depth >= 3 {
        t.class("depth>=3");
    }
    for k in &stats.kinds {
        t.class(format!("scalar_{k}"));
    }
    if *st.unannounced_seqs.borrow() > 0 {
        t.class("seq_length_not_announced(None)");
    }
    if *st.unannounced_maps.borrow() > 0 {
        t.class("map_length_not_announced(None)");
    }

    // 4. the length contract
    let viol = st.violations.borrow().clone();
    if let Some(v) = viol.first() {
        // confirm that a format which trusts the announcement would indeed fail
        let st2 = St::new(Mode::Enforce);
        let r = catch("AutoSerde::serialize(strict,enforce)", || AutoSerde::from(doc).serialize(Strict { st: &st2 }))?;
        let enforced = match r {
            Err(e) => format!("enforcing serializer fails with: {e}"),
            Ok(_) => "enforcing serializer unexpectedly succeeded".to_string(),
        };
        return Ok(Some(Failure::new(
            format!("C32:length-contract:{}", v.kind),
            format!(
                "{what}: {} at {} announced length {} but serialized {} entries (ROOT has {} keys; {} broken announcements in this document); {}",
                v.kind,
                v.path,
                v.announced,
                v.actual,
                root_len,
                viol.len(),
                enforced
            ),
        )));
    }
    // no violation recorded: the enforcing mode must succeed and give the same tree
    let st2 = St::new(Mode::Enforce);
    let tree2 = catch("AutoSerde::serialize(strict,enforce)", || AutoSerde::from(doc).serialize(Strict { st: &st2 }))?
        .map_err(|e| Failure::new("C32:length-contract:enforce-mode", format!("{what}: {e}")))?;
    if tree2 != tree {
        return Err(Failure::new("C32:serialize:not-deterministic", format!("{what}: two serializations differ")));
    }
    Ok(None)
}

pub fn check(p: &Program, t: &mut Tally) -> CaseResult {
    let mut it = run_program(p, default_opts())?;
    let mut merged = fresh(it.enc);
    for i in 0..it.reps.len() {
        let mut o = it.reps[i].doc.document().clone();
        catch("merge", || merged.merge(&mut o))?.map_err(|e| Failure::new("C32:merge:error", e.to_string()))?;
    }
    // every other discrepancy is reported before the (known) length-contract one
    let mut pending: Option<Failure> = None;
    let r = check_doc(&merged, "merged Automerge", t)?;
    pending = pending.or(r);
    for i in 0..it.reps.len() {
        // AutoSerde over the AutoCommit wrapper (ReadDoc for AutoCommit)
        let r = check_doc(&it.reps[i].doc, "replica AutoCommit", t)?;
        pending = pending.or(r);
    }
    if t.self_nontrivial && t.sample.is_none() {
        t.sample = Some(serde_json::json!({"program": p.describe(), "exported": serde_json::to_value(AutoSerde::from(&merged)).unwrap_or(J::Null)}));
    }
    match pending {
        Some(f) => Err(f),
        None => Ok(()),
    }
}

/// nesting-heavy preset: many objects inside objects, all scalar kinds, some conflicts
pub const NESTED: Preset = &[
    (PUT, 20),
    (PUT_OBJECT, 16),
    (INSERT_OBJECT, 8),
    (LIST_INSERT, 10),
    (SPLICE_TEXT, 8),
    (COMMIT, 6),
    (MERGE, 10),
    (DELETE, 5),
    (LIST_DELETE, 3),
    (LIST_PUT, 4),
    (INCREMENT, 3),
    (SPLICE, 3),
    (TEXT_PUT, 1),
    (BLOCK, 1),
    (FORK, 1),
    (SAVE_LOAD, 1),
];

#[allow(dead_code)]
fn _assert_automerge_is_readdoc(d: &Automerge) -> AutoSerde<'_, Automerge> {
    AutoSerde::from(d)
}

pub fn property(_ctx: &Ctx) -> Property {
    Property {
        id: "C32",
        level: "exploration",
        rule: "proptest-generated multi-replica programs (nested maps/lists/text, all scalar kinds, conflicts); the merged Automerge and every replica AutoCommit are serialized through AutoSerde into (a) a strict harness Serializer that records the announced length of every map/seq and requires Some(n) to be followed by exactly n entries, (b) serde_json::to_value and to_string. The strict tree must equal the expected image computed from ReadDoc (keys, get_all last = winner, length, text): same key sets, list order and lengths, text as the text() string, str/int/uint/f64(bits)/bool/null/counter(current value) scalars; timestamps and bytes are compared when serialized as integers / byte sequences; serde_json output must equal the strict tree mapped to JSON. Non-trivial = the exported state contains a nested map whose size differs from ROOT's; distinct by program fingerprint. evaluations counts serializations compared.",
        assumptions: &[
            "expected image is read through keys/get_all/length/text, AutoSerde reads through keys/get/length/text (C02 checks those reads against an independent model)",
            "serialize_seq(None) / serialize_map(None) is legal serde (length unknown) and is only counted as a class, not failed",
            "Timestamp and Bytes representations are not documented: integer milliseconds / sequence of u8 are checked when used",
        ],
        subs: vec![
            sub::<Program, _, _>("nested", 19200, 400000, |c| program_strategy(NESTED, if c.thorough() { 120 } else { 40 }, if c.thorough() { 5 } else { 3 }, 4), check),
            sub::<Program, _, _>("history", 12800, 250000, |c| program_strategy(HISTORY, if c.thorough() { 120 } else { 40 }, if c.thorough() { 5 } else { 3 }, 4), check),
            sub::<Program, _, _>("conflict", 12800, 250000, |c| program_strategy(CONFLICT, if c.thorough() { 100 } else { 40 }, 4, 4), check),
        ],
    }
}
