//! C36 helper: turns a vector of fixed-width raw ops into (a) a concrete line program for
//! `/verif/cdriver/driver.c` and (b) the transcript the Rust API (`AutoCommit`) predicts for it.
//! Handles are resolved against the live model state while the Rust side executes, so every
//! emitted command names valid handles, indexes inside the documented preconditions, explicit
//! actor ids and explicit commit times.
use super::c36_fmt::*;
use am::marks::{ExpandMark, Mark};
use am::sync::SyncDoc;
use am::transaction::{CommitOptions, Transactable};
use am::{ActorId, AutoCommit, Change, ChangeHash, Cursor, ObjId, ObjType, ReadDoc, ScalarValue, Value};
use automerge as am;
use serde::{Deserialize, Serialize};
use std::cell::RefCell;
use std::collections::BTreeSet;
use std::rc::Rc;

pub const NSLOT: usize = 16;
const MAX_DOCS: usize = 4;
const MAX_STATES: usize = 3;

#[derive(Debug, Clone, Serialize, Deserialize, PartialEq)]
pub struct RawOp {
    pub k: u16,
    pub dst: u8,
    pub a: u8,
    pub b: u8,
    pub c: u8,
    pub n: u16,
    pub m: u16,
    pub v: i64,
}

/// generator restrictions switched on by `known` findings (see c36.rs)
#[derive(Debug, Clone, Default)]
pub struct Avoid {
    /// never pass the `AMitems` of an empty result (or `(AMitems){0}`) to the library
    pub empty_items: bool,
    /// never re-read a cursor's byte/str view after asking for a second one
    pub cursor_span: bool,
    /// never compare object ids / items carrying object ids
    pub objid_eq: bool,
}

pub struct Line {
    pub text: String,
    pub expect: String,
    pub kind: &'static str,
}

pub struct Model {
    pub slots: Vec<Option<MRes>>,
    pub lines: Vec<Line>,
    pub families: BTreeSet<&'static str>,
    pub kinds: BTreeSet<&'static str>,
    pub freed_while_alive: bool,
    pub error_results: u32,
    pub avoid: Avoid,
    next_uid: u32,
    next_actor: u32,
    /// cursor text -> (document uid, object) it was taken from
    cursor_home: Vec<(String, u32, ObjId)>,
}

pub fn family(kind: &str) -> &'static str {
    match kind {
        "actor" | "actorstr" | "actorcmp" | "create" | "clone" | "fork" | "setactor" | "getactor" | "commit" | "empty" | "equal" | "heads" | "pending"
        | "rollback" | "save" | "saveinc" | "load" | "loadinc" | "merge" | "size" | "keys" | "items" => "doc",
        "changes" | "missing" | "added" | "lastlocal" | "bychange" | "apply" | "chfrombytes" | "chcompress" | "chloaddoc" => "change",
        "mput" | "mdel" | "minc" | "mget" | "mgetall" | "mrange" => "map",
        "lput" | "ldel" | "linc" | "lget" | "lgetall" | "lrange" | "splice" => "list",
        "splicetext" | "text" | "marks" | "mark" | "unmark" => "text",
        "cursor" | "curpos" | "curfrombytes" | "curfromstr" | "cureq" | "curhold" => "cursor",
        "syncinit" | "gen" | "recv" | "msgenc" | "msgdec" | "stenc" | "stdec" | "steq" | "theirheads" | "sharedheads" | "msgheads" => "sync",
        _ => "result",
    }
}

fn is_doc(it: &MItem) -> bool {
    matches!(it.val, MVal::Doc(..))
}
fn is_state(it: &MItem) -> bool {
    matches!(it.val, MVal::State(_))
}

const KEYS: &[&str] = &["a", "b", "k1", "key", "ü", "zz", "list", "t", ""];
const TEXTS: &[&str] = &["a", "hello", "wörld", "𝄞x", "\n", " ", "abc def", "é"];
const NAMES: &[&str] = &["bold", "link", "i"];

impl Model {
    pub fn new(avoid: Avoid) -> Self {
        Model {
            slots: (0..NSLOT).map(|_| None).collect(),
            lines: vec![],
            families: BTreeSet::new(),
            kinds: BTreeSet::new(),
            freed_while_alive: false,
            error_results: 0,
            avoid,
            next_uid: 1,
            next_actor: 0,
            cursor_home: vec![],
        }
    }

    // ------------------------------------------------------------ bookkeeping
    fn emit(&mut self, kind: &'static str, text: String, expect: String) {
        self.families.insert(family(kind));
        self.kinds.insert(kind);
        self.lines.push(Line { text, expect, kind });
    }

    /// a result leaves the table: non-triviality bookkeeping
    fn note_free(&mut self, s: usize, old: &MRes) {
        if let Some(u) = old.origin {
            if old.list().iter().any(|i| is_doc(i)) {
                return;
            }
            let other = self.slots.iter().enumerate().any(|(i, r)| {
                i != s && r.as_ref().map(|r| r.origin == Some(u) && !r.list().iter().any(|i| is_doc(i))).unwrap_or(false)
            });
            if other {
                self.freed_while_alive = true;
            }
        }
    }

    /// call made -> old content of `dst` freed -> stored -> read (the order driver.c uses)
    fn put(&mut self, kind: &'static str, args: String, dst: usize, res: MRes, print_doc: Option<usize>, prefix: &str) {
        if let Some(old) = self.slots[dst].take() {
            self.note_free(dst, &old);
            drop(old);
        }
        if !res.is_ok() {
            self.error_results += 1;
        }
        let mut res = res;
        res.kind = kind;
        self.slots[dst] = Some(res);
        let r = self.slots[dst].as_ref().unwrap();
        let exp = match print_doc {
            Some(ds) => self.with_doc(ds, |d| fmt_result(kind, r, Some(d))),
            None => fmt_result(kind, r, None),
        };
        let text = if args.is_empty() { format!("{kind} {dst}") } else { format!("{kind} {dst} {args}") };
        self.emit(kind, text, format!("{prefix}{exp}"));
    }

    fn item(&self, s: usize, i: usize) -> Option<&It> {
        self.slots.get(s)?.as_ref()?.list().get(i)
    }

    pub fn with_doc<R>(&self, s: usize, f: impl FnOnce(&mut AutoCommit) -> R) -> R {
        match &self.item(s, 0).expect("doc slot").val {
            MVal::Doc(_, c) => f(&mut c.borrow_mut()),
            _ => panic!("harness: slot {s} is not a document"),
        }
    }
    fn doc_uid(&self, s: usize) -> u32 {
        match &self.item(s, 0).expect("doc slot").val {
            MVal::Doc(u, _) => *u,
            _ => 0,
        }
    }
    fn with_state<R>(&self, s: usize, f: impl FnOnce(&mut am::sync::State) -> R) -> R {
        match &self.item(s, 0).expect("state slot").val {
            MVal::State(c) => f(&mut c.borrow_mut()),
            _ => panic!("harness: slot {s} is not a sync state"),
        }
    }

    // ------------------------------------------------------------ selection
    /// slots whose first item is an accessible (unshared) document
    fn docs(&self) -> Vec<usize> {
        (0..NSLOT).filter(|s| self.item(*s, 0).map(|i| is_doc(i) && Rc::strong_count(i) == 1).unwrap_or(false)).collect()
    }
    fn all_docs(&self) -> usize {
        (0..NSLOT).filter(|s| self.item(*s, 0).map(|i| is_doc(i)).unwrap_or(false)).count()
    }
    fn states(&self) -> Vec<usize> {
        (0..NSLOT).filter(|s| self.item(*s, 0).map(|i| is_state(i) && Rc::strong_count(i) == 1).unwrap_or(false)).collect()
    }
    fn pick_doc(&self, sel: u8) -> Option<usize> {
        let d = self.docs();
        if d.is_empty() {
            None
        } else {
            Some(d[sel as usize % d.len()])
        }
    }
    /// destination: never a slot that owns a document or a sync state (those only go through `free`)
    fn pick_dst(&self, sel: u8, exclude: &[usize]) -> usize {
        let holds_owner = |s: usize| self.slots[s].as_ref().map(|r| r.list().iter().any(|i| is_doc(i) || is_state(i))).unwrap_or(false);
        let empty: Vec<usize> = (0..NSLOT).filter(|s| self.slots[*s].is_none() && !exclude.contains(s)).collect();
        // prefer empty slots three times out of four so that results accumulate
        if !empty.is_empty() && sel % 4 != 0 {
            return empty[(sel / 4) as usize % empty.len()];
        }
        let c: Vec<usize> = (0..NSLOT).filter(|s| !holds_owner(*s) && !exclude.contains(s)).collect();
        c[(sel / 4) as usize % c.len()]
    }
    /// (slot, item) pairs satisfying a predicate
    fn find_items(&self, p: impl Fn(&It, &MRes) -> bool) -> Vec<(usize, usize)> {
        let mut out = vec![];
        for s in 0..NSLOT {
            if let Some(r) = &self.slots[s] {
                for (i, it) in r.list().iter().enumerate() {
                    if p(it, r) {
                        out.push((s, i));
                    }
                }
            }
        }
        out
    }
    fn pick_item(&self, sel: u8, p: impl Fn(&It, &MRes) -> bool) -> Option<(usize, usize)> {
        let c = self.find_items(p);
        if c.is_empty() {
            None
        } else {
            Some(c[sel as usize % c.len()])
        }
    }
    /// object of the wanted type living in document `uid`; `None` in the token = AM_ROOT
    fn pick_obj(&self, uid: u32, want: Option<ObjType>, sel: u8) -> Option<(String, ObjId)> {
        let mut c: Vec<(String, ObjId)> = vec![];
        if want.is_none() || want == Some(ObjType::Map) {
            c.push(("R".into(), am::ROOT));
        }
        // one time in 16 an object id that belongs to another document (error path)
        let cross = sel % 16 == 15;
        for (s, i) in self.find_items(|it, r| {
            (cross || r.origin == Some(uid))
                && it.obj.is_some()
                && match &it.val {
                    MVal::Val(Value::Object(t)) => want.map(|w| w == *t).unwrap_or(true),
                    _ => false,
                }
        }) {
            c.push((format!("{s}.{i}"), self.item(s, i).unwrap().obj.clone().unwrap()));
        }
        if c.is_empty() {
            None
        } else {
            let k = (sel / 2) as usize % c.len();
            Some(c.swap_remove(k))
        }
    }
    /// heads argument: `-` or a slot of change hashes (rarely: any ok result => error path)
    fn pick_heads(&self, sel: u8) -> (String, Option<Result<Vec<ChangeHash>, ()>>) {
        if sel % 3 != 0 {
            return ("-".into(), None);
        }
        let any = sel % 48 == 0;
        let mut c = vec![];
        for s in 0..NSLOT {
            if let Some(r) = &self.slots[s] {
                if let Ok(items) = &r.items {
                    if items.is_empty() && self.avoid.empty_items {
                        continue;
                    }
                    let all = items.iter().all(|i| matches!(i.val, MVal::Hash(_)));
                    if all || any {
                        c.push(s);
                    }
                }
            }
        }
        if c.is_empty() {
            return ("-".into(), None);
        }
        let s = c[(sel / 3) as usize % c.len()];
        let items = self.slots[s].as_ref().unwrap().list();
        let mut v = vec![];
        for i in items {
            match &i.val {
                MVal::Hash(h) => v.push(*h),
                _ => return (s.to_string(), Some(Err(()))),
            }
        }
        (s.to_string(), Some(Ok(v)))
    }

    fn fresh_actor(&mut self) -> Vec<u8> {
        self.next_actor += 1;
        let n = self.next_actor;
        let mut v = vec![0xa0 | (n % 16) as u8, (n / 16) as u8];
        if n % 3 == 0 {
            v.push(0x5c);
        }
        v
    }

    fn value_of(op: &RawOp, allow_obj: bool) -> (String, Result<ScalarValue, ObjType>) {
        let t = op.c % if allow_obj { 12 } else { 9 };
        match t {
            0 => (format!("i:{}", op.v), Ok(ScalarValue::Int(op.v))),
            1 => (format!("u:{}", op.v as u64), Ok(ScalarValue::Uint(op.v as u64))),
            2 => {
                let f = if op.m % 2 == 0 { op.v as f64 / 8.0 } else { f64::from_bits(op.v as u64) };
                (format!("f:{:016x}", f.to_bits()), Ok(ScalarValue::F64(f)))
            }
            3 => (format!("b:{}", op.v & 1), Ok(ScalarValue::Boolean(op.v & 1 == 1))),
            4 => ("n".into(), Ok(ScalarValue::Null)),
            5 => {
                let s = TEXTS[op.m as usize % TEXTS.len()];
                (format!("s:{}", hexspan(s.as_bytes())), Ok(ScalarValue::Str(s.into())))
            }
            6 => {
                // documented precondition: 0 < count
                let n = 1 + (op.m as usize % 70);
                let b: Vec<u8> = (0..n).map(|i| (op.v as u8).wrapping_add(i as u8).wrapping_mul(31)).collect();
                (format!("y:{}", hex::encode(&b)), Ok(ScalarValue::Bytes(b)))
            }
            7 => (format!("c:{}", op.v), Ok(ScalarValue::counter(op.v))),
            8 => (format!("t:{}", op.v), Ok(ScalarValue::Timestamp(op.v))),
            9 => ("o:1".into(), Err(ObjType::List)),
            10 => ("o:2".into(), Err(ObjType::Map)),
            _ => ("o:3".into(), Err(ObjType::Text)),
        }
    }
}


// ==================================================================== op table
type OpFn = fn(&mut Model, &RawOp);
const OPS: &[(u16, OpFn)] = &[
    (2, Model::op_actor),
    (4, Model::op_create),
    (2, Model::op_clone),
    (3, Model::op_fork),
    (1, Model::op_getactor),
    (7, Model::op_commit),
    (1, Model::op_equal),
    (5, Model::op_heads),
    (2, Model::op_pending),
    (5, Model::op_save),
    (4, Model::op_load),
    (4, Model::op_merge),
    (6, Model::op_changes),
    (3, Model::op_apply),
    (10, Model::op_read_obj),
    (7, Model::op_splicetext),
    (2, Model::op_splice),
    (12, Model::op_mput),
    (4, Model::op_mmod),
    (7, Model::op_mread),
    (10, Model::op_lput),
    (4, Model::op_lmod),
    (6, Model::op_lread),
    (4, Model::op_mark),
    (12, Model::op_cursor),
    (3, Model::op_change_misc),
    (3, Model::op_syncinit),
    (10, Model::op_sync),
    (4, Model::op_sync_misc),
    (9, Model::op_free),
    (6, Model::op_show),
    (4, Model::op_cat),
    (3, Model::op_iter),
    (2, Model::op_eq),
    (3, Model::op_val),
];

impl Model {
    pub fn prelude(&mut self) {
        let op = RawOp { k: 0, dst: 1, a: 0, b: 0, c: 0, n: 0, m: 0, v: 0 };
        self.op_create(&op);
    }

    /// index into the op table a raw op selects (diagnostics)
    pub fn op_index(op: &RawOp) -> usize {
        let total: u32 = OPS.iter().map(|o| o.0 as u32).sum();
        let mut x = (op.k as u32 * total) >> 16;
        for (i, (w, _)) in OPS.iter().enumerate() {
            if x < *w as u32 {
                return i;
            }
            x -= *w as u32;
        }
        0
    }

    pub fn step(&mut self, op: &RawOp) {
        let total: u32 = OPS.iter().map(|o| o.0 as u32).sum();
        let mut x = (op.k as u32 * total) >> 16;
        for (w, f) in OPS {
            if x < *w as u32 {
                f(self, op);
                return;
            }
            x -= *w as u32;
        }
    }

    // ------------------------------------------------------------ actors / documents
    /// emits `actor <slot> <hex>` and returns the slot
    fn new_actor(&mut self, sel: u8, exclude: &[usize]) -> usize {
        let bytes = self.fresh_actor();
        let dst = self.pick_dst(sel, exclude);
        let res = MRes::one(plain(MVal::Actor(ActorId::from(bytes.clone()))));
        self.put("actor", hex::encode(&bytes), dst, res, None, "");
        dst
    }
    fn actor_at(&self, s: usize) -> ActorId {
        match &self.item(s, 0).unwrap().val {
            MVal::Actor(a) => a.clone(),
            _ => panic!("harness: not an actor"),
        }
    }
    fn new_doc_item(&mut self, obj: Option<ObjId>, d: AutoCommit) -> (u32, It) {
        let uid = self.next_uid;
        self.next_uid += 1;
        (uid, Rc::new(MItem { idx: None, obj, val: MVal::Doc(uid, RefCell::new(d)) }))
    }
    /// `setactor` on a freshly created document so that its future changes are deterministic
    fn set_fresh_actor(&mut self, docslot: usize, sel: u8) {
        let a = self.new_actor(sel, &[docslot]);
        let actor = self.actor_at(a);
        self.with_doc(docslot, |d| {
            d.set_actor(actor);
        });
        // the void result replaces the actor result: the actor id is freed right after the call
        self.put("setactor", format!("{docslot} {a}.0"), a, MRes::void(), None, "");
    }

    fn op_actor(&mut self, op: &RawOp) {
        if op.a % 2 == 0 {
            self.new_actor(op.dst, &[]);
        } else {
            let dst = self.pick_dst(op.dst, &[]);
            let (s, res) = match op.b % 8 {
                0 => ("zz".to_string(), MRes::err("invalid actor")),
                1 => ("abc".to_string(), MRes::err("invalid actor")),
                _ => {
                    let b = self.fresh_actor();
                    let h = hex::encode(&b);
                    let h = if op.b % 2 == 0 { h.to_uppercase() } else { h };
                    let r = match h.parse::<ActorId>() {
                        Ok(a) => MRes::one(plain(MVal::Actor(a))),
                        Err(_) => MRes::err("invalid actor"),
                    };
                    (h, r)
                }
            };
            self.put("actorstr", hexspan(s.as_bytes()), dst, res, None, "");
            // compare two actor ids when there are two
            let c = self.find_items(|i, _| matches!(i.val, MVal::Actor(_)));
            if c.len() >= 2 {
                let (x, y) = (c[op.n as usize % c.len()], c[op.m as usize % c.len()]);
                let ord = match (&self.item(x.0, x.1).unwrap().val, &self.item(y.0, y.1).unwrap().val) {
                    (MVal::Actor(p), MVal::Actor(q)) => p.cmp(q) as i32,
                    _ => 0,
                };
                self.emit("actorcmp", format!("actorcmp {}.{} {}.{}", x.0, x.1, y.0, y.1), format!("actorcmp {ord}"));
            }
        }
    }

    fn op_create(&mut self, op: &RawOp) {
        if self.all_docs() >= MAX_DOCS {
            return self.op_commit(op);
        }
        let a = self.new_actor(op.a, &[]);
        let dst = self.pick_dst(op.dst, &[a]);
        let d = AutoCommit::new().with_actor(self.actor_at(a));
        let (uid, it) = self.new_doc_item(Some(am::ROOT), d);
        self.put("create", format!("{a}.0"), dst, MRes::one(it).with_origin(Some(uid)), None, "");
    }

    fn op_clone(&mut self, op: &RawOp) {
        let Some(ds) = self.pick_doc(op.a) else { return self.op_create(op) };
        if self.all_docs() >= MAX_DOCS {
            return self.op_mput(op);
        }
        let dst = self.pick_dst(op.dst, &[]);
        let d = self.with_doc(ds, |d| d.clone());
        let (uid, it) = self.new_doc_item(Some(am::ROOT), d);
        self.put("clone", format!("{ds}"), dst, MRes::one(it).with_origin(Some(uid)), None, "");
        if op.b % 4 != 0 {
            self.set_fresh_actor(dst, op.c);
        }
    }

    fn op_fork(&mut self, op: &RawOp) {
        let Some(ds) = self.pick_doc(op.a) else { return self.op_create(op) };
        if self.all_docs() >= MAX_DOCS {
            return self.op_lput(op);
        }
        let (ht, heads) = self.pick_heads(op.b);
        let dst = self.pick_dst(op.dst, &[]);
        let res = match heads {
            None => {
                let d = self.with_doc(ds, |d| d.fork());
                let (uid, it) = self.new_doc_item(Some(am::ROOT), d);
                MRes::one(it).with_origin(Some(uid))
            }
            Some(Err(())) => MRes::err("invalid heads"),
            Some(Ok(h)) => match self.with_doc(ds, |d| d.fork_at(&h)) {
                Ok(d) => {
                    let (uid, it) = self.new_doc_item(None, d);
                    MRes::one(it).with_origin(Some(uid))
                }
                Err(e) => MRes::err(e),
            },
        };
        let ok = res.is_ok();
        self.put("fork", format!("{ds} {ht}"), dst, res, None, "");
        if ok {
            self.set_fresh_actor(dst, op.c);
        }
    }

    fn op_getactor(&mut self, op: &RawOp) {
        let Some(ds) = self.pick_doc(op.a) else { return };
        let dst = self.pick_dst(op.dst, &[]);
        let a = self.with_doc(ds, |d| d.get_actor().clone());
        let uid = self.doc_uid(ds);
        self.put("getactor", format!("{ds}"), dst, MRes::one(plain(MVal::Actor(a))).with_origin(Some(uid)), None, "");
    }

    fn op_commit(&mut self, op: &RawOp) {
        let Some(ds) = self.pick_doc(op.a) else {
            if self.all_docs() >= MAX_DOCS {
                return;
            }
            return self.op_create(op);
        };
        let dst = self.pick_dst(op.dst, &[]);
        let uid = self.doc_uid(ds);
        let msg: Option<&str> = match op.b % 4 {
            0 => None,
            1 => Some(""),
            2 => Some("msg"),
            _ => Some("héllo wörld"),
        };
        let time: Option<i64> = if op.c % 4 == 0 { None } else { Some(op.v) };
        let mut o = CommitOptions::default();
        if let Some(m) = msg {
            o.set_message(m);
        }
        if let Some(t) = time {
            o.set_time(t);
        }
        let args = format!(
            "{ds} {} {}",
            msg.map(|m| hexspan(m.as_bytes())).unwrap_or("~".into()),
            time.map(|t| t.to_string()).unwrap_or("~".into())
        );
        if op.n % 8 == 0 {
            let h = self.with_doc(ds, |d| d.empty_change(o));
            self.put("empty", args, dst, MRes::one(plain(MVal::Hash(h))).with_origin(Some(uid)), None, "");
        } else {
            let h = self.with_doc(ds, |d| d.commit_with(o));
            let it = match h {
                Some(h) => plain(MVal::Hash(h)),
                None => plain(MVal::Void),
            };
            self.put("commit", args, dst, MRes::one(it).with_origin(Some(uid)), None, "");
        }
    }

    fn op_equal(&mut self, op: &RawOp) {
        let d = self.docs();
        if d.len() < 2 {
            return;
        }
        let x = d[op.a as usize % d.len()];
        let y = d[op.b as usize % d.len()];
        if x == y {
            return;
        }
        let hx = self.with_doc(x, |d| d.get_heads());
        let hy = self.with_doc(y, |d| d.get_heads());
        self.emit("equal", format!("equal {x} {y}"), format!("equal {}", (hx == hy) as u8));
    }

    fn op_heads(&mut self, op: &RawOp) {
        let Some(ds) = self.pick_doc(op.a) else { return };
        let dst = self.pick_dst(op.dst, &[]);
        let uid = self.doc_uid(ds);
        let h = self.with_doc(ds, |d| d.get_heads());
        self.put("heads", format!("{ds}"), dst, MRes::ok(hashes(&h)).with_origin(Some(uid)), None, "");
    }

    fn op_pending(&mut self, op: &RawOp) {
        let Some(ds) = self.pick_doc(op.a) else { return };
        if op.b % 4 == 0 {
            let n = self.with_doc(ds, |d| d.rollback());
            self.emit("rollback", format!("rollback {ds}"), format!("rollback {n}"));
        } else {
            let n = self.with_doc(ds, |d| d.pending_ops());
            self.emit("pending", format!("pending {ds}"), format!("pending {n}"));
        }
    }

    fn op_save(&mut self, op: &RawOp) {
        let Some(ds) = self.pick_doc(op.a) else { return };
        let dst = self.pick_dst(op.dst, &[]);
        let uid = self.doc_uid(ds);
        let (kind, bytes) = if op.b % 5 < 3 { ("save", self.with_doc(ds, |d| d.save())) } else { ("saveinc", self.with_doc(ds, |d| d.save_incremental())) };
        self.put(kind, format!("{ds}"), dst, MRes::one(plain(scalar(ScalarValue::Bytes(bytes)))).with_origin(Some(uid)), None, "");
    }

    fn bytes_items(&self) -> Vec<(usize, usize)> {
        // documented precondition: at least one byte
        self.find_items(|i, _| matches!(&i.val, MVal::Val(Value::Scalar(s)) if matches!(s.as_ref(), ScalarValue::Bytes(b) if !b.is_empty())))
    }
    /// byte items, preferring (7 times out of 8) the ones produced by the given commands
    fn bytes_from(&self, kinds: &[&str], sel: u8) -> Option<(usize, usize)> {
        let all = self.bytes_items();
        let pref: Vec<(usize, usize)> = all.iter().copied().filter(|p| kinds.contains(&self.slots[p.0].as_ref().unwrap().kind)).collect();
        let c = if !pref.is_empty() && sel % 8 != 7 { pref } else { all };
        if c.is_empty() {
            None
        } else {
            Some(c[(sel / 8) as usize % c.len()])
        }
    }
    fn bytes_at(&self, p: (usize, usize)) -> Vec<u8> {
        match &self.item(p.0, p.1).unwrap().val {
            MVal::Val(Value::Scalar(s)) => match s.as_ref() {
                ScalarValue::Bytes(b) => b.clone(),
                _ => vec![],
            },
            _ => vec![],
        }
    }

    fn op_load(&mut self, op: &RawOp) {
        let Some(p) = self.bytes_from(&["save", "saveinc"], op.b) else { return self.op_save(op) };
        let data = self.bytes_at(p);
        let dst = self.pick_dst(op.dst, &[]);
        match op.c % 4 {
            0 | 1 => {
                if self.all_docs() >= MAX_DOCS {
                    return;
                }
                let res = match AutoCommit::load(&data) {
                    Ok(d) => {
                        let (uid, it) = self.new_doc_item(None, d);
                        MRes::one(it).with_origin(Some(uid))
                    }
                    Err(e) => MRes::err(e),
                };
                let ok = res.is_ok();
                self.put("load", format!("{}.{}", p.0, p.1), dst, res, None, "");
                if ok {
                    self.set_fresh_actor(dst, op.a);
                }
            }
            2 => {
                let Some(ds) = self.pick_doc(op.a) else { return };
                let uid = self.doc_uid(ds);
                let res = match self.with_doc(ds, |d| d.load_incremental(&data)) {
                    Ok(n) => MRes::one(plain(scalar(ScalarValue::Uint(n as u64)))),
                    Err(e) => MRes::err(e),
                };
                self.put("loadinc", format!("{ds} {}.{}", p.0, p.1), dst, res.with_origin(Some(uid)), None, "");
            }
            _ => {
                let res = match am::Automerge::load(&data) {
                    Ok(d) => MRes::ok(changes(d.get_changes(&[]).into_iter().collect())),
                    Err(e) => MRes::err(e),
                };
                self.put("chloaddoc", format!("{}.{}", p.0, p.1), dst, res, None, "");
            }
        }
    }

    fn op_merge(&mut self, op: &RawOp) {
        let d = self.docs();
        if d.len() < 2 {
            return self.op_fork(op);
        }
        let x = d[op.a as usize % d.len()];
        let mut y = d[op.b as usize % d.len()];
        if x == y {
            y = d[(op.b as usize + 1) % d.len()];
        }
        let dst = self.pick_dst(op.dst, &[]);
        let uid = self.doc_uid(x);
        let r = self.with_doc(x, |dx| self.with_doc(y, |dy| dx.merge(dy)));
        let res = match r {
            Ok(h) => MRes::ok(hashes(&h)),
            Err(e) => MRes::err(e),
        };
        self.put("merge", format!("{x} {y}"), dst, res.with_origin(Some(uid)), None, "");
    }
}

// ==================================================================== changes, objects, maps
fn heads_res<T>(h: &Option<Result<Vec<ChangeHash>, ()>>, none: impl FnOnce() -> T, some: impl FnOnce(&[ChangeHash]) -> T) -> Result<T, ()> {
    match h {
        None => Ok(none()),
        Some(Ok(v)) => Ok(some(v)),
        Some(Err(())) => Err(()),
    }
}
fn val_item(v: Value<'_>, id: ObjId) -> (MVal, ObjId) {
    (MVal::Val(v.into_owned()), id)
}

impl Model {
    fn op_changes(&mut self, op: &RawOp) {
        let Some(ds) = self.pick_doc(op.a) else { return };
        let dst = self.pick_dst(op.dst, &[]);
        let uid = self.doc_uid(ds);
        match op.b % 8 {
            0..=2 => {
                let (ht, heads) = self.pick_heads(op.c);
                let res = match heads {
                    None => MRes::ok(changes(self.with_doc(ds, |d| d.get_changes(&[])))),
                    Some(Ok(h)) => MRes::ok(changes(self.with_doc(ds, |d| d.get_changes(&h)))),
                    Some(Err(())) => MRes::err("heads"),
                };
                self.put("changes", format!("{ds} {ht}"), dst, res.with_origin(Some(uid)), None, "");
            }
            3 => {
                let (ht, heads) = self.pick_heads(op.c);
                let res = match heads {
                    None => MRes::ok(hashes(&self.with_doc(ds, |d| ReadDoc::get_missing_deps(&*d, &[])))),
                    Some(Ok(h)) => MRes::ok(hashes(&self.with_doc(ds, |d| ReadDoc::get_missing_deps(&*d, &h)))),
                    Some(Err(())) => MRes::err("heads"),
                };
                self.put("missing", format!("{ds} {ht}"), dst, res.with_origin(Some(uid)), None, "");
            }
            4 => {
                let d = self.docs();
                let y = d[op.c as usize % d.len()];
                if y == ds {
                    return;
                }
                let c = self.with_doc(ds, |a| self.with_doc(y, |b| a.get_changes_added(b)));
                self.put("added", format!("{ds} {y}"), dst, MRes::ok(changes(c)).with_origin(Some(uid)), None, "");
            }
            5 => {
                let c = self.with_doc(ds, |d| d.get_last_local_change());
                let it = match c {
                    Some(c) => plain(MVal::Change(RefCell::new(c))),
                    None => plain(MVal::Void),
                };
                self.put("lastlocal", format!("{ds}"), dst, MRes::one(it).with_origin(Some(uid)), None, "");
            }
            _ => {
                let Some(p) = self.pick_item(op.c, |i, _| matches!(i.val, MVal::Hash(_))) else { return };
                let h = match &self.item(p.0, p.1).unwrap().val {
                    MVal::Hash(h) => *h,
                    _ => return,
                };
                // like the C wrapper, this resolves to the `ReadDoc` method (`&self`: an open transaction stays open)
                let c = self.with_doc(ds, |d| ReadDoc::get_change_by_hash(&*d, &h));
                let it = match c {
                    Some(c) => plain(MVal::Change(RefCell::new(c))),
                    None => plain(MVal::Void),
                };
                self.put("bychange", format!("{ds} {}.{}", p.0, p.1), dst, MRes::one(it).with_origin(Some(uid)), None, "");
            }
        }
    }

    fn op_apply(&mut self, op: &RawOp) {
        let Some(ds) = self.pick_doc(op.a) else { return };
        // a result made of changes (rarely: any ok result => error path)
        let any = op.b % 16 == 0;
        let c: Vec<usize> = (0..NSLOT)
            .filter(|s| {
                self.slots[*s]
                    .as_ref()
                    .map(|r| {
                        r.is_ok()
                            && !(r.list().is_empty() && self.avoid.empty_items)
                            && (any || (!r.list().is_empty() && r.list().iter().all(|i| matches!(i.val, MVal::Change(_)))))
                            && !r.list().iter().any(|i| is_doc(i))
                    })
                    .unwrap_or(false)
            })
            .collect();
        if c.is_empty() {
            return self.op_changes(op);
        }
        let s = c[op.c as usize % c.len()];
        let mut v: Vec<Change> = vec![];
        let mut bad = false;
        for i in self.slots[s].as_ref().unwrap().list() {
            match &i.val {
                MVal::Change(c) => v.push(c.borrow().clone()),
                _ => bad = true,
            }
        }
        let dst = self.pick_dst(op.dst, &[]);
        let uid = self.doc_uid(ds);
        let res = if bad { MRes::err("not changes") } else { MRes::from_unit(self.with_doc(ds, |d| d.apply_changes(v))) };
        self.put("apply", format!("{ds} {s}"), dst, res.with_origin(Some(uid)), None, "");
    }

    /// keys / items / text / marks / size
    fn op_read_obj(&mut self, op: &RawOp) {
        let Some(ds) = self.pick_doc(op.a) else { return };
        let uid = self.doc_uid(ds);
        let kind = op.b % 10;
        let want = match kind {
            0 | 1 => Some(ObjType::Map),
            2..=4 => None,
            5 | 6 => Some(ObjType::Text),
            7 => Some(ObjType::Text),
            _ => None,
        };
        let want = if op.m % 16 == 0 { None } else { want };
        let Some((ot, obj)) = self.pick_obj(uid, want, op.c) else { return self.op_mput(op) };
        let (ht, heads) = self.pick_heads(op.n as u8);
        let dst = self.pick_dst(op.dst, &[]);
        let args = format!("{ds} {ot} {ht}");
        match kind {
            0 | 1 => {
                let r = self.with_doc(ds, |d| heads_res(&heads, || d.keys(&obj).collect::<Vec<_>>(), |h| d.keys_at(&obj, h).collect::<Vec<_>>()));
                let res = match r {
                    Ok(k) => MRes::ok(k.into_iter().map(|s| plain(scalar(ScalarValue::Str(s.into())))).collect()),
                    Err(()) => MRes::err("heads"),
                };
                self.put("keys", args, dst, res.with_origin(Some(uid)), Some(ds), "");
            }
            2..=4 => {
                let r = self.with_doc(ds, |d| {
                    heads_res(
                        &heads,
                        || d.values(&obj).map(|(v, id)| val_item(v, id)).collect::<Vec<_>>(),
                        |h| d.values_at(&obj, h).map(|(v, id)| val_item(v, id)).collect::<Vec<_>>(),
                    )
                });
                let res = match r {
                    Ok(v) => MRes::ok(v.into_iter().map(|(v, id)| exact(id, v)).collect()),
                    Err(()) => MRes::err("heads"),
                };
                self.put("items", args, dst, res.with_origin(Some(uid)), Some(ds), "");
            }
            5 | 6 => {
                let r = self.with_doc(ds, |d| heads_res(&heads, || d.text(&obj), |h| d.text_at(&obj, h)));
                let res = match r {
                    Ok(Ok(s)) => MRes::one(plain(scalar(ScalarValue::Str(s.into())))),
                    Ok(Err(e)) => MRes::err(e),
                    Err(()) => MRes::err("heads"),
                };
                self.put("text", args, dst, res.with_origin(Some(uid)), Some(ds), "");
            }
            7 => {
                let r = self.with_doc(ds, |d| heads_res(&heads, || d.marks(&obj), |h| d.marks_at(&obj, h)));
                let res = match r {
                    Ok(Ok(m)) => MRes::ok(m.into_iter().map(|m| plain(MVal::Mark(m))).collect()),
                    Ok(Err(e)) => MRes::err(e),
                    Err(()) => MRes::err("heads"),
                };
                self.put("marks", args, dst, res.with_origin(Some(uid)), Some(ds), "");
            }
            _ => {
                let n = self.with_doc(ds, |d| heads_res(&heads, || d.length(&obj), |h| d.length_at(&obj, h))).unwrap_or(0);
                let t = self.with_doc(ds, |d| d.object_type(&obj).map(objtype_num).unwrap_or(0));
                self.emit("size", format!("size {ds} {ot} {ht}"), format!("size {n} type {t}"));
            }
        }
    }

    /// position inside the documented precondition `0 <= pos <= size || pos == SIZE_MAX`
    fn pos_token(sel: u16, len: usize) -> (String, usize) {
        if sel % 8 == 7 {
            ("max".into(), usize::MAX)
        } else {
            let p = (sel / 8) as usize % (len + 1);
            (p.to_string(), p)
        }
    }

    fn op_splicetext(&mut self, op: &RawOp) {
        let Some(ds) = self.pick_doc(op.a) else { return };
        let uid = self.doc_uid(ds);
        let want = if op.m % 32 == 0 { None } else { Some(ObjType::Text) };
        let Some((ot, obj)) = self.pick_obj(uid, want, op.c) else {
            let mut o2 = op.clone();
            o2.c = 11;
            return self.op_mput(&o2);
        };
        let len = self.with_doc(ds, |d| d.length(&obj));
        let (pt, pos) = Self::pos_token(op.n, len);
        let pos = pos.min(len);
        let del: isize = match op.b % 4 {
            0 | 1 => 0,
            2 => (op.v.unsigned_abs() as usize % (len - pos + 1)) as isize,
            _ => -((op.v.unsigned_abs() as usize % (pos + 1)) as isize),
        };
        let text = if op.b % 8 == 7 { "" } else { TEXTS[op.m as usize % TEXTS.len()] };
        let dst = self.pick_dst(op.dst, &[]);
        let res = MRes::from_unit(self.with_doc(ds, |d| d.splice_text(&obj, pos, del, text)));
        self.put("splicetext", format!("{ds} {ot} {pt} {del} {}", hexspan(text.as_bytes())), dst, res.with_origin(Some(uid)), Some(ds), "");
    }

    fn op_splice(&mut self, op: &RawOp) {
        let Some(ds) = self.pick_doc(op.a) else { return };
        let uid = self.doc_uid(ds);
        let Some((ot, obj)) = self.pick_obj(uid, Some(ObjType::List), op.c) else {
            let mut o2 = op.clone();
            o2.c = 9;
            return self.op_mput(&o2);
        };
        // values: a result whose items are all scalars (AMitemFrom*, get results, ...)
        let c: Vec<usize> = (0..NSLOT)
            .filter(|s| {
                self.slots[*s]
                    .as_ref()
                    .map(|r| r.is_ok() && !r.list().is_empty() && r.list().iter().all(|i| matches!(i.val, MVal::Val(Value::Scalar(_)))))
                    .unwrap_or(false)
            })
            .collect();
        let (vt, vals): (String, Vec<ScalarValue>) = if c.is_empty() || op.b % 8 == 0 {
            if self.avoid.empty_items {
                return;
            }
            ("-".into(), vec![])
        } else {
            let s = c[op.b as usize % c.len()];
            let v = self.slots[s]
                .as_ref()
                .unwrap()
                .list()
                .iter()
                .filter_map(|i| match &i.val {
                    MVal::Val(Value::Scalar(s)) => Some(s.as_ref().clone()),
                    _ => None,
                })
                .collect();
            (s.to_string(), v)
        };
        let len = self.with_doc(ds, |d| d.length(&obj));
        let (pt, pos) = Self::pos_token(op.n, len);
        let pos = pos.min(len);
        let del: isize = if op.m % 2 == 0 { 0 } else { (op.v.unsigned_abs() as usize % (len - pos + 1)) as isize };
        let dst = self.pick_dst(op.dst, &[]);
        let res = MRes::from_unit(self.with_doc(ds, |d| d.splice(&obj, pos, del, vals)));
        self.put("splice", format!("{ds} {ot} {pt} {del} {vt}"), dst, res.with_origin(Some(uid)), Some(ds), "");
    }

    fn op_mput(&mut self, op: &RawOp) {
        let Some(ds) = self.pick_doc(op.a) else { return self.op_create(op) };
        let uid = self.doc_uid(ds);
        let want = if op.m % 64 == 63 { None } else { Some(ObjType::Map) };
        let Some((ot, obj)) = self.pick_obj(uid, want, op.b) else { return };
        let key = KEYS[op.n as usize % KEYS.len()];
        let (vt, val) = Self::value_of(op, true);
        let dst = self.pick_dst(op.dst, &[]);
        let res = match val {
            Ok(s) => MRes::from_unit(self.with_doc(ds, |d| d.put(&obj, key, s))),
            Err(t) => match self.with_doc(ds, |d| d.put_object(&obj, key, t)) {
                Ok(id) => MRes::one(indexed(Idx::Key(key.into()), id, MVal::Val(Value::Object(t)))),
                Err(e) => MRes::err(e),
            },
        };
        self.put("mput", format!("{ds} {ot} {} {vt}", hexspan(key.as_bytes())), dst, res.with_origin(Some(uid)), Some(ds), "");
    }

    fn op_mmod(&mut self, op: &RawOp) {
        let Some(ds) = self.pick_doc(op.a) else { return };
        let uid = self.doc_uid(ds);
        let Some((ot, obj)) = self.pick_obj(uid, Some(ObjType::Map), op.b) else { return };
        let key = self.existing_key(ds, &obj, op.n);
        let dst = self.pick_dst(op.dst, &[]);
        if op.c % 2 == 0 {
            let res = MRes::from_unit(self.with_doc(ds, |d| d.delete(&obj, key.as_str())));
            self.put("mdel", format!("{ds} {ot} {}", hexspan(key.as_bytes())), dst, res.with_origin(Some(uid)), Some(ds), "");
        } else {
            let by = op.v % 1000;
            let res = MRes::from_unit(self.with_doc(ds, |d| d.increment(&obj, key.as_str(), by)));
            self.put("minc", format!("{ds} {ot} {} {by}", hexspan(key.as_bytes())), dst, res.with_origin(Some(uid)), Some(ds), "");
        }
    }

    /// mostly a key that exists in the map, sometimes one from the pool
    fn existing_key(&self, ds: usize, obj: &ObjId, sel: u16) -> String {
        let keys: Vec<String> = self.with_doc(ds, |d| d.keys(obj).collect());
        if keys.is_empty() || sel % 5 == 0 {
            KEYS[sel as usize % KEYS.len()].to_string()
        } else {
            keys[(sel / 5) as usize % keys.len()].clone()
        }
    }

    fn op_mread(&mut self, op: &RawOp) {
        let Some(ds) = self.pick_doc(op.a) else { return };
        let uid = self.doc_uid(ds);
        let want = if op.m % 32 == 31 { None } else { Some(ObjType::Map) };
        let Some((ot, obj)) = self.pick_obj(uid, want, op.b) else { return };
        let key = self.existing_key(ds, &obj, op.n);
        let (ht, heads) = self.pick_heads(op.m as u8);
        let dst = self.pick_dst(op.dst, &[]);
        match op.c % 7 {
            0..=2 => {
                let r = self.with_doc(ds, |d| {
                    heads_res(
                        &heads,
                        || d.get(&obj, key.as_str()).map(|o| o.map(|(v, id)| val_item(v, id))),
                        |h| d.get_at(&obj, key.as_str(), h).map(|o| o.map(|(v, id)| val_item(v, id))),
                    )
                });
                let res = match r {
                    Ok(Ok(Some((v, id)))) => MRes::one(indexed(Idx::Key(key.clone()), id, v)),
                    Ok(Ok(None)) => MRes::void(),
                    Ok(Err(e)) => MRes::err(e),
                    Err(()) => MRes::err("heads"),
                };
                self.put("mget", format!("{ds} {ot} {} {ht}", hexspan(key.as_bytes())), dst, res.with_origin(Some(uid)), Some(ds), "");
            }
            3 | 4 => {
                let r = self.with_doc(ds, |d| {
                    heads_res(
                        &heads,
                        || d.get_all(&obj, key.as_str()).map(|v| v.into_iter().map(|(v, id)| val_item(v, id)).collect::<Vec<_>>()),
                        |h| d.get_all_at(&obj, key.as_str(), h).map(|v| v.into_iter().map(|(v, id)| val_item(v, id)).collect::<Vec<_>>()),
                    )
                });
                let res = match r {
                    Ok(Ok(v)) => MRes::ok(v.into_iter().map(|(v, id)| exact(id, v)).collect()),
                    Ok(Err(e)) => MRes::err(e),
                    Err(()) => MRes::err("heads"),
                };
                self.put("mgetall", format!("{ds} {ot} {} {ht}", hexspan(key.as_bytes())), dst, res.with_origin(Some(uid)), Some(ds), "");
            }
            _ => {
                // begin / end: NULL span = unbounded
                let b: Option<String> = if op.v % 3 == 0 { None } else { Some(KEYS[op.v.unsigned_abs() as usize % KEYS.len()].to_string()) };
                let e: Option<String> = if op.v % 5 == 0 { None } else { Some(self.existing_key(ds, &obj, op.n.wrapping_add(3))) };
                let tok = |o: &Option<String>| o.as_ref().map(|s| hexspan(s.as_bytes())).unwrap_or("~".into());
                let args = format!("{ds} {ot} {} {} {ht}", tok(&b), tok(&e));
                let res = if matches!(heads, Some(Err(()))) {
                    MRes::err("heads")
                } else if matches!((&b, &e), (Some(b), Some(e)) if b > e) {
                    MRes::err("Invalid range")
                } else {
                    let hv: Option<Vec<ChangeHash>> = heads.clone().map(|h| h.unwrap());
                    let items = self.with_doc(ds, |d| {
                        fn coll(it: am::iter::MapRange<'_>) -> Vec<It> {
                            it.map(|i| indexed(Idx::Key(i.key.to_string()), i.id(), MVal::Val(Value::from(i.value.clone()).into_owned()))).collect()
                        }
                        match (b.clone(), e.clone(), &hv) {
                            (Some(b), Some(e), None) => coll(d.map_range(&obj, b..e)),
                            (Some(b), None, None) => coll(d.map_range(&obj, b..)),
                            (None, Some(e), None) => coll(d.map_range(&obj, ..e)),
                            (None, None, None) => coll(d.map_range(&obj, ..)),
                            (Some(b), Some(e), Some(h)) => coll(d.map_range_at(&obj, b..e, h)),
                            (Some(b), None, Some(h)) => coll(d.map_range_at(&obj, b.., h)),
                            (None, Some(e), Some(h)) => coll(d.map_range_at(&obj, ..e, h)),
                            (None, None, Some(h)) => coll(d.map_range_at(&obj, .., h)),
                        }
                    });
                    MRes::ok(items)
                };
                self.put("mrange", args, dst, res.with_origin(Some(uid)), Some(ds), "");
            }
        }
    }
}

// ==================================================================== lists, marks, cursors
/// automerge-c's `adjust!`: an empty list can only be inserted into; SIZE_MAX = last / one past last
fn adjust(pos: usize, insert: bool, len: usize) -> Result<(usize, bool), ()> {
    let insert = insert || len == 0;
    let end = if insert { len } else { len - 1 };
    if pos > end && pos != usize::MAX {
        return Err(());
    }
    Ok((pos.min(end), insert))
}

impl Model {
    fn list_obj(&mut self, op: &RawOp, ds: usize, sel: u8) -> Option<(String, ObjId)> {
        let uid = self.doc_uid(ds);
        let want = if op.m % 64 == 62 { None } else { Some(ObjType::List) };
        self.pick_obj(uid, want, sel)
    }

    fn op_lput(&mut self, op: &RawOp) {
        let Some(ds) = self.pick_doc(op.a) else { return self.op_create(op) };
        let uid = self.doc_uid(ds);
        let Some((ot, obj)) = self.list_obj(op, ds, op.b) else {
            let mut o2 = op.clone();
            o2.c = 9;
            return self.op_mput(&o2);
        };
        let len = self.with_doc(ds, |d| d.length(&obj));
        let (pt, pos) = Self::pos_token(op.n, len);
        let ins = op.m % 4 != 0;
        let (vt, val) = Self::value_of(op, true);
        let dst = self.pick_dst(op.dst, &[]);
        let res = match adjust(pos, ins, len) {
            Err(()) => MRes::err("Invalid pos"),
            Ok((pos, insert)) => match val {
                Ok(s) => MRes::from_unit(self.with_doc(ds, |d| if insert { d.insert(&obj, pos, s) } else { d.put(&obj, pos, s) })),
                Err(t) => match self.with_doc(ds, |d| if insert { d.insert_object(&obj, pos, t) } else { d.put_object(&obj, pos, t) }) {
                    Ok(id) => MRes::one(indexed(Idx::Pos(pos), id, MVal::Val(Value::Object(t)))),
                    Err(e) => MRes::err(e),
                },
            },
        };
        self.put("lput", format!("{ds} {ot} {pt} {} {vt}", ins as u8), dst, res.with_origin(Some(uid)), Some(ds), "");
    }

    fn op_lmod(&mut self, op: &RawOp) {
        let Some(ds) = self.pick_doc(op.a) else { return };
        let uid = self.doc_uid(ds);
        let Some((ot, obj)) = self.list_obj(op, ds, op.b) else { return };
        let len = self.with_doc(ds, |d| d.length(&obj));
        let (pt, pos) = Self::pos_token(op.n, len);
        let dst = self.pick_dst(op.dst, &[]);
        let adj = adjust(pos, false, len);
        if op.c % 2 == 0 {
            let res = match adj {
                Err(()) => MRes::err("Invalid pos"),
                Ok((p, _)) => MRes::from_unit(self.with_doc(ds, |d| d.delete(&obj, p))),
            };
            self.put("ldel", format!("{ds} {ot} {pt}"), dst, res.with_origin(Some(uid)), Some(ds), "");
        } else {
            let by = op.v % 1000;
            let res = match adj {
                Err(()) => MRes::err("Invalid pos"),
                Ok((p, _)) => MRes::from_unit(self.with_doc(ds, |d| d.increment(&obj, p, by))),
            };
            self.put("linc", format!("{ds} {ot} {pt} {by}"), dst, res.with_origin(Some(uid)), Some(ds), "");
        }
    }

    fn op_lread(&mut self, op: &RawOp) {
        let Some(ds) = self.pick_doc(op.a) else { return };
        let uid = self.doc_uid(ds);
        let Some((ot, obj)) = self.list_obj(op, ds, op.b) else { return };
        let len = self.with_doc(ds, |d| d.length(&obj));
        let (pt, pos) = Self::pos_token(op.n, len);
        let (ht, heads) = self.pick_heads(op.m as u8);
        let dst = self.pick_dst(op.dst, &[]);
        match op.c % 6 {
            0..=2 => {
                let res = match adjust(pos, false, len) {
                    Err(()) => MRes::err("Invalid pos"),
                    Ok((p, _)) => {
                        let r = self.with_doc(ds, |d| {
                            heads_res(
                                &heads,
                                || d.get(&obj, p).map(|o| o.map(|(v, id)| val_item(v, id))),
                                |h| d.get_at(&obj, p, h).map(|o| o.map(|(v, id)| val_item(v, id))),
                            )
                        });
                        match r {
                            Ok(Ok(Some((v, id)))) => MRes::one(indexed(Idx::Pos(p), id, v)),
                            Ok(Ok(None)) => MRes::void(),
                            Ok(Err(e)) => MRes::err(e),
                            Err(()) => MRes::err("heads"),
                        }
                    }
                };
                self.put("lget", format!("{ds} {ot} {pt} {ht}"), dst, res.with_origin(Some(uid)), Some(ds), "");
            }
            3 => {
                let res = match adjust(pos, false, len) {
                    Err(()) => MRes::err("Invalid pos"),
                    Ok((p, _)) => {
                        let r = self.with_doc(ds, |d| {
                            heads_res(
                                &heads,
                                || d.get_all(&obj, p).map(|v| v.into_iter().map(|(v, id)| val_item(v, id)).collect::<Vec<_>>()),
                                |h| d.get_all_at(&obj, p, h).map(|v| v.into_iter().map(|(v, id)| val_item(v, id)).collect::<Vec<_>>()),
                            )
                        });
                        match r {
                            Ok(Ok(v)) => MRes::ok(v.into_iter().map(|(v, id)| exact(id, v)).collect()),
                            Ok(Err(e)) => MRes::err(e),
                            Err(()) => MRes::err("heads"),
                        }
                    }
                };
                self.put("lgetall", format!("{ds} {ot} {pt} {ht}"), dst, res.with_origin(Some(uid)), Some(ds), "");
            }
            _ => {
                let b = (op.n / 8) as usize % (len + 2);
                let (et, e) = if op.v % 4 == 0 { ("max".to_string(), usize::MAX) } else { let e = op.v.unsigned_abs() as usize % (len + 3); (e.to_string(), e) };
                let res = if b > e {
                    MRes::err("Invalid range")
                } else if matches!(heads, Some(Err(()))) {
                    MRes::err("heads")
                } else {
                    let hv: Option<Vec<ChangeHash>> = heads.clone().map(|h| h.unwrap());
                    let items = self.with_doc(ds, |d| {
                        fn coll(it: am::iter::ListRange<'_>) -> Vec<It> {
                            it.map(|i| indexed(Idx::Pos(i.index), i.id(), MVal::Val(Value::from(i.value.clone()).into_owned()))).collect()
                        }
                        match &hv {
                            None => coll(d.list_range(&obj, b..e)),
                            Some(h) => coll(d.list_range_at(&obj, b..e, h)),
                        }
                    });
                    MRes::ok(items)
                };
                self.put("lrange", format!("{ds} {ot} {b} {et} {ht}"), dst, res.with_origin(Some(uid)), Some(ds), "");
            }
        }
    }

    fn op_mark(&mut self, op: &RawOp) {
        let Some(ds) = self.pick_doc(op.a) else { return };
        let uid = self.doc_uid(ds);
        let Some((ot, obj)) = self.pick_obj(uid, Some(ObjType::Text), op.b) else {
            let mut o2 = op.clone();
            o2.c = 11;
            return self.op_mput(&o2);
        };
        let len = self.with_doc(ds, |d| d.length(&obj));
        if len == 0 {
            return self.op_splicetext(op);
        }
        // documented precondition: start < end (and inside the text)
        let start = op.n as usize % len;
        let end = start + 1 + (op.m as usize % (len - start));
        let name = NAMES[op.v.unsigned_abs() as usize % NAMES.len()];
        let en = if op.c % 16 == 15 { 0 } else { 1 + (op.c % 4) as i32 };
        let expand = match en {
            1 => Some(ExpandMark::None),
            2 => Some(ExpandMark::Before),
            3 => Some(ExpandMark::After),
            4 => Some(ExpandMark::Both),
            _ => None,
        };
        if op.dst % 4 == 3 {
            let dst = self.pick_dst(op.dst, &[]);
            let res = match expand {
                None => MRes::err("expand"),
                Some(x) => MRes::from_unit(self.with_doc(ds, |d| d.unmark(&obj, name, start, end, x))),
            };
            self.put("unmark", format!("{ds} {ot} {start} {end} {en} {}", hexspan(name.as_bytes())), dst, res.with_origin(Some(uid)), Some(ds), "");
            return;
        }
        // the value is handed over as an item of another result
        let (vt, val) = Self::value_of(op, false);
        // must not displace the result that owns the object id
        let owner: Vec<usize> = ot.split('.').next().and_then(|x| x.parse().ok()).into_iter().collect();
        let vs = self.pick_dst(op.a, &owner);
        let sv = val.ok().unwrap();
        self.put("val", vt, vs, MRes::one(plain(scalar(sv.clone()))), None, "");
        let dst = self.pick_dst(op.dst, &[vs]);
        let res = match expand {
            None => MRes::err("expand"),
            Some(x) => MRes::from_unit(self.with_doc(ds, |d| d.mark(&obj, Mark::new(name.to_string(), sv, start, end), x))),
        };
        self.put("mark", format!("{ds} {ot} {start} {end} {en} {} {vs}.0", hexspan(name.as_bytes())), dst, res.with_origin(Some(uid)), Some(ds), "");
    }

    /// token of a live item that carries `obj` as the id of an object
    fn token_for_obj(&self, obj: &ObjId) -> Option<String> {
        if *obj == am::ROOT {
            return Some("R".into());
        }
        self.find_items(|i, _| i.obj.as_ref() == Some(obj) && matches!(i.val, MVal::Val(Value::Object(_)))).first().map(|(s, i)| format!("{s}.{i}"))
    }

    fn op_cursor(&mut self, op: &RawOp) {
        let cursors = self.find_items(|i, _| matches!(i.val, MVal::Cursor(_)));
        let sub = if cursors.is_empty() { 0 } else { op.c % 10 };
        match sub {
            0..=2 => {
                let Some(ds) = self.pick_doc(op.a) else { return };
                let uid = self.doc_uid(ds);
                let want = if op.m % 2 == 0 { ObjType::Text } else { ObjType::List };
                let Some((ot, obj)) = self.pick_obj(uid, Some(want), op.b & !1) else { return self.op_splicetext(op) };
                let len = self.with_doc(ds, |d| d.length(&obj));
                if len == 0 {
                    return self.op_splicetext(op);
                }
                // documented precondition: position < size
                let pos = op.n as usize % len;
                let ht = "-";
                let dst = self.pick_dst(op.dst, &[]);
                let res = match self.with_doc(ds, |d| d.get_cursor(&obj, pos, None)) {
                    Ok(c) => {
                        self.cursor_home.push((c.to_string(), uid, obj.clone()));
                        MRes::one(plain(MVal::Cursor(c)))
                    }
                    Err(e) => MRes::err(e),
                };
                self.put("cursor", format!("{ds} {ot} {pos} {ht}"), dst, res.with_origin(Some(uid)), Some(ds), "");
            }
            3 | 4 | 8 | 9 => {
                let p = cursors[op.b as usize % cursors.len()];
                let cur = match &self.item(p.0, p.1).unwrap().val {
                    MVal::Cursor(c) => c.clone(),
                    _ => return,
                };
                let Some((_, uid, obj)) = self.cursor_home.iter().find(|h| h.0 == cur.to_string()).cloned() else { return };
                let Some(ds) = self.docs().into_iter().find(|s| self.doc_uid(*s) == uid) else { return };
                let Some(ot) = self.token_for_obj(&obj) else { return };
                let dst = self.pick_dst(op.dst, &[]);
                let res = match self.with_doc(ds, |d| d.get_cursor_position(&obj, &cur, None)) {
                    Ok(n) => MRes::one(plain(scalar(ScalarValue::Uint(n as u64)))),
                    Err(e) => MRes::err(e),
                };
                self.put("curpos", format!("{ds} {ot} {}.{} -", p.0, p.1), dst, res.with_origin(Some(uid)), Some(ds), "");
            }
            5 => {
                let p = cursors[op.b as usize % cursors.len()];
                let cur = match &self.item(p.0, p.1).unwrap().val {
                    MVal::Cursor(c) => c.clone(),
                    _ => return,
                };
                let dst = self.pick_dst(op.dst, &[]);
                if op.m % 2 == 0 {
                    let res = match Cursor::try_from(cur.to_bytes().as_slice()) {
                        Ok(c) => MRes::one(plain(MVal::Cursor(c))),
                        Err(e) => MRes::err(e),
                    };
                    self.put("curfrombytes", format!("{}.{}", p.0, p.1), dst, res, None, "");
                } else {
                    let res = match Cursor::try_from(cur.to_string().as_str()) {
                        Ok(c) => MRes::one(plain(MVal::Cursor(c))),
                        Err(e) => MRes::err(e),
                    };
                    self.put("curfromstr", format!("{}.{}", p.0, p.1), dst, res, None, "");
                }
            }
            6 => {
                let p = cursors[op.b as usize % cursors.len()];
                let q = cursors[op.n as usize % cursors.len()];
                let eq = match (&self.item(p.0, p.1).unwrap().val, &self.item(q.0, q.1).unwrap().val) {
                    (MVal::Cursor(a), MVal::Cursor(b)) => a == b,
                    _ => false,
                };
                self.emit("cureq", format!("cureq {}.{} {}.{}", p.0, p.1, q.0, q.1), format!("cureq {}", eq as u8));
            }
            _ => {
                if self.avoid.cursor_span {
                    return;
                }
                let p = cursors[op.b as usize % cursors.len()];
                let cur = match &self.item(p.0, p.1).unwrap().val {
                    MVal::Cursor(c) => c.clone(),
                    _ => return,
                };
                let (b, s) = (hexspan(&cur.to_bytes()), text_escape(&cur.to_string()));
                self.emit("curhold", format!("curhold {}.{}", p.0, p.1), format!("curhold {b} {s} {b} {s}"));
            }
        }
    }

    fn op_change_misc(&mut self, op: &RawOp) {
        let Some(p) = self.pick_item(op.b, |i, _| matches!(i.val, MVal::Change(_)) && Rc::strong_count(i) == 1) else { return self.op_changes(op) };
        let MVal::Change(cell) = &self.item(p.0, p.1).unwrap().val else { return };
        if op.c % 2 == 0 {
            let raw = cell.borrow().raw_bytes().to_vec();
            let res = match Change::from_bytes(raw) {
                Ok(c) => MRes::one(plain(MVal::Change(RefCell::new(c)))),
                Err(e) => MRes::err(e),
            };
            let dst = self.pick_dst(op.dst, &[]);
            self.put("chfrombytes", format!("{}.{}", p.0, p.1), dst, res, None, "");
        } else {
            let b = {
                let mut c = cell.borrow_mut();
                let _ = c.bytes();
                blob(c.raw_bytes())
            };
            self.emit("chcompress", format!("chcompress {}.{}", p.0, p.1), format!("chcompress {b}"));
        }
    }
}

// ==================================================================== sync, result management
impl Model {
    fn op_syncinit(&mut self, op: &RawOp) {
        if self.states().len() >= MAX_STATES {
            return self.op_sync(op);
        }
        if self.owner_slots() >= 9 {
            return;
        }
        let dst = self.pick_dst(op.dst, &[]);
        self.put("syncinit", String::new(), dst, MRes::one(plain(MVal::State(RefCell::new(am::sync::State::new())))), None, "");
    }

    fn op_sync(&mut self, op: &RawOp) {
        let st = self.states();
        if st.is_empty() {
            return self.op_syncinit(op);
        }
        let Some(ds) = self.pick_doc(op.a) else { return };
        let uid = self.doc_uid(ds);
        let ss = st[op.b as usize % st.len()];
        let msgs = self.find_items(|i, _| matches!(i.val, MVal::Msg(_)));
        let dst = self.pick_dst(op.dst, &[]);
        if msgs.is_empty() || op.c % 2 == 0 {
            let m = self.with_doc(ds, |d| self.with_state(ss, |s| d.sync().generate_sync_message(s)));
            let it = match m {
                Some(m) => plain(MVal::Msg(m)),
                None => plain(MVal::Void),
            };
            self.put("gen", format!("{ds} {ss}"), dst, MRes::one(it).with_origin(Some(uid)), None, "");
        } else {
            // prefer the most recently generated messages
            let p = msgs[msgs.len() - 1 - (op.n as usize % msgs.len().min(3))];
            let m = match &self.item(p.0, p.1).unwrap().val {
                MVal::Msg(m) => m.clone(),
                _ => return,
            };
            let r = self.with_doc(ds, |d| self.with_state(ss, |s| d.sync().receive_sync_message(s, m)));
            self.put("recv", format!("{ds} {ss} {}.{}", p.0, p.1), dst, MRes::from_unit(r).with_origin(Some(uid)), None, "");
        }
    }

    fn op_sync_misc(&mut self, op: &RawOp) {
        let st = self.states();
        let msgs = self.find_items(|i, _| matches!(i.val, MVal::Msg(_)));
        let dst = self.pick_dst(op.dst, &[]);
        match op.c % 8 {
            0 if !msgs.is_empty() => {
                let p = msgs[op.b as usize % msgs.len()];
                let MVal::Msg(m) = &self.item(p.0, p.1).unwrap().val else { return };
                let b = m.clone().encode();
                self.put("msgenc", format!("{}.{}", p.0, p.1), dst, MRes::one(plain(scalar(ScalarValue::Bytes(b)))), None, "");
            }
            1 | 2 => {
                let want: &[&str] = if op.c % 8 == 1 { &["msgenc"] } else { &["stenc"] };
                let Some(p) = self.bytes_from(want, op.b) else { return };
                let data = self.bytes_at(p);
                if op.c % 8 == 1 {
                    let res = match am::sync::Message::decode(&data) {
                        Ok(m) => MRes::one(plain(MVal::Msg(m))),
                        Err(e) => MRes::err(e),
                    };
                    self.put("msgdec", format!("{}.{}", p.0, p.1), dst, res, None, "");
                } else {
                    if self.states().len() >= MAX_STATES + 2 {
                        return;
                    }
                    let res = match am::sync::State::decode(&data) {
                        Ok(s) => MRes::one(plain(MVal::State(RefCell::new(s)))),
                        Err(e) => MRes::err(e),
                    };
                    self.put("stdec", format!("{}.{}", p.0, p.1), dst, res, None, "");
                }
            }
            3 if !st.is_empty() => {
                let ss = st[op.b as usize % st.len()];
                let b = self.with_state(ss, |s| s.encode());
                self.put("stenc", format!("{ss}"), dst, MRes::one(plain(scalar(ScalarValue::Bytes(b)))), None, "");
            }
            4 if st.len() >= 2 => {
                let (x, y) = (st[op.b as usize % st.len()], st[op.n as usize % st.len()]);
                if x == y {
                    return;
                }
                let eq = self.with_state(x, |a| self.with_state(y, |b| *a == *b));
                self.emit("steq", format!("steq {x} {y}"), format!("steq {}", eq as u8));
            }
            5 if !st.is_empty() => {
                let ss = st[op.b as usize % st.len()];
                let th = self.with_state(ss, |s| s.their_heads.clone());
                let prefix = format!("has={} ", th.is_some() as u8);
                self.put("theirheads", format!("{ss}"), dst, MRes::ok(hashes(&th.unwrap_or_default())), None, &prefix);
            }
            6 if !st.is_empty() => {
                let ss = st[op.b as usize % st.len()];
                let h = self.with_state(ss, |s| s.shared_heads.clone());
                self.put("sharedheads", format!("{ss}"), dst, MRes::ok(hashes(&h)), None, "");
            }
            7 if !msgs.is_empty() => {
                let p = msgs[op.b as usize % msgs.len()];
                let MVal::Msg(m) = &self.item(p.0, p.1).unwrap().val else { return };
                let h = m.heads.clone();
                self.put("msgheads", format!("{}.{}", p.0, p.1), dst, MRes::ok(hashes(&h)), None, "");
            }
            _ => {}
        }
    }

    fn owner_slots(&self) -> usize {
        (0..NSLOT).filter(|s| self.slots[*s].as_ref().map(|r| r.list().iter().any(|i| is_doc(i) || is_state(i))).unwrap_or(false)).count()
    }

    fn op_free(&mut self, op: &RawOp) {
        let owners = op.c % 8 == 0;
        let c: Vec<usize> = (0..NSLOT)
            .filter(|s| self.slots[*s].as_ref().map(|r| owners || !r.list().iter().any(|i| is_doc(i) || is_state(i))).unwrap_or(false))
            .collect();
        if c.is_empty() {
            return;
        }
        let s = c[op.a as usize % c.len()];
        let old = self.slots[s].take().unwrap();
        self.note_free(s, &old);
        drop(old);
        self.emit("free", format!("free {s}"), "free".into());
    }

    /// slot of the accessible document a result came from
    fn origin_doc(&self, r: &MRes) -> Option<usize> {
        let u = r.origin?;
        self.docs().into_iter().find(|s| self.doc_uid(*s) == u)
    }

    fn op_show(&mut self, op: &RawOp) {
        let c: Vec<usize> = (0..NSLOT).filter(|s| self.slots[*s].is_some()).collect();
        if c.is_empty() {
            return;
        }
        let s = c[op.a as usize % c.len()];
        let r = self.slots[s].as_ref().unwrap();
        let ds = if op.b % 4 == 0 { None } else { self.origin_doc(r) };
        let exp = match ds {
            Some(ds) => self.with_doc(ds, |d| fmt_result("show", r, Some(d))),
            None => fmt_result("show", r, None),
        };
        self.emit("show", format!("show {s} {}", ds.map(|d| d.to_string()).unwrap_or("-".into())), exp);
    }

    fn op_cat(&mut self, op: &RawOp) {
        let c: Vec<usize> = (0..NSLOT).filter(|s| self.slots[*s].is_some()).collect();
        if c.is_empty() {
            return;
        }
        let room = self.owner_slots() < 9;
        let has_owner = |r: &MRes| r.list().iter().any(|i| is_doc(i) || is_state(i));
        if op.c % 3 != 0 {
            let (x, y) = (c[op.a as usize % c.len()], c[op.b as usize % c.len()]);
            let (rx, ry) = (self.slots[x].as_ref().unwrap(), self.slots[y].as_ref().unwrap());
            if (has_owner(rx) || has_owner(ry)) && !(room && op.n % 4 == 0) {
                return;
            }
            let res = if rx.is_ok() && ry.is_ok() {
                let mut v: Vec<It> = rx.list().to_vec();
                v.extend(ry.list().iter().cloned());
                MRes::ok(v).with_origin(if rx.origin == ry.origin { rx.origin } else { None })
            } else {
                MRes::err("Invalid `AMresult`")
            };
            let dst = self.pick_dst(op.dst, &[]);
            self.put("cat", format!("{x} {y}"), dst, res, None, "");
        } else {
            let Some(p) = self.pick_item(op.a, |i, _| !(is_doc(i) || is_state(i)) || (room && op.n % 4 == 0)) else { return };
            let it = self.item(p.0, p.1).unwrap().clone();
            let before = Rc::strong_count(&it) - 1;
            let origin = self.slots[p.0].as_ref().unwrap().origin;
            let dst = self.pick_dst(op.dst, &[]);
            // the call is made before the destination's old content is released
            let prefix = format!("rc={}->{} ", before, before + 1);
            self.put("itemres", format!("{}.{}", p.0, p.1), dst, MRes::one(it).with_origin(origin), None, &prefix);
        }
    }

    fn op_iter(&mut self, op: &RawOp) {
        let c: Vec<usize> = (0..NSLOT).filter(|s| self.slots[*s].is_some()).collect();
        if c.is_empty() {
            return;
        }
        let s = c[op.a as usize % c.len()];
        let mut mode = op.b % 4;
        {
            // AMitemsEqual() compares element-wise with automerge-c's item equality, which is not
            // reflexive for cursors, marks, sync haves and NaN; those results use another mode
            let r = self.slots[s].as_ref().unwrap();
            let irreflexive = r.list().iter().any(|i| match &i.val {
                MVal::Cursor(_) | MVal::Mark(_) | MVal::Have(_) => true,
                MVal::Val(Value::Scalar(s)) => matches!(s.as_ref(), ScalarValue::F64(f) if f.is_nan()),
                _ => false,
            });
            if mode == 3 && (irreflexive || (r.list().is_empty() && self.avoid.empty_items)) {
                mode = 0;
            }
        }
        let t: Vec<u32> = self.slots[s].as_ref().unwrap().list().iter().map(|i| valtype(i)).collect();
        let seq: Vec<u32> = match mode {
            0 | 1 => t.iter().rev().copied().collect(),
            2 => t.iter().step_by(2).copied().collect(),
            _ => t.clone(),
        };
        let mut exp = String::from("iter");
        if mode == 3 {
            exp.push_str(" eq=1");
        }
        for v in seq {
            exp.push_str(&format!(" {v}"));
        }
        self.emit("iter", format!("iter {s} {mode}"), exp);
    }

    fn op_eq(&mut self, op: &RawOp) {
        let comparable = |i: &It| matches!(i.val, MVal::Void | MVal::Actor(_) | MVal::Hash(_) | MVal::Val(_) | MVal::Change(_));
        if op.c % 2 == 0 {
            let avoid = self.avoid.objid_eq;
            let c = self.find_items(|i, _| comparable(i) && !(avoid && i.obj.is_some()));
            if c.is_empty() {
                return;
            }
            let (p, q) = (c[op.a as usize % c.len()], c[if op.b % 3 == 0 { op.a } else { op.b } as usize % c.len()]);
            let eq = item_eq(self.item(p.0, p.1).unwrap(), self.item(q.0, q.1).unwrap());
            self.emit("itemeq", format!("itemeq {}.{} {}.{}", p.0, p.1, q.0, q.1), format!("itemeq {}", eq as u8));
        } else {
            if self.avoid.objid_eq {
                return;
            }
            let c = self.find_items(|i, _| i.obj.is_some());
            if c.is_empty() {
                return;
            }
            let p = c[op.a as usize % c.len()];
            // half of the time an item that carries the same id
            let same: Vec<(usize, usize)> = c.iter().copied().filter(|q| self.item(q.0, q.1).unwrap().obj == self.item(p.0, p.1).unwrap().obj).collect();
            let q = if op.b % 2 == 0 { same[op.n as usize % same.len()] } else { c[op.n as usize % c.len()] };
            let eq = self.item(p.0, p.1).unwrap().obj == self.item(q.0, q.1).unwrap().obj;
            self.emit("objideq", format!("objideq {}.{} {}.{}", p.0, p.1, q.0, q.1), format!("objideq {}", eq as u8));
        }
    }

    fn op_val(&mut self, op: &RawOp) {
        if op.a % 8 == 0 {
            let (x, y) = (TEXTS[op.n as usize % TEXTS.len()], TEXTS[op.m as usize % TEXTS.len()]);
            self.emit("strcmp", format!("strcmp {} {}", hexspan(x.as_bytes()), hexspan(y.as_bytes())), format!("strcmp {}", x.cmp(y) as i32));
            return;
        }
        let dst = self.pick_dst(op.dst, &[]);
        if op.a % 8 == 1 {
            // a change hash rebuilt from bytes (wrong length => error status)
            let n = if op.b % 4 == 0 { 31 } else { 32 };
            let b: Vec<u8> = (0..n).map(|i| (op.v as u8).wrapping_add(i as u8)).collect();
            let res = match ChangeHash::try_from(b.as_slice()) {
                Ok(h) => MRes::one(plain(MVal::Hash(h))),
                Err(e) => MRes::err(e),
            };
            self.put("val", format!("h:{}", hex::encode(&b)), dst, res, None, "");
            return;
        }
        let (vt, val) = Self::value_of(op, false);
        self.put("val", vt, dst, MRes::one(plain(scalar(val.ok().unwrap()))), None, "");
    }
}
