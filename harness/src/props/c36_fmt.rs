//! C36 helper: the harness-side mirror of the C API's result / item structure and the transcript
//! format printed by `/verif/cdriver/driver.c` (`print_item`, `print_result`).
use automerge as am;
use am::marks::Mark;
use am::{ActorId, AutoCommit, Change, ChangeHash, Cursor, ObjId, ObjType, ReadDoc, ScalarValue, Value};
use std::cell::RefCell;
use std::rc::Rc;

#[derive(Clone, PartialEq)]
pub enum Idx {
    Key(String),
    Pos(usize),
}

pub enum MVal {
    Void,
    Val(Value<'static>),
    Hash(ChangeHash),
    Actor(ActorId),
    Change(RefCell<Change>),
    Cursor(Cursor),
    Doc(u32, RefCell<AutoCommit>),
    Mark(Mark),
    Have(am::sync::Have),
    Msg(am::sync::Message),
    State(RefCell<am::sync::State>),
}

/// mirror of automerge-c's `Item` (held by `Rc` exactly like `AMitem(Rc<Item>)`)
pub struct MItem {
    pub idx: Option<Idx>,
    pub obj: Option<ObjId>,
    pub val: MVal,
}

pub type It = Rc<MItem>;

pub struct MRes {
    /// `Err` = AM_STATUS_ERROR
    pub items: Result<Vec<It>, String>,
    /// uid of the document the result was derived from
    pub origin: Option<u32>,
    /// command that produced the result
    pub kind: &'static str,
}

impl MRes {
    pub fn ok(items: Vec<It>) -> Self {
        MRes { items: Ok(items), origin: None, kind: "" }
    }
    pub fn one(it: It) -> Self {
        Self::ok(vec![it])
    }
    pub fn err(e: impl ToString) -> Self {
        MRes { items: Err(e.to_string()), origin: None, kind: "" }
    }
    pub fn void() -> Self {
        Self::one(plain(MVal::Void))
    }
    pub fn from_unit<E: ToString>(r: Result<(), E>) -> Self {
        match r {
            Ok(()) => Self::void(),
            Err(e) => Self::err(e),
        }
    }
    pub fn with_origin(mut self, o: Option<u32>) -> Self {
        self.origin = o;
        self
    }
    pub fn is_ok(&self) -> bool {
        self.items.is_ok()
    }
    pub fn list(&self) -> &[It] {
        match &self.items {
            Ok(v) => v,
            Err(_) => &[],
        }
    }
}

pub fn plain(val: MVal) -> It {
    Rc::new(MItem { idx: None, obj: None, val })
}
pub fn exact(obj: ObjId, val: MVal) -> It {
    Rc::new(MItem { idx: None, obj: Some(obj), val })
}
pub fn indexed(idx: Idx, obj: ObjId, val: MVal) -> It {
    Rc::new(MItem { idx: Some(idx), obj: Some(obj), val })
}
pub fn scalar(s: ScalarValue) -> MVal {
    MVal::Val(Value::Scalar(std::borrow::Cow::Owned(s)))
}
pub fn hashes(h: &[ChangeHash]) -> Vec<It> {
    h.iter().map(|x| plain(MVal::Hash(*x))).collect()
}
pub fn changes(c: Vec<Change>) -> Vec<It> {
    c.into_iter().map(|x| plain(MVal::Change(RefCell::new(x)))).collect()
}

// ---------------------------------------------------------------- byte formatting
pub fn hexspan(b: &[u8]) -> String {
    if b.is_empty() {
        "-".into()
    } else {
        hex::encode(b)
    }
}
pub fn fnv(b: &[u8]) -> u64 {
    let mut h: u64 = 0xcbf29ce484222325;
    for x in b {
        h ^= *x as u64;
        h = h.wrapping_mul(0x100000001b3);
    }
    h
}
pub fn blob(b: &[u8]) -> String {
    if b.len() <= 40 {
        format!("{}:{}", b.len(), hex::encode(b))
    } else {
        format!("{}#{:016x}", b.len(), fnv(b))
    }
}
pub fn text_escape(s: &str) -> String {
    s.bytes().map(|c| if !(0x20..=0x7e).contains(&c) { '?' } else { c as char }).collect()
}

pub fn objtype_num(t: ObjType) -> i32 {
    match t {
        ObjType::List => 1,
        ObjType::Map | ObjType::Table => 2,
        ObjType::Text => 3,
    }
}

/// numeric `AMvalType` tag
pub fn valtype(it: &MItem) -> u32 {
    match &it.val {
        MVal::Void => 1,
        MVal::Actor(_) => 1 << 1,
        MVal::Change(_) => 1 << 4,
        MVal::Hash(_) => 1 << 5,
        MVal::Cursor(_) => 1 << 7,
        MVal::Doc(..) => 1 << 8,
        MVal::Mark(_) => 1 << 11,
        MVal::Have(_) => 1 << 15,
        MVal::Msg(_) => 1 << 16,
        MVal::State(_) => 1 << 17,
        MVal::Val(Value::Object(_)) => 1 << 13,
        MVal::Val(Value::Scalar(s)) => match s.as_ref() {
            ScalarValue::Boolean(_) => 1 << 2,
            ScalarValue::Bytes(_) => 1 << 3,
            ScalarValue::Counter(_) => 1 << 6,
            ScalarValue::F64(_) => 1 << 9,
            ScalarValue::Int(_) => 1 << 10,
            ScalarValue::Null => 1 << 12,
            ScalarValue::Str(_) => 1 << 14,
            ScalarValue::Timestamp(_) => 1 << 18,
            ScalarValue::Uint(_) => 1 << 19,
            ScalarValue::Unknown { .. } => 1 << 20,
        },
    }
}

pub fn fmt_objid(o: &Option<ObjId>) -> String {
    match o {
        None => "_".into(),
        Some(ObjId::Root) => "root".into(),
        Some(ObjId::Id(c, a, i)) => format!("{}@{}#{}", c, hexspan(a.to_bytes()), i),
    }
}

pub fn fmt_scalar(s: &ScalarValue) -> String {
    match s {
        ScalarValue::Null => "null".into(),
        ScalarValue::Boolean(b) => format!("b:{}", *b as u8),
        ScalarValue::Int(v) => format!("i:{v}"),
        ScalarValue::Uint(v) => format!("u:{v}"),
        ScalarValue::F64(v) => format!("f:{:016x}", v.to_bits()),
        ScalarValue::Counter(c) => format!("c:{}", i64::from(c)),
        ScalarValue::Timestamp(v) => format!("t:{v}"),
        ScalarValue::Str(s) => format!("s:{}", hexspan(s.as_bytes())),
        ScalarValue::Bytes(b) => format!("y:{}", blob(b)),
        ScalarValue::Unknown { type_code, bytes } => format!("x:{}:{}", type_code, hexspan(bytes)),
    }
}

fn fmt_tmp(items: Vec<It>) -> String {
    let v: Vec<String> = items.iter().map(|i| fmt_item(i, None)).collect();
    format!("{}[{}]", v.len(), v.join("|"))
}
fn fmt_tmp_bytes(b: Vec<u8>) -> String {
    fmt_tmp(vec![plain(scalar(ScalarValue::Bytes(b)))])
}
fn fmt_opt_hashes(o: &Option<Vec<ChangeHash>>) -> String {
    match o {
        Some(h) => format!("1:{}", fmt_tmp(hashes(h))),
        None => "0:0[]".into(),
    }
}
fn haves(h: &[am::sync::Have]) -> Vec<It> {
    h.iter().map(|x| plain(MVal::Have(x.clone()))).collect()
}

pub fn fmt_item(it: &It, doc: Option<&AutoCommit>) -> String {
    let idx = match &it.idx {
        Some(Idx::Key(k)) => format!("k:{}", hexspan(k.as_bytes())),
        Some(Idx::Pos(p)) => format!("p:{p}"),
        None => "_".into(),
    };
    let val = match &it.val {
        MVal::Void => "void".to_string(),
        MVal::Val(Value::Scalar(s)) => fmt_scalar(s),
        MVal::Val(Value::Object(_)) => match doc {
            Some(d) => {
                let t = match &it.obj {
                    Some(id) => d.object_type(id).map(objtype_num).unwrap_or(0),
                    // AM_ROOT
                    None => d.object_type(am::ROOT).map(objtype_num).unwrap_or(0),
                };
                format!("o:{t}")
            }
            None => "o:?".into(),
        },
        MVal::Hash(h) => format!("h:{}", hex::encode(h.0)),
        MVal::Actor(a) => format!("a:{}/{}", hexspan(a.to_bytes()), text_escape(&a.to_hex_string())),
        MVal::Change(c) => {
            if Rc::strong_count(it) != 1 {
                "ch:shared".to_string()
            } else {
                let c = c.borrow();
                let h = hex::encode(c.hash().0);
                format!(
                    "ch{{{h},a={},seq={},start={},max={},time={},msg={},deps={},size={},empty={},raw={},extra={},{h}}}",
                    fmt_tmp(vec![plain(MVal::Actor(c.actor_id().clone()))]),
                    c.seq(),
                    u64::from(c.start_op()),
                    c.max_op(),
                    c.timestamp(),
                    match c.message() {
                        Some(m) => hexspan(m.as_bytes()),
                        None => "~".into(),
                    },
                    fmt_tmp(hashes(c.deps())),
                    c.len(),
                    c.is_empty() as u8,
                    blob(c.raw_bytes()),
                    hexspan(c.extra_bytes()),
                )
            }
        }
        MVal::Cursor(c) => format!("cur:{}:{}", text_escape(&c.to_string()), hexspan(&c.to_bytes())),
        MVal::Doc(..) => "doc".into(),
        MVal::Mark(m) => format!(
            "mk{{{},{},{},{}}}",
            hexspan(m.name().as_bytes()),
            m.start,
            m.end,
            fmt_tmp(vec![plain(scalar(m.value().clone()))])
        ),
        MVal::Have(h) => format!("have{{{}}}", fmt_tmp(hashes(&h.last_sync))),
        MVal::Msg(m) => format!(
            "msg{{heads={},needs={},haves={},enc={}}}",
            fmt_tmp(hashes(&m.heads)),
            fmt_tmp(hashes(&m.need)),
            fmt_tmp(haves(&m.have)),
            fmt_tmp_bytes(m.clone().encode())
        ),
        MVal::State(s) => {
            if Rc::strong_count(it) != 1 {
                "st:shared".to_string()
            } else {
                let s = s.borrow();
                format!(
                    "st{{shared={},sent={},theirheads={},theirneeds={},theirhaves={},enc={}}}",
                    fmt_tmp(hashes(&s.shared_heads)),
                    fmt_tmp(hashes(&s.last_sent_heads)),
                    fmt_opt_hashes(&s.their_heads),
                    fmt_opt_hashes(&s.their_need),
                    match &s.their_have {
                        Some(h) => format!("1:{}", fmt_tmp(haves(h))),
                        None => "0:0[]".into(),
                    },
                    fmt_tmp_bytes(s.encode())
                )
            }
        }
    };
    format!("{} {} {}", idx, fmt_objid(&it.obj), val)
}

/// expected transcript line; for an error only the prefix `<cmd> ERR` is compared
pub fn fmt_result(cmd: &str, r: &MRes, doc: Option<&AutoCommit>) -> String {
    match &r.items {
        Ok(items) => {
            let v: Vec<String> = items.iter().map(|i| fmt_item(i, doc)).collect();
            format!("{} ok {} [{}]", cmd, v.len(), v.join("|"))
        }
        Err(_) => format!("{cmd} ERR"),
    }
}

/// mirror of automerge-c's `PartialEq for Item` restricted to values it can compare
pub fn item_eq(a: &MItem, b: &MItem) -> bool {
    let v = match (&a.val, &b.val) {
        (MVal::Void, MVal::Void) => true,
        (MVal::Actor(x), MVal::Actor(y)) => x == y,
        (MVal::Hash(x), MVal::Hash(y)) => x == y,
        (MVal::Val(x), MVal::Val(y)) => x == y,
        (MVal::Change(x), MVal::Change(y)) => *x.borrow() == *y.borrow(),
        _ => false,
    };
    a.idx == b.idx && a.obj == b.obj && v
}
