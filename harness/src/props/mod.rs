use crate::engine::driver::{Ctx, Property};
pub mod common;
pub mod c01;
pub mod c02;

pub fn property(id: &str, ctx: &Ctx) -> Option<Property> {
    Some(match id {
        "C01" => c01::property(ctx),
        "C02" => c02::property(ctx),
        _ => return None,
    })
}

pub const ALL: &[&str] = &["C01", "C02"];
