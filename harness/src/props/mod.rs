use crate::engine::driver::{Ctx, Property};
pub mod common;
pub mod c01;
pub mod c02;
pub mod c03;
pub mod c04;
pub mod c05;
pub mod c06;
pub mod c07;
pub mod c08;
pub mod c09;
pub mod c10;
pub mod c11;
pub mod c12;
pub mod c18;
pub mod c19;
pub mod c20;
pub mod c23;
pub mod c24;
pub mod c26;
pub mod c27;
pub mod c28;
pub mod c29;
pub mod c31;
pub mod c32;
pub mod c33;
pub mod c34;
pub mod c35;
pub mod c36;
pub mod c36_fmt;
pub mod c36_model;
pub mod c38;
pub mod c40;
pub mod dupseq;

pub fn property(id: &str, ctx: &Ctx) -> Option<Property> {
    Some(match id {
        "C01" => c01::property(ctx),
        "C02" => c02::property(ctx),
        "C03" => c03::property(ctx),
        "C04" => c04::property(ctx),
        "C05" => c05::property(ctx),
        "C06" => c06::property(ctx),
        "C07" => c07::property(ctx),
        "C08" => c08::property(ctx),
        "C09" => c09::property(ctx),
        "C10" => c10::property(ctx),
        "C11" => c11::property(ctx),
        "C12" => c12::property(ctx),
        "C18" => c18::property(ctx),
        "C19" => c19::property(ctx),
        "C20" => c20::property_c20(ctx),
        "C21" => c20::property_c21(ctx),
        "C22" => c20::property_c22(ctx),
        "C23" => c23::property(ctx),
        "C24" => c24::property_c24(ctx),
        "C25" => c24::property_c25(ctx),
        "C26" => c26::property(ctx),
        "C27" => c27::property(ctx),
        "C28" => c28::property(ctx),
        "C29" => c29::property_c29(ctx),
        "C30" => c29::property_c30(ctx),
        "C31" => c31::property(ctx),
        "C32" => c32::property(ctx),
        "C33" => c33::property(ctx),
        "C34" => c34::property(ctx),
        "C35" => c35::property(ctx),
        "C36" => c36::property(ctx),
        "C38" => c38::property(ctx),
        "C40" => c40::property(ctx),
        _ => return None,
    })
}

pub const ALL: &[&str] = &["C01", "C02", "C03", "C04", "C05", "C06", "C07", "C08", "C09", "C10", "C11", "C12", "C18", "C19", "C20", "C21", "C22", "C23", "C24", "C25", "C26", "C27", "C28", "C29", "C30", "C31", "C32", "C33", "C34", "C35", "C36", "C38", "C40"];
