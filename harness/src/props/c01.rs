//! C01 Convergence: same change set ⇒ same observable state, whatever the ingestion path.
use super::common::*;
use crate::engine::driver::*;
use crate::engine::graph::Lcg;
use crate::engine::interp::load_opts;
use crate::engine::program::*;
use crate::{ensure, fail};
use automerge::sync::{self, SyncDoc};
use automerge::{Automerge, Change, ChangeHash, ReadDoc};
use proptest::prelude::*;
use std::collections::HashSet;

type Case = (Program, u64);

pub fn check(case: &Case, t: &mut Tally) -> CaseResult {
    let (p, seed) = case;
    let mut it = run_program(p, default_opts())?;
    let enc = it.enc;
    let (m, g) = all_changes(&mut it)?;
    if m.is_empty() {
        return Ok(());
    }
    let mut rng = Lcg(*seed);
    let full: HashSet<ChangeHash> = hashes(&m);
    let topo_full = g.topo(&full);
    ensure!(topo_full.len() == full.len(), "C01:harness:graph-not-closed", "union of replica histories is not causally closed");
    // two target sets: everything, and a causally closed prefix
    let cut = 1 + rng.below(topo_full.len());
    let sets: Vec<(&str, Vec<ChangeHash>)> = vec![("all", topo_full.clone()), ("prefix", topo_full[..cut].to_vec())];
    let mut paths = 0usize;
    for (sname, order) in &sets {
        let set: HashSet<ChangeHash> = order.iter().copied().collect();
        let reference = apply_in_order(enc, order, &m)?;
        let ro = obs_of(&reference, None, "reference")?;
        let rh = heads_sorted(&reference);
        ensure!(rh == g.heads_of(&set), "C01:heads:reference-vs-graph", "heads {:?} but graph says {:?}", rh, g.heads_of(&set));
        let cmp = |what: &str, d: &Automerge| -> CaseResult {
            let h = heads_sorted(d);
            ensure!(h == rh, format!("C01:{what}:heads"), "{sname}/{what}: heads {:?} vs reference {:?}", h, rh);
            let o = obs_of(d, None, what)?;
            expect_same("C01", what, &ro, &o)
        };
        let changes: Vec<Change> = order.iter().map(|h| m[h].clone()).collect();
        // (b) one call, permuted, with duplicates
        {
            let mut v = changes.clone();
            rng.shuffle(&mut v);
            let n = v.len();
            for _ in 0..rng.below(3) {
                v.push(v[rng.below(n)].clone());
            }
            let mut d = fresh(enc);
            catch("apply_changes(batch)", || d.apply_changes(v))?.map_err(|e| Failure::new("C01:batch:error", e.to_string()))?;
            cmp("batch-permuted", &d)?;
            paths += 1;
        }
        // (c) one at a time, arbitrary order
        {
            let mut v = changes.clone();
            rng.shuffle(&mut v);
            let mut d = fresh(enc);
            for c in v {
                catch("apply_changes(queue)", || d.apply_changes([c]))?.map_err(|e| Failure::new("C01:queue:error", e.to_string()))?;
            }
            cmp("one-by-one-any-order", &d)?;
            paths += 1;
        }
        // (d) random partition into batches of a permuted order
        {
            let mut v = changes.clone();
            rng.shuffle(&mut v);
            let mut d = fresh(enc);
            while !v.is_empty() {
                let k = 1 + rng.below(v.len().min(5));
                let batch: Vec<Change> = v.drain(..k).collect();
                catch("apply_changes(partition)", || d.apply_changes(batch))?.map_err(|e| Failure::new("C01:partition:error", e.to_string()))?;
            }
            cmp("batches", &d)?;
            paths += 1;
        }
        // (f) load(save)
        {
            let bytes = catch("save", || if rng.below(2) == 0 { reference.save() } else { reference.save_nocompress() })?;
            let d = catch("load", || Automerge::load_with_options(&bytes, load_opts(enc)))?
                .map_err(|e| Failure::new("C01:load:error", format!("load(save()) failed: {e}")))?;
            cmp("load-save", &d)?;
            paths += 1;
        }
        // (g) partial save then incremental pieces
        if order.len() >= 2 {
            let k = 1 + rng.below(order.len() - 1);
            let partial = apply_in_order(enc, &order[..k], &m)?;
            let ph = partial.get_heads();
            let mut d = catch("load partial", || Automerge::load_with_options(&partial.save(), load_opts(enc)))?
                .map_err(|e| Failure::new("C01:load:error", e.to_string()))?;
            let piece = catch("save_after", || reference.save_after(&ph))?;
            catch("load_incremental", || d.load_incremental(&piece))?.map_err(|e| Failure::new("C01:load_incremental:error", e.to_string()))?;
            cmp("partial+save_after", &d)?;
            paths += 1;
        }
        // (h) sync into a fresh document
        {
            let mut d = fresh(enc);
            let (mut sa, mut sb) = (sync::State::new(), sync::State::new());
            let mut quiet = false;
            for _ in 0..(40 + 4 * order.len()) {
                let mut any = false;
                if let Some(msg) = catch("generate", || reference.generate_sync_message(&mut sa))? {
                    any = true;
                    let msg = sync::Message::decode(&msg.encode()).map_err(|e| Failure::new("C01:sync:decode", e.to_string()))?;
                    catch("receive", || d.receive_sync_message(&mut sb, msg))?.map_err(|e| Failure::new("C01:sync:receive-error", e.to_string()))?;
                }
                if let Some(msg) = catch("generate", || d.generate_sync_message(&mut sb))? {
                    any = true;
                    let msg = sync::Message::decode(&msg.encode()).map_err(|e| Failure::new("C01:sync:decode", e.to_string()))?;
                    let mut r2 = reference.clone();
                    catch("receive", || r2.receive_sync_message(&mut sa, msg))?.map_err(|e| Failure::new("C01:sync:receive-error", e.to_string()))?;
                }
                if !any {
                    quiet = true;
                    break;
                }
            }
            ensure!(quiet, "C01:sync:not-quiet", "sync into fresh doc did not go quiet");
            cmp("sync", &d)?;
            paths += 1;
        }
        // (i) bundle + load_incremental
        {
            let b = catch("bundle", || reference.bundle(order.iter().copied()))?.map_err(|e| Failure::new("C01:bundle:error", e.to_string()))?;
            let bytes = b.bytes().to_vec();
            let mut d = fresh(enc);
            catch("load_incremental(bundle)", || d.load_incremental(&bytes))?.map_err(|e| Failure::new("C01:bundle:load-error", e.to_string()))?;
            cmp("bundle", &d)?;
            paths += 1;
        }
        // (e) merge chain of replicas, random order — full set only
        if *sname == "all" {
            let mut idx: Vec<usize> = (0..it.reps.len()).collect();
            rng.shuffle(&mut idx);
            let mut d = fresh(enc);
            for i in idx {
                let mut other = it.reps[i].doc.document().clone();
                catch("merge", || d.merge(&mut other))?.map_err(|e| Failure::new("C01:merge:error", e.to_string()))?;
            }
            cmp("merge-chain", &d)?;
            paths += 1;
        }
    }
    // classification
    let mut conc = false;
    'o: for (i, a) in topo_full.iter().enumerate() {
        for b in topo_full.iter().skip(i + 1) {
            if g.concurrent(a, b) && !touched_objects(&m[a]).is_disjoint(&touched_objects(&m[b])) {
                conc = true;
                break 'o;
            }
        }
    }
    if conc {
        t.class("concurrent_same_object");
    }
    t.class(format!("enc{}", p.enc % 4));
    if conc && paths >= 3 {
        t.nontrivial();
    }
    t.extra_evals = paths as u64;
    if conc {
        t.sample = Some(p.describe());
    }
    let _ = fail_unused();
    Ok(())
}

fn fail_unused() -> CaseResult {
    if false {
        fail!("x", "y");
    }
    Ok(())
}

pub fn property(_ctx: &Ctx) -> Property {
    Property {
        id: "C01",
        level: "exploration",
        rule: "proptest-generated multi-replica programs (maps, lists, text, counters, marks, nested objects, forks, merges, save/load); for the full change set and a causally closed prefix, documents are built through up to 8 ingestion paths (permuted batch with duplicates, one-by-one in arbitrary order, random batch partition, load(save), partial save + save_after via load_incremental, sync into a fresh doc, bundle via load_incremental, merge chain) and compared by full ReadDoc observation (heads, get_all sets with ids, order, counters, marks, spans) with a reference built by one-by-one topological apply. Non-trivial = history has two concurrent changes touching the same object and >=3 paths were compared; distinct by program fingerprint. evaluations counts documents compared.",
        assumptions: &["reference = one-by-one topological apply_changes into a fresh document (a different path from every compared one)", "save bytes are not compared"],
        subs: vec![
            sub::<Case, _, _>("history", 9600, 200000, |c| (program_strategy(HISTORY, if c.thorough() { 120 } else { 40 }, if c.thorough() { 5 } else { 3 }, 4), any::<u64>()), check),
            sub::<Case, _, _>("conflict", 6400, 100000, |c| (program_strategy(CONFLICT, if c.thorough() { 100 } else { 40 }, 4, 4), any::<u64>()), check),
            sub::<Case, _, _>("counters", 4800, 100000, |c| (program_strategy(COUNTER, if c.thorough() { 100 } else { 40 }, 4, 4), any::<u64>()), check),
        ],
    }
}
