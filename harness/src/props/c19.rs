//! C19 Identifiers and sync state serialise losslessly and resolve correctly.
use super::c20::local_edit;
use super::common::*;
use crate::engine::driver::*;
use crate::engine::interp::Interp;
use crate::engine::net::Net;
use crate::engine::obs::{exid, read_battery, render_hydrate};
use crate::engine::program::*;
use crate::ensure;
use automerge::{ActorId, AutoCommit, Automerge, ChangeHash, Cursor, MoveCursor, ObjId, ObjType, ReadDoc};
use proptest::prelude::*;
use std::str::FromStr;

type Case = (Program, u64);

fn idx_of(o: &ObjId) -> Option<usize> {
    match o {
        ObjId::Root => None,
        ObjId::Id(_, _, i) => Some(*i),
    }
}

pub fn check_ids(case: &Case, t: &mut Tally) -> CaseResult {
    let (p, pick) = case;
    let mut it = run_program(p, default_opts())?;
    let n = it.reps.len();
    let docs: Vec<Automerge> = (0..n).map(|i| it.reps[i].doc.document().clone()).collect();
    let mut merged = fresh(it.enc);
    for d in &docs {
        let mut o = d.clone();
        catch("merge", || merged.merge(&mut o))?.map_err(|e| Failure::new("C19:merge:error", e.to_string()))?;
    }
    let mut nontrivial = false;
    // every replica against the merged document (which contains everything, with its own actor table)
    for (ri, a) in docs.iter().enumerate() {
        let ba = catch("battery", || read_battery(a, None, *pick, "C19"))??;
        let bm = catch("battery", || read_battery(&merged, None, *pick, "C19"))??;
        // actor ids and change hashes
        for c in a.get_changes(&[]) {
            let actor = c.actor_id().clone();
            let hex = actor.to_hex_string();
            ensure!(ActorId::try_from(hex.as_str()).ok().as_ref() == Some(&actor) && ActorId::from_str(&hex).ok().as_ref() == Some(&actor), "C19:actor:hex-roundtrip", "actor {hex} does not round-trip through its hex string");
            ensure!(ActorId::from(actor.to_bytes()) == actor, "C19:actor:bytes-roundtrip", "actor {hex} does not round-trip through bytes");
            let h = c.hash();
            ensure!(ChangeHash::from_str(&h.to_string()).ok() == Some(h), "C19:hash:string-roundtrip", "hash {h} does not round-trip through its string");
            ensure!(ChangeHash::try_from(&h.0[..]).ok() == Some(h), "C19:hash:bytes-roundtrip", "hash {h} does not round-trip through bytes");
            t.extra_evals += 1;
        }
        for (obj, ty) in &ba.objects {
            // bytes and string round trips
            let bytes = obj.to_bytes();
            let back = catch("ObjId::try_from(bytes)", || ObjId::try_from(bytes.as_slice()))?.map_err(|e| Failure::new("C19:objid:bytes-decode-error", format!("{:?}: {e}", exid(obj))))?;
            ensure!(&back == obj, "C19:objid:bytes-roundtrip", "object id {:?} decodes to {:?}", obj, back);
            let s = obj.to_string();
            let (imp, ity) = catch("import", || a.import(&s))?.map_err(|e| Failure::new("C19:objid:string-import-error", format!("import({s:?}) failed: {e}")))?;
            ensure!(&imp == obj && ity == *ty, "C19:objid:string-roundtrip", "import({s:?}) gives {:?}/{:?}, expected {:?}/{:?}", imp, ity, obj, ty);
            // the decoded id used in the merged document refers to the same object as the native id there
            let native = bm.objects.iter().find(|(o, _)| exid(o) == exid(obj));
            let Some((native, nty)) = native else { continue };
            ensure!(nty == ty, "C19:objid:type-differs", "object {:?} has type {:?} in the merged document but {:?} in the replica", exid(obj), nty, ty);
            let via_decoded = catch("object_type via decoded id", || merged.object_type(&back))?.map_err(|e| Failure::new("C19:objid:decoded-id-unknown-in-other-replica", format!("{:?}: {e}", exid(obj))))?;
            ensure!(via_decoded == *ty, "C19:objid:decoded-id-wrong-object", "decoded id resolves to a {:?}, expected {:?}", via_decoded, ty);
            let h1 = catch("hydrate via decoded id", || ReadDoc::hydrate(&merged, &back, None))?.map(|v| render_hydrate(&v)).map_err(|e| e.to_string());
            let h2 = ReadDoc::hydrate(&merged, native, None).map(|v| render_hydrate(&v)).map_err(|e| e.to_string());
            ensure!(h1 == h2, "C19:objid:decoded-id-wrong-object", "hydrate through the decoded id {:?} = {:?}, through the native id = {:?}", exid(obj), h1, h2);
            let (imp2, _) = catch("import in other replica", || merged.import(&s))?.map_err(|e| Failure::new("C19:objid:string-import-error", format!("import({s:?}) in the merged document failed: {e}")))?;
            ensure!(imp2 == *native, "C19:objid:string-resolves-differently", "import({s:?}) in the merged document gives {:?}, native {:?}", imp2, native);
            if idx_of(obj) != idx_of(native) && idx_of(obj).is_some() {
                nontrivial = true;
                t.class("actor_index_differs");
            }
            t.extra_evals += 1;
            // cursors
            if *ty == ObjType::List || *ty == ObjType::Text {
                let len = a.length(obj);
                let mut positions: Vec<usize> = vec![0, (*pick as usize) % (len + 1), len.saturating_sub(1)];
                positions.dedup();
                for pos in positions {
                    if pos >= len {
                        continue;
                    }
                    for mv in [MoveCursor::After, MoveCursor::Before] {
                        let c = match catch("get_cursor_moving", || a.get_cursor_moving(obj, pos, None, mv.clone()))? {
                            Ok(c) => c,
                            Err(_) => continue, // position inside a multi-unit character
                        };
                        let cb = c.to_bytes();
                        let c2 = catch("Cursor::try_from(bytes)", || Cursor::try_from(cb.as_slice()))?.map_err(|e| Failure::new("C19:cursor:bytes-decode-error", format!("{c}: {e}")))?;
                        ensure!(c2 == c, "C19:cursor:bytes-roundtrip", "cursor {c} decodes to {c2}");
                        let cs = c.to_string();
                        let c3 = catch("Cursor::try_from(str)", || Cursor::try_from(cs.as_str()))?.map_err(|e| Failure::new("C19:cursor:string-decode-error", format!("{cs:?}: {e}")))?;
                        ensure!(c3 == c, "C19:cursor:string-roundtrip", "cursor {cs:?} parses to {c3}");
                        // same element in the merged document: the native cursor there that equals it
                        let here = a.get_cursor_position(obj, &c, None).map_err(|e| Failure::new("C19:cursor:position-error", e.to_string()))?;
                        let mlen = merged.length(native);
                        let expect = (0..mlen).find(|i| merged.get_cursor_moving(native, *i, None, mv.clone()).ok().as_ref() == Some(&c));
                        if let Some(e) = expect {
                            let got = catch("get_cursor_position with decoded cursor", || merged.get_cursor_position(&back, &c3, None))?.map_err(|e| Failure::new("C19:cursor:decoded-cursor-error-in-other-replica", e.to_string()))?;
                            ensure!(got == e, "C19:cursor:resolves-to-different-element", "cursor {cs} (position {here} in replica {ri}) resolves to {got} in the merged document, its element is at {e}");
                            t.class("cursor_cross_replica");
                        }
                        t.extra_evals += 1;
                    }
                }
                for c in [a.get_cursor(obj, automerge::CursorPosition::Start, None), a.get_cursor(obj, automerge::CursorPosition::End, None)].into_iter().flatten() {
                    ensure!(Cursor::try_from(c.to_bytes().as_slice()).ok().as_ref() == Some(&c) && Cursor::try_from(c.to_string().as_str()).ok().as_ref() == Some(&c), "C19:cursor:start-end-roundtrip", "cursor {c} does not round-trip");
                }
            }
        }
    }
    if nontrivial {
        t.nontrivial();
        t.sample = Some(p.describe());
    }
    Ok(())
}

type NCase = (Program, Vec<(u8, u8, u8, u8)>);

/// every sync message and persisted state of a generated multi-peer session round-trips
pub fn check_sync(case: &NCase, t: &mut Tally) -> CaseResult {
    let (p, sched) = case;
    let mut prog = p.clone();
    prog.steps.retain(|s| s.k != ISOLATE && s.k != INTEGRATE);
    prog.nrep = 3;
    let mut opts = default_opts();
    opts.max_reps = 3;
    let mut it: Interp = run_program(&prog, opts)?;
    let docs: Vec<AutoCommit> = it.reps.drain(..).map(|r| r.doc).collect();
    let n = docs.len();
    let mut net = Net::new(docs);
    net.check_roundtrip = true;
    for i in 0..n {
        for j in i + 1..n {
            net.connect(i, j);
        }
    }
    for (k, a, b, c) in sched {
        let (x, y) = ((*a as usize) % n, (*b as usize) % n);
        match k % 6 {
            0 => local_edit(&mut net.peers[x].doc, *b, *c),
            1 | 2 => drop(net.generate(x, y)?),
            3 => drop(net.deliver(x, y)?),
            4 => {
                net.disconnect(x, y, true, c & 1 == 1)?;
                net.connect(x, y);
            }
            _ => {
                for q in 0..n {
                    drop(net.generate(x, q)?);
                }
            }
        }
    }
    let _ = net.closing(400)?;
    t.extra_evals += net.roundtrips;
    if net.roundtrips >= 4 {
        t.nontrivial();
    }
    if net.stats.reconnect_persisted > 0 {
        t.class("state_roundtrip");
    }
    Ok(())
}

pub fn property(_ctx: &Ctx) -> Property {
    Property {
        id: "C19",
        level: "exploration",
        rule: "(ids) proptest multi-replica histories in which later actors sort before earlier ones; for every replica: every object id (bytes via ObjId::try_from, string via import), cursor (After/Before at several positions, Start, End; bytes and string), actor id (hex, bytes) and change hash (string, bytes) must decode to an equal value; a decoded object id / cursor used in the merged document (different actor table) must resolve to the same object (type, hydrate) / element (the position whose native cursor equals it). (sync) every message of a generated 3-peer session satisfies decode(encode(m)) == m with identical re-encoding; every persisted State keeps shared_heads, re-encodes identically and has its session fields reset. (resolve-across-documents) the C30 oracle: ids remembered at creation and ids handed out by the merged document resolve, in every replica / the merged / the reloaded document that contains the object, to the same reads and edits as that document's own ids (signatures C30:*). Non-trivial = the id's actor index differs between the two documents (ids), >=4 message/state round trips (sync); distinct by case.",
        assumptions: &["ExId equality ignores the actor-index hint (by design)"],
        subs: vec![
            sub::<Case, _, _>("ids", 3200, 80000, |c| (program_strategy(HISTORY, if c.thorough() { 80 } else { 35 }, 4, 4), any::<u64>()), check_ids),
            // ids handed out by one document resolved in documents with other (also smaller) actor tables: C30's oracle
            sub::<Case, _, _>("resolve-across-documents", 800, 20000, |c| (program_strategy(HISTORY, if c.thorough() { 80 } else { 35 }, 4, 4), any::<u64>()), super::c29::check_c30),
            sub::<NCase, _, _>("sync", 3200, 80000, |c| (program_strategy(HISTORY, if c.thorough() { 50 } else { 20 }, 3, 4), prop::collection::vec((any::<u8>(), any::<u8>(), any::<u8>(), any::<u8>()), 0..40)), check_sync),
        ],
    }
}
