//! C09 Incremental patches keep a materialised view equal to the document.
use super::common::*;
use crate::engine::driver::*;
use crate::engine::graph::Lcg;
use crate::engine::interp::{bounds, load_opts, Interp, FRAGS};
use crate::engine::obs::observe;
use crate::engine::program::*;
use crate::engine::view::{self, V};
use automerge::sync::{self, SyncDoc};
use automerge::transaction::Transactable;
use automerge::{Automerge, Change, ChangeHash, LoadOptions, ObjType, PatchLog, ReadDoc, ScalarValue, ROOT};
use proptest::prelude::*;
use std::collections::HashSet;

type Case = (Program, u64);

fn apply_all(v: &mut V, patches: &[automerge::Patch], enc: automerge::TextEncoding, what: &str) -> CaseResult {
    for p in patches {
        view::apply(v, p, enc).map_err(|f| Failure::new(format!("C09:{}", f.sig), format!("{what}: {}\npatches: {:#?}", f.detail, view::describe_patches(patches))))?;
    }
    Ok(())
}

fn compare(v: &V, want: &V, what: &str, patches: &[automerge::Patch], noop_resolution: bool) -> CaseResult {
    if let Some((kind, d)) = view::first_diff(want, v, "") {
        // signature detail: where the batch came from and, for conflict flags, the direction
        let remote = ["merge", "apply_changes", "sync", "load_incremental", "receive_sync"].iter().any(|k| what.contains(k));
        let origin = if remote { "remote" } else { "local" };
        let mut sig = format!("C09:view:{kind}:{origin}");
        if kind == "conflict-flag" {
            sig.push_str(if d.ends_with("false vs true") { ":stale-true" } else { ":missing" });
            if noop_resolution && d.ends_with("false vs true") {
                // the batch contained a local put equal to the winner of a conflicted register
                sig.push_str(":noop-conflict-resolution");
            }
        }
        return Err(Failure::new(sig, format!("{what}: document vs view after applying the patches: {d}\npatches: {:#?}", view::describe_patches(patches))));
    }
    Ok(())
}

/// Shape of a known finding family: an ingested change increments a register that was conflicted for its author
/// (an Increment op with two or more predecessors). The increment supersedes the plain values of the register, which
/// the remote patch path does not report; the view then differs in the flag, the type, the counter or rejects the
/// Increment patch. One root cause, keyed on the shape instead of on the symptom.
fn increment_over_conflict(changes: &[Change], not_by: Option<&automerge::ActorId>) -> bool {
    changes.iter().any(|c| {
        if Some(c.actor_id()) == not_by {
            return false;
        }
        c.decode().operations.iter().any(|o| matches!(o.action, automerge::legacy::OpType::Increment(_)) && o.pred.len() >= 2)
    })
}

const INC_OVER_CONFLICT_SIG: &str = "C09:view:remote:increment-over-conflicted-register";

fn reclassify(r: CaseResult, shape: bool) -> CaseResult {
    match r {
        Err(f) if shape && f.sig.starts_with("C09:view:") && (f.sig.contains(":remote") || f.sig.contains("increment-non-counter")) => Err(Failure::new(INC_OVER_CONFLICT_SIG, f.detail)),
        other => other,
    }
}

/// style (a): AutoCommit with the diff cursor and diff_incremental
pub fn check_autocommit(case: &Case, t: &mut Tally) -> CaseResult {
    let (p, seed) = case;
    let mut rng = Lcg(*seed);
    let mut opts = default_opts();
    opts.max_reps = p.nrep.clamp(1, 5) as usize + 1;
    let mut it = Interp::new(p, opts);
    let enc = it.enc;
    catch("update_diff_cursor", || it.reps[0].doc.update_diff_cursor())?;
    let mut v = view::from_obs(&catch("observe", || observe(&it.reps[0].doc, None))?);
    let mut nontrivial = false;
    let mut since_sync: Vec<String> = vec![];
    let mut noop_seen = 0u64;
    for (i, s) in p.steps.iter().enumerate() {
        if (s.k == FORK || s.k == SAVE_LOAD) && (s.r as usize) % it.reps.len() == 0 && (s.k == SAVE_LOAD || it.reps.len() >= it.opts.max_reps) {
            continue; // replacing / reloading the logged replica would discard its patch log
        }
        let out = catch(&format!("step {i} {}", s.describe()), || it.step(s))?;
        if out.rep == 0 && out.applied {
            since_sync.push(kind_name(s.k).to_string());
        }
        if rng.below(3) != 0 && i + 1 != p.steps.len() {
            continue;
        }
        let patches = catch("diff_incremental", || it.reps[0].doc.diff_incremental())?;
        let applied = apply_all(&mut v, &patches, enc, &format!("after steps {:?}", since_sync));
        if applied.is_err() {
            let own = it.reps[0].doc.get_actor().clone();
            let all = it.reps[0].doc.get_changes(&[]);
            reclassify(applied, increment_over_conflict(&all, Some(&own)))?;
        }
        let want = view::from_obs(&catch("observe", || observe(&it.reps[0].doc, None))?);
        let noop_now = it.classes.get("noop_conflict_resolution").copied().unwrap_or(0);
        let r = compare(&v, &want, &format!("after steps {:?} (step {i})", since_sync), &patches, noop_now > noop_seen);
        noop_seen = noop_now;
        if r.is_err() {
            let own = it.reps[0].doc.get_actor().clone();
            let all = it.reps[0].doc.get_changes(&[]);
            reclassify(r, increment_over_conflict(&all, Some(&own)))?;
        }
        if since_sync.iter().any(|k| matches!(k.as_str(), "merge" | "apply_changes" | "sync" | "load_incremental")) && patches.iter().any(|p| matches!(p.action, automerge::PatchAction::Conflict { .. } | automerge::PatchAction::PutMap { conflict: true, .. } | automerge::PatchAction::PutSeq { conflict: true, .. } | automerge::PatchAction::DeleteMap { .. } | automerge::PatchAction::DeleteSeq { .. } | automerge::PatchAction::Increment { .. })) {
            nontrivial = true;
        }
        for k in &since_sync {
            t.class(format!("path_{k}"));
        }
        since_sync.clear();
        t.extra_evals += 1;
    }
    if nontrivial {
        t.nontrivial();
        t.sample = Some(p.describe());
    }
    Ok(())
}

/// style (b): plain Automerge with an explicit PatchLog, *_log_patches and make_patches
pub fn check_manual(case: &Case, t: &mut Tally) -> CaseResult {
    let (p, seed) = case;
    let mut rng = Lcg(*seed);
    let mut it = Interp::new(p, default_opts());
    let enc = it.enc;
    // the logged document starts as a copy of replica 0 (own actor)
    it.commit(0);
    let start = it.reps[0].doc.save();
    let mut log = PatchLog::active();
    let mut m = catch("load with patch log", || Automerge::load_with_options(&start, LoadOptions::new().text_encoding(enc).patch_log(&mut log)))?
        .map_err(|e| Failure::new("C09:load:error", e.to_string()))?
        .with_actor(automerge::ActorId::from(vec![0xD0u8, 9]));
    // loading with a patch log must describe the whole loaded state
    let mut v = V::Map(Default::default());
    let patches = catch("make_patches", || m.make_patches(&mut log))?;
    apply_all(&mut v, &patches, enc, "load with patch log")?;
    compare(&v, &view::from_obs(&obs_of(&m, None, "loaded")?), "load with patch log", &patches, false)?;
    t.class("path_load_with_patch_log");
    let mut st = sync::State::new();
    let mut peer_st: Vec<Option<sync::State>> = vec![];
    let mut nontrivial = false;
    let mut noop_resolution = false;
    let list = it.objs.iter().find(|(_, ty)| *ty == ObjType::List).map(|x| x.0.clone());
    let text = it.objs.iter().find(|(_, ty)| *ty == ObjType::Text).map(|x| x.0.clone());
    for (i, s) in p.steps.iter().enumerate() {
        catch(&format!("step {i} {}", s.describe()), || it.step(s))?;
        if rng.below(3) != 0 && i + 1 != p.steps.len() {
            continue;
        }
        let act = rng.below(7);
        // a PatchLog records the changes of one batch of operations (its documented use): fresh log each time
        log = PatchLog::active();
        let src = rng.below(it.reps.len());
        it.commit(src);
        let have: HashSet<ChangeHash> = m.get_changes(&[]).iter().map(|c| c.hash()).collect();
        let remote: Vec<Change> = it.reps[src].doc.get_changes(&[]).into_iter().filter(|c| !have.contains(&c.hash())).collect();
        let what;
        match act {
            0 => {
                what = "apply_changes_log_patches";
                catch(what, || m.apply_changes_log_patches(remote.clone(), &mut log))?.map_err(|e| Failure::new("C09:apply:error", e.to_string()))?;
            }
            1 => {
                what = "merge_and_log_patches";
                let mut other = it.reps[src].doc.document().clone();
                catch(what, || m.merge_and_log_patches(&mut other, &mut log))?.map_err(|e| Failure::new("C09:merge:error", e.to_string()))?;
            }
            2 => {
                what = "load_incremental_log_patches";
                let mut bytes = vec![];
                for c in &remote {
                    bytes.extend_from_slice(c.raw_bytes());
                }
                catch(what, || m.load_incremental_log_patches(&bytes, &mut log))?.map_err(|e| Failure::new("C09:load_incremental:error", e.to_string()))?;
            }
            3 => {
                what = "receive_sync_message_log_patches";
                while peer_st.len() <= src {
                    peer_st.push(None);
                }
                let mut ps = sync::State::new();
                st = sync::State::new();
                for _ in 0..40 {
                    let mut any = false;
                    if let Some(msg) = it.reps[src].doc.sync().generate_sync_message(&mut ps) {
                        any = true;
                        let msg = sync::Message::decode(&msg.encode()).map_err(|e| Failure::new("C09:sync:decode", e.to_string()))?;
                        catch(what, || m.receive_sync_message_log_patches(&mut st, msg, &mut log))?.map_err(|e| Failure::new("C09:sync:error", e.to_string()))?;
                    }
                    if let Some(msg) = m.generate_sync_message(&mut st) {
                        any = true;
                        // the peer is a throw-away clone so that the program's replica is not changed by the harness
                        let mut peer = it.reps[src].doc.clone();
                        let _ = peer.sync().receive_sync_message(&mut ps, msg);
                    }
                    if !any {
                        break;
                    }
                }
            }
            4 | 5 => {
                what = "transaction_log_patches";
                let mut tx = catch("transaction_log_patches", || m.transaction_log_patches(PatchLog::active()))?.map_err(|e| Failure::new("C09:tx:patch-log-mismatch", format!("{e:?}")))?;
                let n = 1 + rng.below(4);
                noop_resolution = false;
                if std::env::var("VERIF_DEBUG").is_ok() {
                    eprintln!("  tx begin: a = {:?}", tx.get_all(ROOT, "a").map(|v| v.len()));
                }
                for _ in 0..n {
                    let key = ["a", "b", "c"][rng.below(3)];
                    match rng.below(8) {
                        0 => {
                            let val = rng.below(50) as i64;
                            if let Ok(all) = tx.get_all(ROOT, key) {
                                if all.len() > 1 && matches!(all.last(), Some((automerge::Value::Scalar(w), _)) if w.as_ref() == &ScalarValue::Int(val)) {
                                    noop_resolution = true;
                                }
                            }
                            drop(tx.put(ROOT, key, val))
                        }
                        1 => {
                            let val = ScalarValue::counter(rng.below(5) as i64);
                            if let Ok(all) = tx.get_all(ROOT, key) {
                                if all.len() > 1 && matches!(all.last(), Some((automerge::Value::Scalar(w), _)) if w.as_ref() == &val) {
                                    noop_resolution = true;
                                }
                            }
                            drop(tx.put(ROOT, key, val))
                        }
                        2 => drop(tx.increment(ROOT, key, rng.below(5) as i64 - 2)),
                        3 => drop(tx.delete(ROOT, key)),
                        4 => {
                            if let Some(l) = &list {
                                if tx.object_type(l).is_ok() {
                                    let len = tx.length(l);
                                    drop(tx.insert(l, rng.below(len + 1), rng.below(9) as i64));
                                }
                            }
                        }
                        5 => {
                            if let Some(l) = &list {
                                if tx.object_type(l).is_ok() {
                                    let len = tx.length(l);
                                    if len > 0 {
                                        if rng.below(2) == 0 {
                                            drop(tx.delete(l, rng.below(len)));
                                        } else {
                                            let ix = rng.below(len);
                                            if let Ok(all) = tx.get_all(l, ix) {
                                                if all.len() > 1 && matches!(all.last(), Some((automerge::Value::Scalar(w), _)) if w.as_ref() == &ScalarValue::Str("s".into())) {
                                                    noop_resolution = true;
                                                }
                                            }
                                            drop(tx.put(l, ix, "s"));
                                        }
                                    }
                                }
                            }
                        }
                        6 => {
                            if let Some(x) = &text {
                                if tx.object_type(x).is_ok() {
                                    let b = bounds(&tx, x);
                                    let a = rng.below(b.len());
                                    let z = (a + rng.below(3)).min(b.len() - 1);
                                    drop(tx.splice_text(x, b[a], (b[z] - b[a]) as isize, FRAGS[rng.below(FRAGS.len())]));
                                }
                            }
                        }
                        _ => drop(tx.put_object(ROOT, key, ObjType::Map).and_then(|o| tx.put(&o, "x", 1))),
                    }
                }
                if act == 5 && rng.below(2) == 0 {
                    // rolled back operations must contribute no patches
                    if std::env::var("VERIF_DEBUG").is_ok() {
                        eprintln!("  before rollback: a = {:?} pending {}", tx.get_all(ROOT, "a").map(|v| v.len()), tx.pending_ops());
                    }
                    catch("rollback", || tx.rollback())?;
                    if std::env::var("VERIF_DEBUG").is_ok() {
                        eprintln!("  after rollback: a = {:?}", m.get_all(ROOT, "a").map(|v| v.len()));
                    }
                    t.class("path_rollback");
                } else {
                    let (_, l) = catch("commit", || tx.commit())?;
                    log = l;
                }
            }
            _ => {
                what = "apply_changes_log_patches(one by one)";
                // one PatchLog per call (the documented use): apply, make patches, update the view, repeat
                for c in remote.clone() {
                    let mut l = PatchLog::active();
                    let c2 = c.clone();
                    catch(what, || m.apply_changes_log_patches([c], &mut l))?.map_err(|e| Failure::new("C09:apply:error", e.to_string()))?;
                    let ps = catch("make_patches", || m.make_patches(&mut l))?;
                    if std::env::var("VERIF_DEBUG").is_ok() {
                        eprintln!("   one change (ops {:?}): {:#?}", c2.decode().operations.iter().map(|o| format!("{:?} key={:?} pred={:?}", o.action, o.key, o.pred)).collect::<Vec<_>>(), view::describe_patches(&ps));
                    }
                    reclassify(apply_all(&mut v, &ps, enc, what), increment_over_conflict(&remote, None))?;
                }
            }
        }
        let patches = catch("make_patches", || m.make_patches(&mut log))?;
        if std::env::var("VERIF_DEBUG").is_ok() {
            eprintln!("step {i} act {act} {what} src {src} remote {}: {:#?}", remote.len(), view::describe_patches(&patches));
        }
        reclassify(apply_all(&mut v, &patches, enc, what), increment_over_conflict(&remote, None))?;
        let want = view::from_obs(&obs_of(&m, None, "logged doc")?);
        reclassify(compare(&v, &want, &format!("{what} (after step {i})"), &patches, noop_resolution), increment_over_conflict(&remote, None))?;
        noop_resolution = false;
        t.class(format!("path_{what}"));
        if !remote.is_empty() && act != 4 && act != 5 && patches.iter().any(|p| matches!(p.action, automerge::PatchAction::Conflict { .. } | automerge::PatchAction::PutMap { conflict: true, .. } | automerge::PatchAction::PutSeq { conflict: true, .. } | automerge::PatchAction::DeleteMap { .. } | automerge::PatchAction::DeleteSeq { .. } | automerge::PatchAction::Increment { .. })) {
            nontrivial = true;
        }
        t.extra_evals += 1;
    }
    let _ = load_opts(enc);
    if nontrivial {
        t.nontrivial();
        t.sample = Some(p.describe());
    }
    Ok(())
}

pub fn property(_ctx: &Ctx) -> Property {
    Property {
        id: "C09",
        level: "exploration",
        rule: "(autocommit) proptest-generated multi-replica programs over the FULL step set (local edits of every kind, commit, rollback, apply_changes, merge, load_incremental, sync, isolate/integrate); replica 0 keeps a materialised view: every few steps diff_incremental() is applied with an independent patch applier and the view must equal View::from_obs(document) (winners, conflict flags, counters, list order, text in encoding units). (manual) a plain Automerge with an explicit PatchLog loaded via LoadOptions::patch_log, mutated through transaction_log_patches (commit and rollback), apply_changes_log_patches (batch and one by one), merge_and_log_patches, load_incremental_log_patches and receive_sync_message_log_patches; after each, make_patches applied to the view must equal the document. Non-trivial = a remote ingestion produced a Conflict / conflicted Put / Delete / Increment patch; distinct by case. evaluations counts patch batches verified.",
        assumptions: &["mark state is not part of the view"],
        subs: vec![
            sub::<Case, _, _>("autocommit", 4000, 100000, |c| (program_strategy(FULL, if c.thorough() { 100 } else { 40 }, 3, 4), any::<u64>()), check_autocommit),
            sub::<Case, _, _>("autocommit-conflict", 3000, 80000, |c| (program_strategy(CONFLICT, if c.thorough() { 100 } else { 40 }, 3, 4), any::<u64>()), check_autocommit),
            sub::<Case, _, _>("manual", 3000, 80000, |c| (program_strategy(CONFLICT, if c.thorough() { 80 } else { 35 }, 3, 4), any::<u64>()), check_manual),
            sub::<Case, _, _>("manual-text", 1500, 40000, |c| (program_strategy(TEXT, if c.thorough() { 80 } else { 35 }, 3, 4), any::<u64>()), check_manual),
        ],
    }
}
