//! C10 History is immutable and content-addressed.
use super::common::*;
use crate::engine::driver::*;
use crate::engine::graph::Graph;
use crate::engine::interp::Interp;
use crate::engine::program::*;
use crate::ensure;
use automerge::{Automerge, Change, ChangeHash, ReadDoc};
use sha2::{Digest, Sha256};
use std::collections::{HashMap, HashSet};

pub fn sha_of_chunk(raw: &[u8]) -> Option<[u8; 32]> {
    if raw.len() < 9 {
        return None;
    }
    let mut h = Sha256::new();
    h.update(&raw[8..]);
    Some(h.finalize().into())
}

fn check_doc(it: &Interp, d: &Automerge, who: &str, t: &mut Tally, unrecorded: &mut u64) -> CaseResult {
    let all = catch("get_changes(&[])", || d.get_changes(&[]))?;
    let g = Graph::from_changes(all.iter());
    let set: HashSet<ChangeHash> = all.iter().map(|c| c.hash()).collect();
    ensure!(set.len() == all.len(), "C10:get_changes:duplicates", "{who}: duplicates in get_changes(&[])");
    // dependency order
    let mut seen: HashSet<ChangeHash> = HashSet::new();
    for c in &all {
        for dep in c.deps() {
            ensure!(seen.contains(dep), "C10:get_changes:order", "{who}: change {} returned before its dependency {}", c.hash(), dep);
        }
        seen.insert(c.hash());
    }
    for c in &all {
        let raw = c.raw_bytes();
        match it.change_bytes.get(&c.hash()) {
            Some(orig) => ensure!(orig.as_slice() == raw, "C10:get_changes:bytes-differ", "{who}: change {} (actor {:?} seq {}) differs from the bytes recorded at creation:\n  now  {}\n  then {}", c.hash(), c.actor_id(), c.seq(), hex::encode(raw), hex::encode(orig)),
            None => *unrecorded += 1,
        }
        let sha = sha_of_chunk(raw);
        ensure!(sha.map(|s| s == c.hash().0).unwrap_or(false), "C10:hash-not-sha256-of-chunk", "{who}: hash {} is not SHA-256 of the chunk body", c.hash());
        ensure!(raw[4..8] == c.hash().0[0..4], "C10:checksum-field", "{who}: checksum field does not match hash prefix");
        let by = catch("get_change_by_hash", || d.get_change_by_hash(&c.hash()))?;
        ensure!(by.as_ref().map(|b| b.raw_bytes() == raw).unwrap_or(false), "C10:get_change_by_hash:bytes-differ", "{who}: get_change_by_hash({}) differs or is None", c.hash());
        t.extra_evals += 1;
    }
    // get_last_local_change = the current actor's change with the greatest seq
    let me = d.get_actor().to_bytes().to_vec();
    let want = all.iter().filter(|c| c.actor_id().to_bytes() == me.as_slice()).max_by_key(|c| c.seq());
    let got = catch("get_last_local_change", || d.get_last_local_change())?;
    ensure!(got.as_ref().map(|c| c.raw_bytes().to_vec()) == want.map(|c| c.raw_bytes().to_vec()), "C10:get_last_local_change", "{who}: get_last_local_change returned {:?}, expected {:?}", got.map(|c| c.hash()), want.map(|c| c.hash()));
    // get_changes(have) for recorded heads known to this document
    for h in it.heads.iter() {
        if !h.iter().all(|x| set.contains(x)) {
            continue;
        }
        let anc = g.ancestors(h);
        let got = catch("get_changes(have)", || d.get_changes(h))?;
        let got_set: HashSet<ChangeHash> = got.iter().map(|c| c.hash()).collect();
        let want: HashSet<ChangeHash> = set.difference(&anc).copied().collect();
        ensure!(got_set == want && got.len() == want.len(), "C10:get_changes(have):set", "{who}: get_changes({:?}) returned {} changes, expected {} (all minus ancestors)", h, got.len(), want.len());
        let mut seen: HashSet<ChangeHash> = anc.clone();
        for c in &got {
            for dep in c.deps() {
                ensure!(seen.contains(dep), "C10:get_changes(have):order", "{who}: get_changes(have): {} before dependency {}", c.hash(), dep);
            }
            seen.insert(c.hash());
            if let Some(orig) = it.change_bytes.get(&c.hash()) {
                ensure!(orig.as_slice() == c.raw_bytes(), "C10:get_changes(have):bytes-differ", "{who}: change {} differs", c.hash());
            }
        }
        t.extra_evals += 1;
    }
    Ok(())
}

fn has_cross_change_successor(all: &[Change]) -> bool {
    for c in all {
        let e = c.decode();
        let lo = e.start_op.get();
        let hi = lo + e.operations.len() as u64;
        for o in &e.operations {
            for p in o.pred.iter() {
                if !(p.actor() == &e.actor_id && p.counter() >= lo && p.counter() < hi) {
                    return true;
                }
            }
        }
    }
    false
}

pub fn check(p: &Program, t: &mut Tally) -> CaseResult {
    let mut it = Interp::new(p, default_opts());
    let mut unrecorded = 0u64;
    let mid = p.steps.len() / 2;
    for (i, s) in p.steps.iter().enumerate() {
        catch(&format!("step {i} {}", s.describe()), || it.step(s))?;
        if i + 1 == mid || i + 1 == p.steps.len() {
            for r in 0..it.reps.len() {
                let d = catch("clone", || {
                    let mut c = it.reps[r].doc.clone();
                    c.rollback();
                    c.document().clone()
                })?;
                check_doc(&it, &d, &format!("replica {r} after step {i}"), t, &mut unrecorded)?;
            }
        }
    }
    // get_changes_added between replicas
    let docs: Vec<Automerge> = (0..it.reps.len())
        .map(|r| {
            let mut c = it.reps[r].doc.clone();
            c.rollback();
            c.document().clone()
        })
        .collect();
    let mut any_cross = false;
    for (a, da) in docs.iter().enumerate() {
        let ha: HashSet<ChangeHash> = da.get_changes(&[]).iter().map(|c| c.hash()).collect();
        any_cross |= has_cross_change_successor(&da.get_changes(&[]));
        for (b, db) in docs.iter().enumerate() {
            if a == b {
                continue;
            }
            let allb: HashMap<ChangeHash, Change> = db.get_changes(&[]).into_iter().map(|c| (c.hash(), c)).collect();
            let want: HashSet<ChangeHash> = allb.keys().filter(|h| !ha.contains(h)).copied().collect();
            let got = catch("get_changes_added", || da.get_changes_added(db))?;
            let got_set: HashSet<ChangeHash> = got.iter().map(|c| c.hash()).collect();
            ensure!(got_set == want && got.len() == want.len(), "C10:get_changes_added:set", "get_changes_added returned {} changes, expected {}", got.len(), want.len());
            for c in &got {
                ensure!(allb[&c.hash()].raw_bytes() == c.raw_bytes(), "C10:get_changes_added:bytes-differ", "change {} differs", c.hash());
            }
            t.extra_evals += 1;
        }
    }
    ensure!(unrecorded == 0, "C10:harness:unrecorded-change", "{unrecorded} changes were never recorded at creation (harness gap)");
    let sl = it.classes.get("save_load").copied().unwrap_or(0) > 0;
    if sl {
        t.class("after_save_load");
    }
    if any_cross {
        t.class("successor_added_by_later_change");
    }
    if sl && any_cross {
        t.nontrivial();
        t.sample = Some(p.describe());
    }
    Ok(())
}

pub fn property(_ctx: &Ctx) -> Property {
    Property {
        id: "C10",
        level: "exploration",
        rule: "proptest-generated histories with overwrites/deletes of earlier ops, merges, forks, save/load cycles; the harness records every change's raw bytes when it is committed. Mid-program and at the end, on every replica: get_changes(&[]), get_change_by_hash, get_last_local_change, get_changes_added return byte-identical changes in dependency order; hash = SHA-256 of the chunk computed by the harness; get_changes(have) for every recorded heads = all minus ancestors(have) (harness graph), dependencies first. Non-trivial = some later change added a successor to an op of an earlier change AND the replica went through save/load; distinct by program. evaluations counts individual change retrievals.",
        assumptions: &["raw bytes recorded via get_last_local_change right after each commit are the reference"],
        subs: vec![
            sub::<Program, _, _>("storage", 6000, 150000, |c| program_strategy(STORAGE, if c.thorough() { 100 } else { 40 }, 4, 4), check),
            sub::<Program, _, _>("conflict", 3000, 80000, |c| program_strategy(CONFLICT, if c.thorough() { 100 } else { 40 }, 4, 4), check),
            sub::<Program, _, _>("counters", 2000, 50000, |c| program_strategy(COUNTER, if c.thorough() { 100 } else { 40 }, 4, 4), check),
            sub::<Program, _, _>("seq-conflict", 2000, 50000, |c| program_strategy(SEQ_CONFLICT, if c.thorough() { 100 } else { 40 }, 4, 4), check),
        ],
    }
}
