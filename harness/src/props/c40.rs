//! C40 Loading with string migration turns visible strings into text and nothing else.
use super::common::*;
use crate::engine::driver::*;
use crate::engine::interp::load_opts;
use crate::engine::obs::{Id, ONode, OVal};
use crate::engine::program::*;
use crate::ensure;
use automerge::{Automerge, LoadOptions, ReadDoc, StringMigration};

/// the Debug literal of a string scalar (rendered as `Str("...")` by the observation)
fn is_str(v: &OVal) -> Option<String> {
    if let OVal::Scalar(s) = v {
        if let Some(rest) = s.strip_prefix("Str(") {
            return rest.strip_suffix(')').map(|x| x.to_string());
        }
    }
    None
}

struct Stats {
    strings: usize,
    conflicted_with_string: bool,
    in_list_after_delete: bool,
    nested: bool,
}

fn reg(path: &str, o: &[(Id, OVal)], m: &[(Id, OVal)], depth: usize, st: &mut Stats) -> CaseResult {
    let strs: Vec<(Id, String)> = o.iter().filter_map(|(id, v)| is_str(v).map(|s| (id.clone(), s))).collect();
    for (_, v) in m {
        ensure!(is_str(v).is_none(), "C40:visible-string-left", "{path}: the migrated document still shows a string scalar {:?}", v);
    }
    if strs.is_empty() {
        ensure!(o.len() == m.len(), "C40:register-without-strings-changed:size", "{path}: register without strings has {} values, migrated {}", o.len(), m.len());
        for ((io, vo), (im, vm)) in o.iter().zip(m.iter()) {
            ensure!(io == im, "C40:register-without-strings-changed:id", "{path}: op id {:?} became {:?}", io, im);
            match (vo, vm) {
                (OVal::Obj(a), OVal::Obj(b)) => node(path, a, b, depth + 1, st)?,
                (a, b) => ensure!(a == b, "C40:register-without-strings-changed:value", "{path}: {:?} became {:?}", a, b),
            }
        }
        return Ok(());
    }
    st.strings += strs.len();
    if o.len() > 1 {
        st.conflicted_with_string = true;
    }
    if depth > 0 {
        st.nested = true;
    }
    let want = strs.iter().max_by(|a, b| a.0.cmp(&b.0)).unwrap().1.clone();
    ensure!(!m.is_empty(), "C40:string-register-vanished", "{path}: register with strings {:?} is empty after migration", strs);
    match &m.last().unwrap().1 {
        OVal::Obj(n) => match n.as_ref() {
            ONode::Text(t) => {
                ensure!(format!("{:?}", t.text) == want, "C40:text-content", "{path}: visible strings {:?}; the text object holds {:?}, expected the highest-id string {:?}", strs, t.text, want);
            }
            other => return Err(Failure::new("C40:not-a-text-object", format!("{path}: expected a text object, found {:?}", other))),
        },
        other => return Err(Failure::new("C40:not-a-text-object", format!("{path}: expected a text object, found {:?}", other))),
    }
    ensure!(m.len() == 1, "C40:other-values-survive-next-to-text", "{path}: register had {:?}; after migration it holds {} values", o.iter().map(|x| &x.1).collect::<Vec<_>>(), m.len());
    Ok(())
}

fn node(path: &str, o: &ONode, m: &ONode, depth: usize, st: &mut Stats) -> CaseResult {
    match (o, m) {
        (ONode::Map(a), ONode::Map(b)) => {
            let (ka, kb): (Vec<_>, Vec<_>) = (a.keys().collect(), b.keys().collect());
            ensure!(ka == kb, "C40:keys-changed", "{path}: keys {:?} became {:?}", ka, kb);
            for (k, ra) in a {
                reg(&format!("{path}/{k:?}"), ra, &b[k], depth, st)?;
            }
            Ok(())
        }
        (ONode::List(a), ONode::List(b)) => {
            ensure!(a.len() == b.len(), "C40:list-length-changed", "{path}: list length {} became {}", a.len(), b.len());
            for (i, (ra, rb)) in a.iter().zip(b.iter()).enumerate() {
                reg(&format!("{path}[{i}]"), ra, rb, depth, st)?;
            }
            Ok(())
        }
        (ONode::Text(a), ONode::Text(b)) => {
            ensure!(a.text == b.text && a.len == b.len && a.marks == b.marks && a.elems.len() == b.elems.len(), "C40:text-object-changed", "{path}: an existing text object changed: {:?} -> {:?}", a.text, b.text);
            // characters stay as they are; embedded objects (block maps) are maps like any other
            for (i, ((sa, ra), (sb, rb))) in a.elems.iter().zip(b.elems.iter()).enumerate() {
                ensure!(sa == sb && ra.len() == rb.len(), "C40:text-object-changed", "{path}: element {i} of a text object changed");
                for ((ia, va), (ib, vb)) in ra.iter().zip(rb.iter()) {
                    match (va, vb) {
                        (OVal::Obj(x), OVal::Obj(y)) => node(&format!("{path}<{i}>"), x, y, depth + 1, st)?,
                        (x, y) => ensure!(ia == ib && x == y, "C40:text-object-changed", "{path}: element {i} of a text object changed: {:?} -> {:?}", x, y),
                    }
                }
            }
            Ok(())
        }
        (a, b) => Err(Failure::new("C40:object-type-changed", format!("{path}: {:?} became {:?}", a, b))),
    }
}

pub fn check(p: &Program, t: &mut Tally) -> CaseResult {
    let mut it = run_program(p, default_opts())?;
    let enc = it.enc;
    let mut o = fresh(enc);
    for r in 0..it.reps.len() {
        let mut d = it.reps[r].doc.document().clone();
        catch("merge", || o.merge(&mut d))?.map_err(|e| Failure::new("C40:merge:error", e.to_string()))?;
    }
    let bytes = o.save();
    let m = catch("load with ConvertToText", || Automerge::load_with_options(&bytes, LoadOptions::new().text_encoding(enc).migrate_strings(StringMigration::ConvertToText)))?
        .map_err(|e| Failure::new("C40:load-error", e.to_string()))?;
    let oo = obs_of(&o, None, "original")?.without_spans();
    let mo = obs_of(&m, None, "migrated")?.without_spans();
    let mut st = Stats { strings: 0, conflicted_with_string: false, in_list_after_delete: false, nested: false };
    node("", &oo, &mo, 0, &mut st)?;
    let (no, nm) = (o.get_changes(&[]).len(), m.get_changes(&[]).len());
    if st.strings == 0 {
        ensure!(heads_sorted(&o) == heads_sorted(&m) && no == nm, "C40:no-strings-but-changed", "document without visible strings: {} changes became {}", no, nm);
        t.class("no_visible_strings");
    } else {
        ensure!(nm == no + 1, "C40:added-changes", "{} visible string registers: {} changes became {} (expected exactly one added change)", st.strings, no, nm);
        t.class("has_visible_strings");
    }
    // the migrated document saves and reloads
    let l = catch("reload migrated", || Automerge::load_with_options(&m.save(), load_opts(enc)))?.map_err(|e| Failure::new("C40:migrated-reload-error", e.to_string()))?;
    expect_same("C40", "migrated-reload", &obs_of(&m, None, "migrated")?, &obs_of(&l, None, "reloaded")?)?;
    // without migration nothing changes
    let plain = Automerge::load_with_options(&bytes, load_opts(enc)).map_err(|e| Failure::new("C40:load-error", e.to_string()))?;
    ensure!(heads_sorted(&plain) == heads_sorted(&o), "C40:plain-load-heads", "plain load changed the heads");
    // deleted list elements before a string element?
    let deleted_in_lists = o.get_changes(&[]).iter().any(|c| c.decode().operations.iter().any(|op| matches!(op.action, automerge::legacy::OpType::Delete) && matches!(op.key, automerge::legacy::Key::Seq(_))));
    st.in_list_after_delete = deleted_in_lists && st.strings > 0;
    if st.conflicted_with_string {
        t.class("string_in_conflicted_register");
    }
    if st.nested {
        t.class("string_in_nested_object");
    }
    if st.in_list_after_delete {
        t.class("strings_and_list_deletions");
    }
    if st.conflicted_with_string || st.nested || st.in_list_after_delete {
        t.nontrivial();
        t.sample = Some(p.describe());
    }
    Ok(())
}

pub fn property(_ctx: &Ctx) -> Property {
    Property {
        id: "C40",
        level: "exploration",
        rule: "proptest-generated multi-replica histories with string scalars in maps and lists (conflicted string/string and string/other registers, deleted strings, strings in nested objects, list elements after deletions, documents without strings), merged, saved and loaded with StringMigration::ConvertToText. The original and migrated observations are walked in parallel: a register whose visible set contains strings must hold exactly one text object whose content is the string with the greatest id; a register without visible strings must be identical (ids, values, recursively); no visible string scalar anywhere; key sets, list lengths and existing text objects unchanged; no strings => equal heads and change count, else exactly one added change; the migrated document reloads to an equal one. Non-trivial = a conflicted register containing a string, a string in a nested object, or strings together with list deletions; distinct by program.",
        assumptions: &[],
        subs: vec![
            sub::<Program, _, _>("conflict", 6000, 150000, |c| program_strategy(CONFLICT, if c.thorough() { 100 } else { 40 }, 4, 4), check),
            sub::<Program, _, _>("history", 3000, 80000, |c| program_strategy(HISTORY, if c.thorough() { 100 } else { 40 }, 4, 4), check),
        ],
    }
}
