//! Shared scenario for C06/C38: two different changes carrying one (actor, seq), made the realistic way
//! (a stale copy of a document keeps editing under the same actor), offered to a target in every order.
use super::common::*;
use crate::engine::driver::*;
use crate::engine::graph::Lcg;
use crate::engine::interp::{load_opts, Interp};
use crate::engine::obs::ONode;
use crate::engine::program::*;
use automerge::sync::{self, SyncDoc};
use automerge::transaction::{CommitOptions, Transactable};
use automerge::{ActorId, AutoCommit, Automerge, Change, ChangeHash, ReadDoc, SaveOptions, ROOT};
use proptest::prelude::*;
use std::collections::{BTreeMap, HashSet};

pub type Case = (Program, Vec<Step>, Vec<Step>, u64);

pub const LOCAL: Preset = &[(PUT, 10), (COMMIT, 6), (LIST_INSERT, 5), (SPLICE_TEXT, 5), (DELETE, 3), (LIST_DELETE, 2), (PUT_OBJECT, 2), (INCREMENT, 2), (MARK, 2), (LIST_PUT, 2)];

pub fn strategy(thorough: bool) -> impl Strategy<Value = Case> {
    (
        program_strategy(HISTORY, if thorough { 40 } else { 20 }, 2, 2),
        prop::collection::vec(step_strategy(LOCAL), 1..8),
        prop::collection::vec(step_strategy(LOCAL), 1..8),
        any::<u64>(),
    )
}

pub struct Scenario {
    pub enc: automerge::TextEncoding,
    pub actor: ActorId,
    pub base: Automerge,
    pub a_doc: Automerge,
    pub b_doc: Automerge,
    pub a_new: Vec<Change>,
    pub b_new: Vec<Change>,
    pub conflicting: bool,
}

fn branch(p: &Program, extra: &[Step]) -> Result<Interp, Failure> {
    let mut it = run_program(p, default_opts())?;
    for s in extra {
        let mut s = s.clone();
        s.r = 0;
        catch("branch step", || it.step(&s))?;
    }
    it.commit(0);
    Ok(it)
}

pub fn build(case: &Case) -> Result<Scenario, Failure> {
    let (p, sa, sb, _) = case;
    let mut base_it = run_program(p, default_opts())?;
    let base = base_it.reps[0].doc.document().clone();
    let base_hashes: HashSet<ChangeHash> = base.get_changes(&[]).iter().map(|c| c.hash()).collect();
    let mut ia = branch(p, sa)?;
    let mut ib = branch(p, sb)?;
    let a_doc = ia.reps[0].doc.document().clone();
    let b_doc = ib.reps[0].doc.document().clone();
    let a_new: Vec<Change> = a_doc.get_changes(&[]).into_iter().filter(|c| !base_hashes.contains(&c.hash())).collect();
    let b_new: Vec<Change> = b_doc.get_changes(&[]).into_iter().filter(|c| !base_hashes.contains(&c.hash())).collect();
    let conflicting = a_new.iter().any(|a| b_new.iter().any(|b| a.actor_id() == b.actor_id() && a.seq() == b.seq() && a.hash() != b.hash()));
    Ok(Scenario { enc: base_it.enc, actor: base_it.reps[0].actor.clone(), base, a_doc, b_doc, a_new, b_new, conflicting })
}

#[derive(Clone, PartialEq, Debug)]
pub struct Snapshot {
    pub heads: Vec<ChangeHash>,
    pub obs: ONode,
    pub saved: Vec<u8>,
    pub missing: Vec<ChangeHash>,
}

pub fn snapshot(d: &Automerge) -> Result<Snapshot, Failure> {
    Ok(Snapshot {
        heads: heads_sorted(d),
        obs: obs_of(d, None, "snapshot")?,
        saved: catch("save_with_options", || d.save_with_options(SaveOptions { deflate: false, retain_orphans: true }))?,
        missing: catch("get_missing_deps", || d.get_missing_deps(&[]))?,
    })
}

/// C38 invariants that must hold after every step, whatever it returned
pub fn invariants(d: &Automerge, enc: automerge::TextEncoding, when: &str) -> CaseResult {
    let ch = catch("get_changes", || d.get_changes(&[]))?;
    let mut per: BTreeMap<Vec<u8>, Vec<u64>> = BTreeMap::new();
    for c in &ch {
        per.entry(c.actor_id().to_bytes().to_vec()).or_default().push(c.seq());
    }
    for (a, mut seqs) in per {
        seqs.sort();
        let want: Vec<u64> = (1..=seqs.len() as u64).collect();
        if seqs != want {
            let dup = seqs.windows(2).any(|w| w[0] == w[1]);
            return Err(Failure::new(
                if dup { "C38:duplicate-actor-seq" } else { "C38:seq-gap" },
                format!("{when}: actor {} has sequence numbers {:?}", hex::encode(a), seqs),
            ));
        }
    }
    let o = obs_of(d, None, when)?;
    for retain in [false, true] {
        let bytes = catch("save", || d.save_with_options(SaveOptions { deflate: true, retain_orphans: retain }))?;
        let l = catch("load", || Automerge::load_with_options(&bytes, load_opts(enc)))?
            .map_err(|e| Failure::new("C38:save-load:load-error", format!("{when}: load(save(retain_orphans={retain})) failed: {e}")))?;
        if heads_sorted(&l) != heads_sorted(d) {
            return Err(Failure::new("C38:save-load:heads", format!("{when}: heads differ after reload (retain_orphans={retain})")));
        }
        expect_same("C38", "save-load", &o, &obs_of(&l, None, "reloaded")?)?;
    }
    Ok(())
}

#[derive(Debug)]
pub struct Delivery {
    pub what: String,
    pub result: Result<(), String>,
}

/// perform one generated delivery into `t`; returns a description and the call's result
pub fn deliver(sc: &Scenario, t: &mut AutoCommit, rng: &mut Lcg, shares_actor: bool, tally: &mut Tally) -> Result<Delivery, Failure> {
    let pick = |rng: &mut Lcg, v: &Vec<Change>| -> Vec<Change> {
        if v.is_empty() {
            return vec![];
        }
        match rng.below(4) {
            0 => vec![v[rng.below(v.len())].clone()],
            1 => v.clone(),
            2 => {
                let mut x = v.clone();
                x.reverse();
                x
            }
            _ => v[rng.below(v.len())..].to_vec(),
        }
    };
    let side_a = rng.below(2) == 0;
    let (src_new, src_doc, name) = if side_a { (&sc.a_new, &sc.a_doc, "A") } else { (&sc.b_new, &sc.b_doc, "B") };
    let kind = rng.below(if shares_actor { 8 } else { 7 });
    let (what, result): (String, Result<(), String>) = match kind {
        0 | 1 => {
            let v = pick(rng, src_new);
            let n = v.len();
            (format!("apply_changes({n} of {name})"), catch("apply_changes", || t.apply_changes(v))?.map_err(|e| e.to_string()))
        }
        2 => {
            // mixed batch: some of A, some of B and some base changes
            let mut v = pick(rng, &sc.a_new);
            v.extend(pick(rng, &sc.b_new));
            let basec = sc.base.get_changes(&[]);
            if !basec.is_empty() {
                v.push(basec[rng.below(basec.len())].clone());
            }
            rng.shuffle(&mut v);
            tally.class("mixed_batch");
            (format!("apply_changes(mixed {})", v.len()), catch("apply_changes", || t.apply_changes(v))?.map_err(|e| e.to_string()))
        }
        3 => {
            let v = pick(rng, src_new);
            let mut bytes = vec![];
            for c in &v {
                bytes.extend_from_slice(c.raw_bytes());
            }
            (format!("load_incremental({} of {name})", v.len()), catch("load_incremental", || t.load_incremental(&bytes))?.map(|_| ()).map_err(|e| e.to_string()))
        }
        4 => {
            let mut o = AutoCommit::load_with_options(&src_doc.save(), load_opts(sc.enc)).map_err(|e| Failure::new("harness:load", e.to_string()))?;
            (format!("merge({name})"), catch("merge", || t.merge(&mut o))?.map(|_| ()).map_err(|e| e.to_string()))
        }
        5 => {
            // sync with the holder of one branch
            let mut holder = src_doc.clone();
            let (mut st, mut sh) = (sync::State::new(), sync::State::new());
            let mut res = Ok(());
            'outer: for _ in 0..50 {
                let mut any = false;
                if let Some(m) = catch("generate", || holder.generate_sync_message(&mut sh))? {
                    any = true;
                    let m = sync::Message::decode(&m.encode()).map_err(|e| Failure::new("harness:decode", e.to_string()))?;
                    if let Err(e) = catch("receive", || t.sync().receive_sync_message(&mut st, m))? {
                        res = Err(e.to_string());
                        break 'outer;
                    }
                }
                if let Some(m) = catch("generate", || t.sync().generate_sync_message(&mut st))? {
                    any = true;
                    let m = sync::Message::decode(&m.encode()).map_err(|e| Failure::new("harness:decode", e.to_string()))?;
                    let _ = catch("receive", || holder.receive_sync_message(&mut sh, m))?;
                }
                if !any {
                    break;
                }
            }
            (format!("sync({name})"), res)
        }
        6 => {
            // load of a concatenated file: target's own save ++ raw chunks of a branch
            let mut bytes = t.save();
            for c in pick(rng, src_new) {
                bytes.extend_from_slice(c.raw_bytes());
            }
            let r = catch("load(concat)", || AutoCommit::load_with_options(&bytes, load_opts(sc.enc)))?;
            match r {
                Ok(d) => {
                    let a = t.get_actor().clone();
                    *t = d.with_actor(a);
                    ("load(save ++ chunks)".to_string(), Ok(()))
                }
                Err(e) => ("load(save ++ chunks)".to_string(), Err(e.to_string())),
            }
        }
        _ => {
            // local commit by the contested actor on the target
            let k = ["a", "b", "zz"][rng.below(3)];
            let v = rng.below(100) as i64;
            let r = catch("local put", || t.put(ROOT, k, v))?.map_err(|e| e.to_string());
            catch("local commit", || t.commit_with(CommitOptions::default().with_time(0)))?;
            tally.class("local_commit_by_contested_actor");
            ("local put+commit".to_string(), r)
        }
    };
    Ok(Delivery { what, result })
}

pub fn target(sc: &Scenario, rng: &mut Lcg) -> (AutoCommit, bool) {
    match rng.below(3) {
        0 => (AutoCommit::new_with_encoding(sc.enc).with_actor(ActorId::from(vec![0xEEu8, 1])), false),
        1 => (AutoCommit::load_with_options(&sc.base.save(), load_opts(sc.enc)).unwrap().with_actor(ActorId::from(vec![0xEEu8, 2])), false),
        _ => (AutoCommit::load_with_options(&sc.base.save(), load_opts(sc.enc)).unwrap().with_actor(sc.actor.clone()), true),
    }
}
