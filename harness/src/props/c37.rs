//! C37 Public API calls never panic.
//!
//! A generated multi-replica history gives a target replica with real content; a generated sequence of
//! "abuse calls" is then run against it. Every call draws its arguments from pools built out of that
//! history: valid values, stale values (ids / cursors / heads / patch logs of other replicas, other
//! objects, other documents or other times; wrong object kinds; non-antichain, duplicated and unknown
//! heads) and out-of-range values (indexes len, len+1, 2^32, usize::MAX; reversed and oversized ranges;
//! isize::MIN/MAX deletes; reversed mark ranges; counter overflow; empty and very long keys).
//! Oracle: no call panics. Err / None / empty results are all fine.
//!
//! Signatures are `C37:<entry point that panicked>:<panic signature>`. Development aids (environment):
//! `VERIF_SURVEY=1` keeps a case going after a panic (the document is restored from a clone taken before
//! the call) and records every further signature in the driver's survey table; `VERIF_C37_INV=1` runs the
//! library's own op-set validators after every call and names the call after which they fail
//! (`...:diagnostic:op-set-out-of-order-after-the-call`, not part of the oracle); `VERIF_C37_AVOID=all` or a
//! comma list of the tags in `AVOID_RULES` leaves out the choices that lead to those findings, exactly as
//! a `known` entry for C37 in known_findings.json does; `VERIF_DEBUG=1` reports slow calls. `run_case`
//! with `Mode { trace: true, .. }` prints the target document's ops and every concrete argument.
use super::common::*;
use crate::engine::driver::*;
use crate::engine::graph::Graph;
use crate::engine::interp::{expand_of, load_opts, scalar, FRAGS, KEYS, MARK_NAMES};
use crate::engine::obs::winner_objects;
use crate::engine::program::*;
use automerge::hydrate;
use automerge::iter::Span;
use automerge::marks::{Mark, UpdateSpansConfig};
use automerge::sync::{self, SyncDoc};
use automerge::transaction::{CommitOptions, Transactable};
use automerge::{
    ActorId, AutoCommit, Automerge, Change, ChangeHash, Cursor, CursorPosition, MoveCursor, ObjId, ObjType, PatchLog, Prop,
    ReadDoc, ScalarValue, TextEncoding, ROOT,
};
use proptest::prelude::*;
use serde::{Deserialize, Serialize};
use std::cell::{Cell, RefCell};
use std::collections::{HashMap, HashSet};
use std::ops::Bound;

#[derive(Clone, Debug, PartialEq, Eq, Hash, Serialize, Deserialize)]
pub struct AbuseCall {
    pub k: u8,
    pub a: u16,
    pub b: u16,
    pub c: u16,
    pub d: u16,
}

type Case = (Program, Vec<AbuseCall>);

pub const NKINDS: u8 = 60;

#[derive(Clone, Copy, PartialEq, Eq, Debug)]
enum Kind {
    Valid,
    Stale,
    Oor,
}

#[derive(Clone, Copy, PartialEq, Eq)]
enum Want {
    Map,
    List,
    Text,
    Seq,
    Any,
}

fn fits(want: Want, t: ObjType) -> bool {
    match want {
        Want::Map => matches!(t, ObjType::Map | ObjType::Table),
        Want::List => t == ObjType::List,
        Want::Text => t == ObjType::Text,
        Want::Seq => matches!(t, ObjType::List | ObjType::Text),
        Want::Any => true,
    }
}

/// 16 buckets of 4096 values: (bucket, position within the bucket); both monotone in x
fn split(x: u16) -> (usize, usize) {
    ((x >> 12) as usize, (x & 0xFFF) as usize)
}
fn within(low: usize, n: usize) -> usize {
    if n == 0 {
        0
    } else {
        (low * n) >> 12
    }
}
/// spread buckets lo..16 of x over a full u16 (monotone)
fn spread(x: u16, lo: u16) -> u16 {
    let base = (lo as u32) << 12;
    let span = 0x10000u32 - base;
    ((((x as u32).saturating_sub(base)) * 0x10000) / span).min(0xFFFF) as u16
}

/// Steering away from findings that are listed as `known` for C37 (and, as a development aid, from the tags
/// named in VERIF_C37_AVOID): a listed panic would otherwise end most cases early and hide whatever lies
/// behind it. Every avoided choice is counted as an `excluded:<tag>` class. Never active while stored cases
/// are replayed.
const AVOID_RULES: &[(&str, &str)] = &[
    ("hexane/src/prefix.rs:attempt to add with overflow", "index-near-usize-max"),
    ("types.rs:called `Result::unwrap()` on an `Err` value: TryFromIntError", "op-counter-over-u32"),
    ("iter/list_range.rs:attempt to", "list-range-bounds"),
    ("make_patches(foreign log)", "foreign-patch-log"),
    ("patches/patch_log.rs:assertion", "foreign-patch-log"),
    ("obj_range.contains", "cursor-of-other-object"),
    ("attempt to negate with overflow", "delete-isize-min"),
    ("hexane/src/delta/mod.rs:attempt to subtract with overflow", "extreme-commit-time"),
    ("MissingOps", "duplicate-need"),
    ("op_set2/op.rs:attempt to add with overflow", "counter-overflow"),
    ("transaction/inner.rs:attempt to add with overflow", "counter-overflow"),
    ("iter/map_range.rs:attempt to", "counter-overflow"),
    ("iter/list_range.rs:attempt to add with overflow", "counter-overflow"),
    ("value.rs:attempt to add with overflow", "counter-overflow"),
    ("visible.rs:attempt to add with overflow", "counter-overflow"),
    ("op_set2/op_set.rs:assertion `left == right` failed", "nan-mark-value"),
    ("init_root_from_hydrate", "init-root-on-non-empty-document"),
    ("sequence_tree.rs:insertion index", "lone-combining-mark"),
];

fn avoided() -> &'static Vec<&'static str> {
    static TAGS: std::sync::OnceLock<Vec<&'static str>> = std::sync::OnceLock::new();
    TAGS.get_or_init(|| {
        let mut v: Vec<&'static str> = vec![];
        let env = std::env::var("VERIF_C37_AVOID").unwrap_or_default();
        for (_, tag) in AVOID_RULES {
            if (env == "all" || env.split(',').any(|t| t == *tag)) && !v.contains(tag) {
                v.push(tag);
            }
        }
        for f in load_findings() {
            if f.property == "C37" && f.status == "known" {
                for (needle, tag) in AVOID_RULES {
                    if f.signature.contains(needle) && !v.contains(tag) {
                        v.push(tag);
                    }
                }
            }
        }
        v
    })
}

struct Env {
    enc: TextEncoding,
    doc: AutoCommit,
    others: Vec<AutoCommit>,
    alien: AutoCommit,
    twin: AutoCommit,
    forks: Vec<AutoCommit>,
    objs: Vec<(ObjId, ObjType)>,
    unreachable: Vec<ObjId>,
    foreign: Vec<ObjId>,
    alien_objs: Vec<ObjId>,
    scalar_ids: Vec<ObjId>,
    fabricated: Vec<ObjId>,
    recorded: Vec<Vec<ChangeHash>>,
    alien_heads: Vec<ChangeHash>,
    deps: HashMap<ChangeHash, Vec<ChangeHash>>,
    all_hashes: Vec<ChangeHash>,
    cur: Vec<ChangeHash>,
    held: Vec<(ObjId, Cursor)>,
    alien_cursors: Vec<Cursor>,
    fab_cursors: Vec<Cursor>,
    foreign_log: PatchLog,
    actors: Vec<ActorId>,
    name: Cell<&'static str>,
    notes: RefCell<Vec<(&'static str, Kind)>>,
    called: RefCell<Vec<&'static str>>,
    main: Cell<&'static str>,
    tracing: bool,
}

impl Env {
    /// true when choices leading to the tagged known finding are to be left out (counted)
    fn avoid(&self, tag: &'static str, class: &'static str) -> bool {
        if !strict_replay() && avoided().contains(&tag) {
            self.note(class, Kind::Valid);
            true
        } else {
            false
        }
    }
    fn at(&self, n: &'static str) {
        self.name.set(n);
        if self.tracing {
            eprintln!("      call {n}");
        }
    }
    /// an entry point exercised by the current abuse call; the first one is the call's main entry point
    fn call(&self, n: &'static str) {
        self.at(n);
        self.called.borrow_mut().push(n);
        if self.main.get().is_empty() {
            self.main.set(n);
        }
    }
    /// an auxiliary library call made on the way
    fn sub(&self, n: &'static str) {
        self.at(n);
        self.called.borrow_mut().push(n);
    }
    fn val<T: std::fmt::Debug>(&self, what: &str, v: T) -> T {
        if self.tracing {
            let s = format!("{v:?}");
            eprintln!("      arg {what} = {}", if s.len() > 300 { format!("{}...({} chars)", s.chars().take(300).collect::<String>(), s.len()) } else { s });
        }
        v
    }
    fn note(&self, class: &'static str, kind: Kind) {
        self.notes.borrow_mut().push((class, kind));
    }
    fn refresh(&mut self) {
        self.at("get_heads");
        self.cur = self.doc.get_heads();
    }
    fn remember(&mut self, id: ObjId, t: ObjType) {
        if self.objs.len() < 96 {
            self.objs.push((id, t));
        }
    }
    fn len(&self, o: &ObjId) -> usize {
        self.at("length");
        self.doc.length(o)
    }
    fn ty(&self, o: &ObjId) -> Option<ObjType> {
        self.at("object_type");
        self.doc.object_type(o).ok()
    }

    // ------------------------------------------------------------------ objects
    fn obj(&self, x: u16, want: Want) -> ObjId {
        let (bucket, low) = split(x);
        self.at("object_type");
        let live: Vec<(ObjId, ObjType)> = self.objs.iter().filter_map(|(id, _)| self.doc.object_type(id).ok().map(|t| (id.clone(), t))).collect();
        let right: Vec<ObjId> = live.iter().filter(|(_, t)| fits(want, *t)).map(|(i, _)| i.clone()).collect();
        let wrong: Vec<ObjId> = live.iter().filter(|(_, t)| !fits(want, *t)).map(|(i, _)| i.clone()).collect();
        let pick = |v: &[ObjId]| -> Option<ObjId> {
            if v.is_empty() {
                None
            } else {
                Some(v[within(low, v.len())].clone())
            }
        };
        let (id, src): (Option<ObjId>, &'static str) = match bucket {
            0..=7 => (pick(&right), "obj:valid"),
            8 | 9 => (pick(&wrong), "obj:wrong-kind"),
            10 => (pick(&self.unreachable), "obj:unreachable"),
            11 => (pick(&self.foreign), "obj:other-replica"),
            12 => (pick(&self.alien_objs), "obj:other-document"),
            13 => (pick(&self.scalar_ids), "obj:scalar-op-id"),
            14 => (pick(&self.fabricated), "obj:fabricated"),
            _ => (Some(ROOT), "obj:root"),
        };
        let (id, src) = match id {
            Some(i) => (i, src),
            None => match pick(&right).or_else(|| pick(&wrong)) {
                Some(i) => (i, "obj:valid"),
                None => (ROOT, "obj:root"),
            },
        };
        match self.doc.object_type(&id) {
            Ok(t) if fits(want, t) => {
                if src == "obj:unreachable" {
                    self.note(src, Kind::Stale)
                } else if src == "obj:wrong-kind" || src == "obj:valid" || src == "obj:root" {
                    self.note(if id == ROOT { "obj:root" } else { "obj:valid" }, Kind::Valid)
                } else {
                    // an id from elsewhere that happens to name an object of the wanted kind here
                    self.note(src, Kind::Stale)
                }
            }
            Ok(_) => self.note(if src == "obj:valid" || src == "obj:root" { "obj:wrong-kind" } else { src }, Kind::Stale),
            Err(_) => self.note(if src == "obj:valid" || src == "obj:wrong-kind" { "obj:unknown" } else { src }, Kind::Stale),
        }
        self.val("obj", id)
    }

    // ------------------------------------------------------------------ indexes
    fn index(&self, x: u16, len: usize, allow_len: bool) -> usize {
        let (mut bucket, low) = split(x);
        if bucket >= 14 && self.avoid("index-near-usize-max", "excluded:index-near-usize-max") {
            bucket = 13;
        }
        let i = match bucket {
            0..=5 => within(low, len),
            6 => 0,
            7 => len.saturating_sub(1),
            8 => len,
            9 => len + 1,
            10 => len + 2 + low,
            11 => u32::MAX as usize,
            12 => u32::MAX as usize + 1,
            13 => isize::MAX as usize,
            14 => usize::MAX - 1,
            _ => usize::MAX,
        };
        if i < len || (i == len && allow_len) {
            self.note("idx:in-range", Kind::Valid);
        } else if i == len {
            self.note("idx:len", Kind::Oor);
        } else if i <= len + 5000 {
            self.note("idx:past-end", Kind::Oor);
        } else if i < usize::MAX - 1 {
            self.note("idx:huge", Kind::Oor);
        } else {
            self.note("idx:usize-max", Kind::Oor);
        }
        self.val("index", i)
    }

    fn del(&self, x: u16, pos: usize, len: usize) -> isize {
        let (bucket, low) = split(x);
        let rest = len.saturating_sub(pos.min(len));
        let p = pos.min(1 << 40) as isize;
        let d: isize = match bucket {
            0..=3 => within(low, rest + 1) as isize,
            4 => 0,
            5 => rest as isize + 1,
            6 => rest as isize + 2 + low as isize,
            7 => -1,
            8 => -p,
            9 => -p - 1,
            10 => -(low as isize) - 2,
            11 => isize::MAX,
            12 => {
                if self.avoid("delete-isize-min", "excluded:delete-isize-min") {
                    isize::MIN + 1
                } else {
                    isize::MIN
                }
            }
            13 => isize::MIN + 1,
            14 => isize::MAX - 1,
            _ => i32::MIN as isize,
        };
        let ok = if d >= 0 { pos <= len && d as usize <= rest } else { pos <= len && d.unsigned_abs() <= pos };
        if ok {
            self.note(if d < 0 { "del:negative-in-range" } else { "del:in-range" }, Kind::Valid);
        } else if d == isize::MAX || d == isize::MIN || d == isize::MIN + 1 || d == isize::MAX - 1 {
            self.note("del:isize-extreme", Kind::Oor);
        } else {
            self.note(if d < 0 { "del:negative-past-start" } else { "del:past-end" }, Kind::Oor);
        }
        self.val("del", d)
    }

    // ------------------------------------------------------------------ heads
    fn knows(&self, hs: &[ChangeHash]) -> bool {
        self.at("get_change_by_hash");
        hs.iter().all(|h| ReadDoc::get_change_by_hash(&self.doc, h).is_some())
    }
    fn unknown_hash(low: usize) -> ChangeHash {
        let mut b = [0u8; 32];
        b[0] = 0xC3;
        b[1] = (low >> 8) as u8;
        b[2] = low as u8;
        if low % 7 == 0 {
            b = [0u8; 32];
        } else if low % 7 == 1 {
            b = [0xFFu8; 32];
        }
        ChangeHash(b)
    }
    fn heads(&self, x: u16) -> Vec<ChangeHash> {
        let (bucket, low) = split(x);
        let known: Vec<&Vec<ChangeHash>> = self.recorded.iter().filter(|h| self.knows(h)).collect();
        let unknown: Vec<&Vec<ChangeHash>> = self.recorded.iter().filter(|h| !self.knows(h)).collect();
        let pick_known = || -> Vec<ChangeHash> {
            if known.is_empty() {
                self.cur.clone()
            } else {
                known[within(low, known.len())].clone()
            }
        };
        let (hs, class, kind): (Vec<ChangeHash>, &'static str, Kind) = match bucket {
            0..=2 => (self.cur.clone(), "heads:current", Kind::Valid),
            3..=5 => (pick_known(), "heads:recorded", Kind::Valid),
            6 => (vec![], "heads:empty", Kind::Valid),
            7 => {
                if unknown.is_empty() {
                    (vec![Self::unknown_hash(low)], "heads:unknown-hash", Kind::Stale)
                } else {
                    (unknown[within(low, unknown.len())].clone(), "heads:other-replica", Kind::Stale)
                }
            }
            8 => (vec![Self::unknown_hash(low)], "heads:unknown-hash", Kind::Stale),
            9 => {
                let mut h = self.cur.clone();
                h.insert(within(low, h.len() + 1), Self::unknown_hash(low));
                (h, "heads:known-plus-unknown", Kind::Stale)
            }
            10 => {
                // a head together with one of its ancestors
                let mut h = pick_known();
                let mut anc: Option<ChangeHash> = None;
                if let Some(first) = h.first().copied() {
                    let mut at = first;
                    for _ in 0..=(low % 4) {
                        match self.deps.get(&at).and_then(|d| d.first()) {
                            Some(d) => {
                                anc = Some(*d);
                                at = *d;
                            }
                            None => break,
                        }
                    }
                }
                match anc {
                    Some(a) => {
                        if low & 1 == 0 {
                            h.push(a)
                        } else {
                            h.insert(0, a)
                        }
                        (h, "heads:non-antichain", Kind::Stale)
                    }
                    None => (h, "heads:recorded", Kind::Valid),
                }
            }
            11 => {
                let mut h = pick_known();
                if h.is_empty() {
                    (h, "heads:empty", Kind::Valid)
                } else {
                    let f = h[within(low, h.len())];
                    h.push(f);
                    (h, "heads:duplicated", Kind::Stale)
                }
            }
            12 => {
                if self.all_hashes.len() < 2 {
                    (self.all_hashes.clone(), "heads:recorded", Kind::Valid)
                } else {
                    let mut h = self.all_hashes.clone();
                    if low & 1 == 1 {
                        h.reverse();
                    }
                    (h, "heads:every-change", Kind::Stale)
                }
            }
            13 => (self.alien_heads.clone(), "heads:other-document", Kind::Stale),
            14 => {
                // a single non-head ancestor: a valid point in history that was never a recorded heads
                if self.all_hashes.is_empty() {
                    (vec![], "heads:empty", Kind::Valid)
                } else {
                    (vec![self.all_hashes[within(low, self.all_hashes.len())]], "heads:single-ancestor", Kind::Valid)
                }
            }
            _ => {
                let mut h = pick_known();
                h.reverse();
                (h, "heads:recorded-reversed", Kind::Valid)
            }
        };
        // dynamic correction: recorded heads that have become unknown / known
        let kind = if kind == Kind::Valid && !self.knows(&hs) { Kind::Stale } else { kind };
        self.note(if kind == Kind::Stale && class == "heads:current" { "heads:unknown-hash" } else { class }, kind);
        self.val(class, hs)
    }
    /// None in a quarter of the cases (the un-suffixed read), otherwise a heads pool entry
    fn opt_heads(&self, x: u16) -> Option<Vec<ChangeHash>> {
        if x < 0x4000 {
            None
        } else {
            Some(self.heads(spread(x, 4)))
        }
    }
    fn hash(&self, x: u16) -> ChangeHash {
        let v = self.hash_inner(x);
        self.val("hash", v)
    }
    fn hash_inner(&self, x: u16) -> ChangeHash {
        let (bucket, low) = split(x);
        match bucket {
            0..=9 if !self.all_hashes.is_empty() => {
                self.note("hash:known", Kind::Valid);
                self.all_hashes[within(low, self.all_hashes.len())]
            }
            10 | 11 if !self.cur.is_empty() => {
                self.note("hash:known", Kind::Valid);
                self.cur[within(low, self.cur.len())]
            }
            12 if !self.alien_heads.is_empty() => {
                self.note("hash:other-document", Kind::Stale);
                self.alien_heads[0]
            }
            13 => {
                let f: Vec<ChangeHash> = self.recorded.iter().flatten().copied().filter(|h| !self.deps.contains_key(h)).collect();
                if f.is_empty() {
                    self.note("hash:unknown", Kind::Stale);
                    Self::unknown_hash(low)
                } else {
                    self.note("hash:other-replica", Kind::Stale);
                    f[within(low, f.len())]
                }
            }
            _ => {
                self.note("hash:unknown", Kind::Stale);
                Self::unknown_hash(low)
            }
        }
    }

    // ------------------------------------------------------------------ props
    fn key(&self, x: u16, o: &ObjId) -> String {
        let v = self.key_inner(x, o);
        self.val("key", v)
    }
    fn key_inner(&self, x: u16, o: &ObjId) -> String {
        let (bucket, low) = split(x);
        match bucket {
            0..=5 => {
                self.at("keys");
                let ks: Vec<String> = if matches!(self.doc.object_type(o), Ok(ObjType::Map | ObjType::Table)) { self.doc.keys(o).take(64).collect() } else { vec![] };
                if ks.is_empty() {
                    self.note("key:pool", Kind::Valid);
                    KEYS[within(low, KEYS.len())].to_string()
                } else {
                    self.note("key:existing", Kind::Valid);
                    ks[within(low, ks.len())].clone()
                }
            }
            6..=9 => {
                let k = KEYS[within(low, KEYS.len())];
                self.note(if k.is_empty() { "key:empty" } else { "key:pool" }, if k.is_empty() { Kind::Oor } else { Kind::Valid });
                k.to_string()
            }
            10 => {
                self.note("key:absent", Kind::Valid);
                "zz-absent".to_string()
            }
            11 => {
                self.note("key:empty", Kind::Oor);
                String::new()
            }
            12 => {
                self.note("key:long", Kind::Oor);
                "k".repeat(5000)
            }
            13 => {
                self.note("key:nul", Kind::Oor);
                "a\u{0}b".to_string()
            }
            14 => {
                self.note("key:multibyte", Kind::Valid);
                "\u{1F600}\u{e9}key".to_string()
            }
            _ => {
                self.note("key:very-long", Kind::Oor);
                "\u{e9}".repeat(40_000)
            }
        }
    }
    fn prop(&self, x: u16, o: &ObjId) -> Prop {
        let (bucket, low) = split(x);
        let ty = self.ty(o);
        let natural_seq = match ty {
            Some(t) => matches!(t, ObjType::List | ObjType::Text),
            None => low & 1 == 1,
        };
        let use_seq = if bucket < 12 { natural_seq } else { !natural_seq };
        if bucket >= 12 && ty.is_some() {
            self.note(if use_seq { "prop:index-on-map" } else { "prop:key-on-sequence" }, Kind::Stale);
        }
        let inner = if bucket < 12 { ((((bucket << 12) | low) as u32 * 0x10000) / (12 << 12)).min(0xFFFF) as u16 } else { (low << 4) as u16 };
        if use_seq {
            let len = self.len(o);
            Prop::Seq(self.index(inner, len, false))
        } else {
            Prop::Map(self.key(inner, o))
        }
    }

    // ------------------------------------------------------------------ values
    fn value(&self, x: u16, d: u16) -> ScalarValue {
        let v = self.value_inner(x, d);
        self.val("value", v)
    }
    fn value_inner(&self, x: u16, d: u16) -> ScalarValue {
        let (bucket, low) = split(x);
        let n = (d % 15) as i64 - 3;
        match bucket {
            0..=9 => {
                self.note("value:ordinary", Kind::Valid);
                scalar(((x as u32 * 16) / 10).min(0xFFFF) as u16, n, d)
            }
            10 => {
                self.note("value:extreme", Kind::Oor);
                ScalarValue::Int(i64::MIN)
            }
            11 => {
                self.note("value:extreme", Kind::Oor);
                ScalarValue::Uint(u64::MAX)
            }
            12 => {
                self.note("value:extreme", Kind::Oor);
                ScalarValue::F64(if low & 1 == 0 && !self.avoid("nan-mark-value", "excluded:nan-value") { f64::NAN } else { f64::NEG_INFINITY })
            }
            13 => {
                if self.avoid("counter-overflow", "excluded:counter-overflow") {
                    ScalarValue::counter(low as i64)
                } else {
                    self.note("value:counter-extreme", Kind::Oor);
                    ScalarValue::counter(if low & 1 == 0 { i64::MAX } else { i64::MIN })
                }
            }
            14 => {
                self.note("value:long-string", Kind::Oor);
                ScalarValue::Str("\u{e9}x".repeat(3000).into())
            }
            _ => {
                self.note("value:extreme", Kind::Oor);
                if low & 1 == 0 {
                    ScalarValue::Timestamp(i64::MIN)
                } else {
                    ScalarValue::Bytes(vec![])
                }
            }
        }
    }
    fn amount(&self, x: u16) -> i64 {
        let v = self.amount_inner(x);
        self.val("amount", v)
    }
    fn amount_inner(&self, x: u16) -> i64 {
        let (mut bucket, low) = split(x);
        if bucket >= 11 && self.avoid("counter-overflow", "excluded:counter-overflow") {
            bucket = 0;
        }
        match bucket {
            0..=9 => {
                self.note("inc:small", Kind::Valid);
                low as i64 % 9 - 3
            }
            10 => {
                self.note("inc:small", Kind::Valid);
                0
            }
            11 | 12 => {
                self.note("inc:i64-extreme", Kind::Oor);
                i64::MAX
            }
            13 | 14 => {
                self.note("inc:i64-extreme", Kind::Oor);
                i64::MIN
            }
            _ => {
                self.note("inc:i64-extreme", Kind::Oor);
                i64::MAX - 1
            }
        }
    }
    fn text(&self, x: u16) -> String {
        let v = self.text_inner(x);
        self.val("text", v)
    }
    fn text_inner(&self, x: u16) -> String {
        let (bucket, low) = split(x);
        match bucket {
            0..=9 => {
                self.note("text:ordinary", Kind::Valid);
                FRAGS[within(low, FRAGS.len())].to_string()
            }
            10 => {
                self.note("text:empty", Kind::Valid);
                String::new()
            }
            11 => {
                self.note("text:long", Kind::Oor);
                "ab\u{1F600}".repeat(150)
            }
            12 => {
                if self.avoid("lone-combining-mark", "excluded:lone-combining-mark") {
                    "e\u{301}".to_string()
                } else {
                    self.note("text:lone-combining", Kind::Valid);
                    "\u{301}".to_string()
                }
            }
            13 => {
                self.note("text:object-replacement", Kind::Valid);
                "\u{fffc}x\u{fffc}".to_string()
            }
            14 => {
                self.note("text:nul", Kind::Valid);
                "a\u{0}b".to_string()
            }
            _ => {
                self.note("text:zwj", Kind::Valid);
                "\u{1F468}\u{200D}\u{1F469}\u{200D}\u{1F467}\u{1F1E9}\u{1F1EA}".to_string()
            }
        }
    }
    fn objtype(x: u16) -> ObjType {
        [ObjType::Map, ObjType::List, ObjType::Text, ObjType::Table][sel(x, 4)]
    }
    fn hvalue(&self, x: u16, d: u16) -> hydrate::Value {
        let v = self.hvalue_inner(x, d);
        self.val("hvalue", v)
    }
    fn hvalue_inner(&self, x: u16, d: u16) -> hydrate::Value {
        let (bucket, low) = split(x);
        match bucket {
            0..=5 => hydrate::Value::Scalar(self.value(spread(x, 0) / 2, d)),
            6 => hydrate::Value::map(),
            7 => hydrate::Value::list(),
            8 => hydrate::Value::text(self.enc, FRAGS[within(low, FRAGS.len())]),
            9 => {
                let mut m: HashMap<String, hydrate::Value> = HashMap::new();
                m.insert("x".into(), hydrate::Value::scalar(1i64));
                m.insert("".into(), hydrate::Value::list());
                m.insert("t".into(), hydrate::Value::text(self.enc, "hi"));
                m.insert("c".into(), hydrate::Value::Scalar(ScalarValue::counter(2)));
                hydrate::Value::Map(hydrate::Map::from(m))
            }
            10 => hydrate::Value::from(vec![hydrate::Value::scalar(1i64), hydrate::Value::map(), hydrate::Value::from(vec![hydrate::Value::scalar("n")])]),
            11 | 12 => {
                // a value the library produced: hydrate of some object of the document
                let o = self.obj(spread((low << 4) as u16, 0) / 2, Want::Any);
                self.at("hydrate");
                ReadDoc::hydrate(&self.doc, &o, None).unwrap_or_else(|_| hydrate::Value::map())
            }
            13 => {
                // deep nesting
                let mut v = hydrate::Value::scalar(0i64);
                for i in 0..40 {
                    v = if i % 2 == 0 {
                        hydrate::Value::from(vec![v])
                    } else {
                        let mut m: HashMap<String, hydrate::Value> = HashMap::new();
                        m.insert("n".into(), v);
                        hydrate::Value::Map(hydrate::Map::from(m))
                    };
                }
                self.note("value:deeply-nested", Kind::Oor);
                v
            }
            14 => hydrate::Value::text(self.enc, ""),
            _ => hydrate::Value::from((0..300).map(|i| hydrate::Value::scalar(i as i64)).collect::<Vec<_>>()),
        }
    }

    // ------------------------------------------------------------------ cursors
    fn seq_objs(&self) -> Vec<ObjId> {
        self.at("object_type");
        self.objs.iter().filter(|(id, _)| matches!(self.doc.object_type(id), Ok(ObjType::List | ObjType::Text))).map(|(i, _)| i.clone()).collect()
    }
    fn cursor(&self, x: u16, o: &ObjId) -> Cursor {
        let v = self.cursor_inner(x, o);
        self.val("cursor", v)
    }
    fn cursor_inner(&self, x: u16, o: &ObjId) -> Cursor {
        let (bucket, low) = split(x);
        let fresh = |obj: &ObjId, mv: MoveCursor| -> Option<Cursor> {
            let len = self.len(obj);
            if len == 0 {
                return None;
            }
            self.at("get_cursor_moving");
            self.doc.get_cursor_moving(obj, within(low, len), None, mv).ok()
        };
        let (c, class, kind): (Option<Cursor>, &'static str, Kind) = match bucket {
            0..=4 => (fresh(o, MoveCursor::After), "cursor:valid", Kind::Valid),
            5 => (Some(Cursor::Start), "cursor:start", Kind::Valid),
            6 => (Some(Cursor::End), "cursor:end", Kind::Valid),
            7 => (fresh(o, MoveCursor::Before), "cursor:valid", Kind::Valid),
            8 | 15 if self.avoid("cursor-of-other-object", "excluded:cursor-of-other-object") => (None, "", Kind::Valid),
            8 => {
                let others: Vec<ObjId> = self.seq_objs().into_iter().filter(|s| s != o).collect();
                if others.is_empty() {
                    (None, "", Kind::Valid)
                } else {
                    (fresh(&others[within(low, others.len())], MoveCursor::After), "cursor:other-object", Kind::Stale)
                }
            }
            9 | 10 => {
                if self.alien_cursors.is_empty() {
                    (None, "", Kind::Valid)
                } else {
                    (Some(self.alien_cursors[within(low, self.alien_cursors.len())].clone()), "cursor:other-document", Kind::Stale)
                }
            }
            11..=13 => {
                if self.fab_cursors.is_empty() {
                    (None, "", Kind::Valid)
                } else {
                    (Some(self.fab_cursors[within(low, self.fab_cursors.len())].clone()), "cursor:fabricated", Kind::Stale)
                }
            }
            14 => {
                let mine: Vec<&Cursor> = self.held.iter().filter(|(h, _)| h == o).map(|(_, c)| c).collect();
                if mine.is_empty() {
                    (None, "", Kind::Valid)
                } else {
                    (Some(mine[within(low, mine.len())].clone()), "cursor:held-earlier", Kind::Valid)
                }
            }
            _ => {
                let theirs: Vec<&Cursor> = self.held.iter().filter(|(h, _)| h != o).map(|(_, c)| c).collect();
                if theirs.is_empty() {
                    (None, "", Kind::Valid)
                } else {
                    (Some(theirs[within(low, theirs.len())].clone()), "cursor:other-object", Kind::Stale)
                }
            }
        };
        match c {
            Some(c) => {
                self.note(class, kind);
                c
            }
            None => {
                self.note("cursor:start", Kind::Valid);
                Cursor::Start
            }
        }
    }

    fn actor(&self, x: u16) -> ActorId {
        let v = self.actor_inner(x);
        self.val("actor", v)
    }
    fn actor_inner(&self, x: u16) -> ActorId {
        let (bucket, low) = split(x);
        match bucket {
            0..=5 => {
                self.note("actor:new", Kind::Valid);
                ActorId::from(vec![0xC3u8, 0x07, low as u8, (low >> 8) as u8])
            }
            6..=9 if !self.actors.is_empty() => {
                self.note("actor:already-in-document", Kind::Stale);
                self.actors[within(low, self.actors.len())].clone()
            }
            10 | 11 => {
                self.note("actor:empty", Kind::Oor);
                ActorId::from(Vec::<u8>::new())
            }
            12 | 13 => {
                self.note("actor:long", Kind::Oor);
                ActorId::from(vec![0x5Au8; 300])
            }
            _ => {
                self.note("actor:new", Kind::Valid);
                ActorId::from(vec![0u8])
            }
        }
    }

    fn other_doc(&mut self, x: u16) -> AutoCommit {
        let (bucket, low) = split(x);
        match bucket {
            0..=6 if !self.others.is_empty() => {
                self.note("doc:other-replica", Kind::Valid);
                let i = within(low, self.others.len());
                self.others[i].clone()
            }
            7..=9 if !self.forks.is_empty() => {
                self.note("doc:own-fork", Kind::Valid);
                let i = within(low, self.forks.len());
                self.forks[i].clone()
            }
            10 | 11 => {
                self.note("doc:unrelated", Kind::Stale);
                self.alien.clone()
            }
            12 | 13 => {
                self.note("doc:same-actor-unrelated", Kind::Stale);
                self.twin.clone()
            }
            _ => {
                self.note("doc:self-clone", Kind::Valid);
                self.doc.clone()
            }
        }
    }
    fn some_changes(&mut self, x: u16, d: u16) -> Vec<Change> {
        let mut src = self.other_doc(x);
        self.at("get_changes");
        let mut ch = src.get_changes(&[]);
        let n = ch.len();
        match sel(d, 8) {
            0 => {}
            1 => ch.reverse(),
            2 => {
                let dup: Vec<Change> = ch.iter().take(3).cloned().collect();
                ch.extend(dup);
                self.note("changes:duplicated", Kind::Stale);
            }
            3 => {
                // drop a prefix: dependencies missing
                if n > 1 {
                    ch.drain(0..(1 + (d as usize % (n - 1))));
                    self.note("changes:missing-deps", Kind::Stale);
                }
            }
            4 => {
                if n > 0 {
                    ch.rotate_left(d as usize % n);
                }
            }
            5 => {
                // the same change many times
                if let Some(c) = ch.last().cloned() {
                    ch = vec![c.clone(), c.clone(), c];
                    self.note("changes:duplicated", Kind::Stale);
                }
            }
            6 => ch.truncate(n / 2),
            _ => ch.clear(),
        }
        ch
    }
}

fn range_usize(e: &Env, x: u16, y: u16, len: usize) -> (Bound<usize>, Bound<usize>) {
    let (bucket, _) = split(x);
    let i = e.index(y, len, true);
    let j = e.index(x.wrapping_mul(31).wrapping_add(y), len, true);
    let r = match bucket {
        0..=2 => (Bound::Unbounded, Bound::Unbounded),
        3..=5 => (Bound::Included(i.min(j)), Bound::Excluded(i.max(j))),
        6 => (Bound::Included(i), Bound::Excluded(j)),
        7 => (Bound::Included(i.max(j)), Bound::Excluded(i.min(j))),
        8 => (Bound::Included(i), Bound::Included(j)),
        9 => (Bound::Excluded(i), Bound::Included(j)),
        10 => (Bound::Excluded(i), Bound::Excluded(i)),
        11 => (Bound::Included(i), Bound::Unbounded),
        12 => (Bound::Unbounded, Bound::Included(j)),
        13 => (Bound::Excluded(usize::MAX), Bound::Unbounded),
        14 => (Bound::Unbounded, Bound::Included(usize::MAX)),
        _ => (Bound::Included(usize::MAX), Bound::Included(0)),
    };
    // Excluded(0) as a start and Included(usize::MAX) as an end overflow in normalize_range
    let risky = matches!(r.0, Bound::Excluded(0)) || matches!(r.1, Bound::Included(usize::MAX));
    let r = if risky && e.avoid("list-range-bounds", "excluded:list-range-bounds") { (Bound::Included(i.min(j)), Bound::Excluded(i.max(j))) } else { r };
    let lo = match r.0 {
        Bound::Included(v) => Some(v),
        Bound::Excluded(v) => Some(v),
        Bound::Unbounded => None,
    };
    let hi = match r.1 {
        Bound::Included(v) => Some(v),
        Bound::Excluded(v) => Some(v),
        Bound::Unbounded => None,
    };
    if let (Some(l), Some(h)) = (lo, hi) {
        if l > h {
            e.note("range:reversed", Kind::Oor);
        }
    }
    if lo == Some(usize::MAX) || hi == Some(usize::MAX) {
        e.note("range:usize-max-bound", Kind::Oor);
    }
    r
}

fn range_string(e: &Env, x: u16, y: u16, o: &ObjId) -> (Bound<String>, Bound<String>) {
    let (bucket, _) = split(x);
    let a = e.key(y, o);
    let b = e.key(x.wrapping_mul(31).wrapping_add(y), o);
    let (lo, hi) = if a <= b { (a.clone(), b.clone()) } else { (b.clone(), a.clone()) };
    match bucket {
        0..=3 => (Bound::Unbounded, Bound::Unbounded),
        4..=6 => (Bound::Included(lo), Bound::Excluded(hi)),
        7 | 8 => {
            if lo != hi {
                e.note("range:reversed", Kind::Oor);
            }
            (Bound::Included(hi), Bound::Excluded(lo))
        }
        9 => (Bound::Included(a.clone()), Bound::Included(a)),
        10 => {
            e.note("range:empty-excluded", Kind::Oor);
            (Bound::Excluded(a.clone()), Bound::Excluded(a))
        }
        11 => (Bound::Excluded(lo), Bound::Included(hi)),
        12 => (Bound::Included(a), Bound::Unbounded),
        13 => (Bound::Unbounded, Bound::Included(b)),
        14 => {
            if lo != hi {
                e.note("range:reversed", Kind::Oor);
            }
            (Bound::Excluded(hi), Bound::Included(lo))
        }
        _ => (Bound::Included(String::new()), Bound::Excluded(String::new())),
    }
}

/// one abuse call; returns true when the library rejected the call (Err / None / empty result)
fn body(e: &mut Env, call: &AbuseCall) -> bool {
    let (a, b, c, d) = (call.a, call.b, call.c, call.d);
    match call.k % NKINDS {
        0 => {
            let o = e.obj(a, Want::Any);
            match e.opt_heads(c) {
                None => {
                    e.call("keys");
                    e.doc.keys(&o).count() == 0
                }
                Some(h) => {
                    e.call("keys_at");
                    e.doc.keys_at(&o, &h).count() == 0
                }
            }
        }
        1 => {
            let o = e.obj(a, Want::Map);
            let r = range_string(e, b, d, &o);
            match e.opt_heads(c) {
                None => {
                    e.call("map_range");
                    e.doc.map_range(&o, r).count() == 0
                }
                Some(h) => {
                    e.call("map_range_at");
                    e.doc.map_range_at(&o, r, &h).count() == 0
                }
            }
        }
        2 => {
            let o = e.obj(a, Want::Seq);
            let len = e.len(&o);
            let r = range_usize(e, b, d, len);
            match e.opt_heads(c) {
                None => {
                    e.call("list_range");
                    e.doc.list_range(&o, r).count() == 0
                }
                Some(h) => {
                    e.call("list_range_at");
                    e.doc.list_range_at(&o, r, &h).count() == 0
                }
            }
        }
        3 => {
            let o = e.obj(a, Want::Any);
            match e.opt_heads(c) {
                None => {
                    e.call("values");
                    e.doc.values(&o).count() == 0
                }
                Some(h) => {
                    e.call("values_at");
                    e.doc.values_at(&o, &h).count() == 0
                }
            }
        }
        4 => {
            let o = e.obj(a, Want::Any);
            match e.opt_heads(c) {
                None => {
                    e.call("length");
                    e.doc.length(&o) == 0
                }
                Some(h) => {
                    e.call("length_at");
                    e.doc.length_at(&o, &h) == 0
                }
            }
        }
        5 => {
            let o = e.obj(a, Want::Any);
            e.call("object_type");
            e.doc.object_type(&o).is_err()
        }
        6 => {
            let o = e.obj(a, Want::Seq);
            match e.opt_heads(c) {
                None => {
                    e.call("marks");
                    e.doc.marks(&o).map(|m| m.is_empty()).unwrap_or(true)
                }
                Some(h) => {
                    e.call("marks_at");
                    e.doc.marks_at(&o, &h).map(|m| m.is_empty()).unwrap_or(true)
                }
            }
        }
        7 => {
            let o = e.obj(a, Want::Seq);
            let len = e.len(&o);
            let i = e.index(b, len, false);
            let h = e.opt_heads(c);
            e.call("get_marks");
            e.doc.get_marks(&o, i, h.as_deref()).map(|m| m.num_marks() == 0).unwrap_or(true)
        }
        8 => {
            let o = e.obj(a, Want::Any);
            let h = e.opt_heads(c);
            e.call("hydrate");
            ReadDoc::hydrate(&e.doc, &o, h.as_deref()).is_err()
        }
        9 => {
            let o = e.obj(a, Want::Text);
            match e.opt_heads(c) {
                None => {
                    e.call("spans");
                    e.doc.spans(&o).map(|s| s.count() == 0).unwrap_or(true)
                }
                Some(h) => {
                    e.call("spans_at");
                    e.doc.spans_at(&o, &h).map(|s| s.count() == 0).unwrap_or(true)
                }
            }
        }
        10 => {
            let o = e.obj(a, Want::Text);
            match e.opt_heads(c) {
                None => {
                    e.call("text");
                    e.doc.text(&o).is_err()
                }
                Some(h) => {
                    e.call("text_at");
                    e.doc.text_at(&o, &h).is_err()
                }
            }
        }
        11 => {
            let o = e.obj(a, Want::Any);
            let p = e.prop(b, &o);
            match e.opt_heads(c) {
                None => {
                    e.call("get");
                    !matches!(e.doc.get(&o, p), Ok(Some(_)))
                }
                Some(h) => {
                    e.call("get_at");
                    !matches!(e.doc.get_at(&o, p, &h), Ok(Some(_)))
                }
            }
        }
        12 => {
            let o = e.obj(a, Want::Any);
            let p = e.prop(b, &o);
            match e.opt_heads(c) {
                None => {
                    e.call("get_all");
                    e.doc.get_all(&o, p).map(|v| v.is_empty()).unwrap_or(true)
                }
                Some(h) => {
                    e.call("get_all_at");
                    e.doc.get_all_at(&o, p, &h).map(|v| v.is_empty()).unwrap_or(true)
                }
            }
        }
        13 => {
            let o = e.obj(a, Want::Any);
            match e.opt_heads(c) {
                None => {
                    e.call("parents");
                    let n = e.doc.parents(&o).map(|p| p.count()).unwrap_or(0);
                    let _ = e.doc.parents(&o).map(|p| p.path());
                    let _ = e.doc.parents(&o).map(|p| p.visible_path());
                    n == 0
                }
                Some(h) => {
                    e.call("parents_at");
                    let n = e.doc.parents_at(&o, &h).map(|p| p.count()).unwrap_or(0);
                    let _ = e.doc.parents_at(&o, &h).map(|p| p.path());
                    let _ = e.doc.parents_at(&o, &h).map(|p| p.visible_path());
                    n == 0
                }
            }
        }
        14 | 15 => {
            let o = e.obj(a, Want::Seq);
            let len = e.len(&o);
            let pos = match sel(d, 8) {
                0 => CursorPosition::Start,
                1 => CursorPosition::End,
                _ => CursorPosition::Index(e.index(b, len, false)),
            };
            let h = e.opt_heads(c);
            if call.k % NKINDS == 14 {
                e.call("get_cursor");
                e.doc.get_cursor(&o, pos, h.as_deref()).is_err()
            } else {
                let mv = if d & 1 == 0 { MoveCursor::Before } else { MoveCursor::After };
                e.call("get_cursor_moving");
                e.doc.get_cursor_moving(&o, pos, h.as_deref(), mv).is_err()
            }
        }
        16 => {
            let o = e.obj(a, Want::Seq);
            let cur = e.cursor(b, &o);
            let h = e.opt_heads(c);
            e.call("get_cursor_position");
            e.doc.get_cursor_position(&o, &cur, h.as_deref()).is_err()
        }
        17 => {
            if a < 0x2000 {
                e.call("iter");
                e.doc.iter().take(2000).count() == 0
            } else {
                let o = e.obj(spread(a, 2), Want::Any);
                let h = e.opt_heads(c);
                e.call("iter_at");
                e.doc.iter_at(&o, h.as_deref()).take(2000).count() == 0
            }
        }
        18 => {
            let h = e.heads(c);
            e.call("get_missing_deps");
            ReadDoc::get_missing_deps(&e.doc, &h).is_empty()
        }
        19 => {
            let h = e.hash(a);
            e.call("get_change_by_hash");
            match ReadDoc::get_change_by_hash(&e.doc, &h) {
                Some(ch) => {
                    e.call("Change::decode");
                    let _ = ch.decode();
                    e.call("Change::from_bytes");
                    let back = Change::from_bytes(ch.raw_bytes().to_vec());
                    let _ = back.map(|b| b.hash());
                    false
                }
                None => true,
            }
        }
        20 => {
            e.call("stats");
            let _ = e.doc.stats();
            let _ = e.doc.text_encoding();
            e.call("pending_ops");
            let _ = e.doc.pending_ops();
            e.call("base_heads");
            let _ = e.doc.base_heads();
            let _ = e.doc.get_actor();
            let _ = e.doc.is_empty();
            let _ = e.doc.diff_cursor();
            false
        }
        // ------------------------------------------------------------ transaction calls
        21 => {
            let o = e.obj(a, Want::Any);
            let p = e.prop(b, &o);
            let v = e.value(c, d);
            e.call("put");
            e.doc.put(&o, p, v).is_err()
        }
        22 => {
            let o = e.obj(a, Want::Any);
            let p = e.prop(b, &o);
            let t = Env::objtype(c);
            e.call("put_object");
            match e.doc.put_object(&o, p, t) {
                Ok(id) => {
                    e.remember(id, t);
                    false
                }
                Err(_) => true,
            }
        }
        23 => {
            let o = e.obj(a, Want::Seq);
            let len = e.len(&o);
            let i = e.index(b, len, true);
            let v = e.value(c, d);
            e.call("insert");
            e.doc.insert(&o, i, v).is_err()
        }
        24 => {
            let o = e.obj(a, Want::Seq);
            let len = e.len(&o);
            let i = e.index(b, len, true);
            let t = Env::objtype(c);
            e.call("insert_object");
            match e.doc.insert_object(&o, i, t) {
                Ok(id) => {
                    e.remember(id, t);
                    false
                }
                Err(_) => true,
            }
        }
        25 => {
            let o = e.obj(a, Want::Any);
            let p = e.prop(b, &o);
            e.call("delete");
            e.doc.delete(&o, p).is_err()
        }
        26 => {
            let o = e.obj(a, Want::Any);
            let p = e.prop(b, &o);
            let n = e.amount(c);
            e.call("increment");
            let r = e.doc.increment(&o, p.clone(), n).is_err();
            // reading the counter back (overflow of the accumulated value)
            e.call("get(after increment)");
            let _ = e.doc.get(&o, p.clone());
            e.call("get_all(after increment)");
            let _ = e.doc.get_all(&o, p);
            r
        }
        27 => {
            let o = e.obj(a, Want::List);
            let len = e.len(&o);
            let pos = e.index(b, len, true);
            let del = e.del(c, pos, len);
            let nv = sel(d, 5);
            let vals: Vec<hydrate::Value> = (0..nv).map(|i| e.hvalue(d.wrapping_mul(7 + i as u16).wrapping_add(a), d)).collect();
            e.call("splice");
            e.doc.splice(&o, pos, del, vals).is_err()
        }
        28 => {
            let o = e.obj(a, Want::Text);
            let len = e.len(&o);
            let pos = e.index(b, len, true);
            let del = e.del(c, pos, len);
            let s = e.text(d);
            e.call("splice_text");
            e.doc.splice_text(&o, pos, del, &s).is_err()
        }
        29 | 30 => {
            let o = e.obj(a, Want::Text);
            let len = e.len(&o);
            let start = e.index(b, len, true);
            let end = e.index(c, len, true);
            if start > end {
                e.note("mark:reversed-range", Kind::Oor);
            } else if start == end {
                e.note("mark:empty-range", Kind::Valid);
            }
            let nx = sel(d, 16);
            let name = if nx == 15 { String::new() } else { MARK_NAMES[nx % 3].to_string() };
            let ex = expand_of(nx / 3);
            if call.k % NKINDS == 29 {
                let v = e.value(d.wrapping_mul(13), d);
                e.call("mark");
                e.doc.mark(&o, Mark::new(name, v, start, end), ex).is_err()
            } else {
                e.call("unmark");
                e.doc.unmark(&o, &name, start, end, ex).is_err()
            }
        }
        31 => {
            let o = e.obj(a, Want::Text);
            let len = e.len(&o);
            let i = e.index(b, len, true);
            e.call("split_block");
            match e.doc.split_block(&o, i) {
                Ok(id) => {
                    e.remember(id, ObjType::Map);
                    false
                }
                Err(_) => true,
            }
        }
        32 => {
            let o = e.obj(a, Want::Text);
            let len = e.len(&o);
            let i = e.index(b, len, false);
            e.call("join_block");
            e.doc.join_block(&o, i).is_err()
        }
        33 => {
            let o = e.obj(a, Want::Text);
            let len = e.len(&o);
            let i = e.index(b, len, false);
            e.call("replace_block");
            match e.doc.replace_block(&o, i) {
                Ok(id) => {
                    e.remember(id, ObjType::Map);
                    false
                }
                Err(_) => true,
            }
        }
        34 => {
            let o = e.obj(a, Want::Text);
            let mut s = e.text(b);
            s.push_str(&e.text(c));
            e.call("update_text");
            e.doc.update_text(&o, &s).is_err()
        }
        35 => {
            let o = e.obj(a, Want::Text);
            let n = sel(b, 5);
            let mut spans: Vec<Span> = vec![];
            for i in 0..n {
                let x = c.wrapping_mul(3 + i as u16).wrapping_add(d);
                if x & 3 == 0 {
                    let mut m: HashMap<String, hydrate::Value> = HashMap::new();
                    if x & 4 == 0 {
                        m.insert("type".into(), hydrate::Value::scalar("p"));
                        m.insert("parents".into(), hydrate::Value::list());
                        m.insert("attrs".into(), hydrate::Value::map());
                    } else if x & 8 == 0 {
                        m.insert("k".into(), e.hvalue(x, d));
                    }
                    spans.push(Span::Block(hydrate::Map::from(m)));
                } else {
                    spans.push(Span::Text { text: e.text(x), marks: None });
                }
            }
            // spans the library produced (of this or another text object)
            if d & 1 == 1 {
                let src = e.obj(d, Want::Text);
                e.sub("spans");
                if let Ok(s) = e.doc.spans(&src) {
                    spans.extend(s.take(50));
                }
            }
            let cfg = UpdateSpansConfig::default().with_default_expand(expand_of(d as usize)).with_mark_expand("bold", expand_of(c as usize));
            e.call("update_spans");
            e.doc.update_spans(&o, cfg, spans).is_err()
        }
        36 => {
            let o = e.obj(a, Want::Any);
            let v = e.hvalue(b, d);
            e.call("update_object");
            e.doc.update_object(&o, &v).is_err()
        }
        37 => {
            let o = e.obj(a, Want::Any);
            let p = e.prop(b, &o);
            let v = e.hvalue(c, d);
            e.call("batch_create_object");
            match e.doc.batch_create_object(&o, p, &v, d & 1 == 1) {
                Ok(id) => {
                    let t = e.ty(&id);
                    if let Some(t) = t {
                        e.remember(id, t);
                    }
                    false
                }
                Err(_) => true,
            }
        }
        38 => {
            e.sub("is_empty");
            if (!e.doc.is_empty() || e.doc.pending_ops() > 0) && e.avoid("init-root-on-non-empty-document", "excluded:init-root-on-non-empty-document") {
                return false;
            }
            let mut m: HashMap<String, hydrate::Value> = HashMap::new();
            for i in 0..sel(a, 4) {
                let x = b.wrapping_mul(5 + i as u16).wrapping_add(c);
                m.insert(e.key(x, &ROOT), e.hvalue(x.wrapping_mul(17), d));
            }
            let empty_map = m.is_empty();
            e.call("init_root_from_hydrate");
            let rej = e.doc.init_root_from_hydrate(&hydrate::Map::from(m)).is_err();
            if !rej && !empty_map {
                // a fixed follow-up so that a document left inconsistent by the call shows up under one name:
                // one more change arrives from a fork
                e.sub("fork");
                let mut f = e.doc.fork().with_actor(ActorId::from(vec![0xF1u8]));
                let _ = f.put(ROOT, "c37-probe", 1);
                e.sub("merge(after init_root_from_hydrate)");
                let _ = e.doc.merge(&mut f);
                e.refresh();
            }
            rej
        }
        // ------------------------------------------------------------ document-level calls
        39 => {
            let r = if a < 0x6000 {
                e.call("commit");
                e.doc.commit().is_none()
            } else {
                let mut o = CommitOptions::default();
                match sel(b, 6) {
                    0 => {}
                    1 => o = o.with_message(""),
                    2 => o = o.with_message("m\u{0}\u{1F600}".repeat(2000)),
                    3 | 4 if e.avoid("extreme-commit-time", "excluded:extreme-commit-time") => o = o.with_time(1 << 40),
                    3 => o = o.with_time(i64::MIN),
                    4 => o = o.with_time(i64::MAX),
                    _ => o = o.with_message("msg").with_time(-1),
                }
                if sel(b, 6) >= 2 {
                    e.note("commit:extreme-options", Kind::Oor);
                }
                e.call("commit_with");
                e.doc.commit_with(o).is_none()
            };
            e.refresh();
            r
        }
        40 => {
            e.call("rollback");
            let n = e.doc.rollback();
            e.refresh();
            n == 0
        }
        41 => {
            e.call("empty_change");
            let _ = e.doc.empty_change(CommitOptions::default().with_time(0));
            e.refresh();
            false
        }
        42 => {
            let r = if a < 0x3000 {
                e.call("fork");
                let f = e.doc.fork();
                if e.forks.len() < 3 {
                    e.forks.push(f.with_actor(ActorId::from(vec![0xF0u8, e.forks.len() as u8])));
                }
                false
            } else {
                let h = e.heads(c);
                e.call("fork_at");
                match e.doc.fork_at(&h) {
                    Ok(f) => {
                        if e.forks.len() < 3 {
                            e.forks.push(f.with_actor(ActorId::from(vec![0xF0u8, e.forks.len() as u8])));
                        }
                        false
                    }
                    Err(_) => true,
                }
            };
            e.refresh();
            r
        }
        43 => {
            let h1 = e.heads(c);
            let h2 = e.heads(d);
            e.call("diff");
            let r = e.doc.diff(&h1, &h2).is_empty();
            e.refresh();
            r
        }
        44 => {
            let o = e.obj(a, Want::Any);
            let h1 = e.heads(c);
            let h2 = e.heads(d);
            e.call("diff_obj");
            let r = e.doc.diff_obj(&o, &h1, &h2, b & 1 == 0).map(|p| p.is_empty()).unwrap_or(true);
            e.refresh();
            r
        }
        45 => {
            let r = match sel(a, 4) {
                0 => {
                    e.call("update_diff_cursor");
                    e.doc.update_diff_cursor();
                    false
                }
                1 => {
                    e.call("reset_diff_cursor");
                    e.doc.reset_diff_cursor();
                    false
                }
                _ => {
                    e.call("diff_incremental");
                    e.doc.diff_incremental().is_empty()
                }
            };
            e.refresh();
            r
        }
        46 => {
            let r = match sel(a, 6) {
                0 | 1 => {
                    let h = e.heads(c);
                    e.call("save_after");
                    e.doc.save_after(&h).is_empty()
                }
                2 => {
                    e.call("save_incremental");
                    e.doc.save_incremental().is_empty()
                }
                3 => {
                    e.call("save_and_verify");
                    e.doc.save_and_verify().is_err()
                }
                _ => {
                    e.call("save");
                    let bytes = e.doc.save();
                    e.call("load(own save)");
                    AutoCommit::load_with_options(&bytes, load_opts(e.enc)).is_err()
                }
            };
            e.refresh();
            r
        }
        47 => {
            if a < 0xA000 {
                let h = e.heads(c);
                e.call("isolate");
                e.doc.isolate(&h);
            } else {
                e.call("integrate");
                e.doc.integrate();
            }
            e.refresh();
            false
        }
        48 => {
            let mut other = e.other_doc(a);
            e.call("merge");
            let r = e.doc.merge(&mut other).is_err();
            e.refresh();
            r
        }
        49 => {
            let ch = e.some_changes(a, d);
            let r = if b & 1 == 0 {
                e.call("apply_changes");
                e.doc.apply_changes(ch).is_err()
            } else {
                e.call("apply_changes_batch");
                e.doc.apply_changes_batch(ch).is_err()
            };
            e.refresh();
            r
        }
        50 => {
            let r = match sel(a, 6) {
                0 | 1 => {
                    let h = e.heads(c);
                    e.call("get_changes");
                    let ch = e.doc.get_changes(&h);
                    e.call("Change::decode");
                    for x in ch.iter().take(4) {
                        let _ = x.decode();
                    }
                    ch.is_empty()
                }
                2 => {
                    let h = e.heads(c);
                    e.call("get_changes_meta");
                    e.doc.get_changes_meta(&h).is_empty()
                }
                3 => {
                    let h = e.hash(c);
                    e.call("get_change_meta_by_hash");
                    e.doc.get_change_meta_by_hash(&h).is_none()
                }
                4 => {
                    e.call("get_last_local_change");
                    e.doc.get_last_local_change().is_none()
                }
                _ => {
                    let mut other = e.other_doc(b);
                    e.call("get_changes_added");
                    e.doc.get_changes_added(&mut other).is_empty()
                }
            };
            e.refresh();
            r
        }
        51 => {
            let act = e.actor(a);
            e.call("set_actor");
            e.doc.set_actor(act);
            e.refresh();
            false
        }
        52 => {
            let r = if a & 1 == 0 {
                e.call("get_heads");
                e.doc.get_heads().is_empty()
            } else {
                let h = e.heads(c);
                e.call("get_missing_deps(mut)");
                e.doc.get_missing_deps(&h).is_empty()
            };
            e.refresh();
            r
        }
        53 => {
            if a & 1 == 0 {
                let o = e.obj(b, Want::Any);
                e.call("hash_for_opid");
                e.doc.hash_for_opid(&o).is_none()
            } else {
                let mut hs = e.heads(c);
                if d & 3 == 0 {
                    hs.push(e.hash(d));
                }
                e.call("bundle");
                match e.doc.bundle(hs) {
                    Ok(bn) => {
                        e.call("Bundle::to_changes");
                        let _ = bn.to_changes();
                        false
                    }
                    Err(_) => true,
                }
            }
        }
        54 => apply_patches_call(e, a, b, c),
        55 => {
            let mut st = sync::State::new();
            match sel(a, 4) {
                0 => {}
                1 => {
                    st.shared_heads = e.heads(b);
                    st.last_sent_heads = e.heads(c);
                }
                2 => {
                    st.their_heads = Some(e.heads(b));
                    let mut need = e.heads(c);
                    if e.avoid("duplicate-need", "excluded:duplicate-need") {
                        need.sort();
                        need.dedup();
                    }
                    st.their_need = Some(need);
                    st.their_have = Some(vec![]);
                }
                _ => {
                    st.their_heads = Some(e.heads(b));
                    st.shared_heads = e.heads(c);
                    st.their_have = Some(vec![sync::Have::default()]);
                    st.sent_hashes = e.heads(d).into_iter().collect();
                }
            }
            let r = match sel(d, 3) {
                0 => {
                    e.call("generate_sync_message");
                    e.doc.sync().generate_sync_message(&mut st).is_none()
                }
                1 => {
                    e.call("has_our_changes");
                    !e.doc.has_our_changes(&st)
                }
                _ => {
                    // a real message of another replica with its heads / need replaced
                    let mut other = e.other_doc(d.wrapping_mul(5));
                    e.sub("generate_sync_message");
                    let msg = other.sync().generate_sync_message(&mut sync::State::new());
                    match msg {
                        Some(mut m) => {
                            if b & 1 == 0 {
                                m.heads = e.heads(b);
                            }
                            if c & 1 == 0 {
                                m.need = e.heads(c);
                            }
                            e.call("receive_sync_message");
                            e.doc.sync().receive_sync_message(&mut st, m).is_err()
                        }
                        None => true,
                    }
                }
            };
            e.refresh();
            r
        }
        56 => {
            // a patch log that recorded another document's changes
            if e.avoid("foreign-patch-log", "excluded:foreign-patch-log") {
                return false;
            }
            e.sub("document");
            let mut am: Automerge = e.doc.document().clone();
            let mut log = e.foreign_log.clone();
            e.note("patchlog:other-document", Kind::Stale);
            let r = match sel(a, 5) {
                0 => {
                    e.call("make_patches(foreign log)");
                    am.make_patches(&mut log).is_empty()
                }
                1 => {
                    e.call("transaction_log_patches(foreign log)");
                    let got: Option<PatchLog> = match am.transaction_log_patches(log) {
                        Ok(mut tx) => {
                            let _ = tx.put(ROOT, "c37", 1);
                            let (_, l2) = tx.commit();
                            Some(l2)
                        }
                        Err(_) => None,
                    };
                    match got {
                        Some(mut l2) => {
                            e.call("make_patches(foreign log)");
                            let _ = am.make_patches(&mut l2);
                            false
                        }
                        None => true,
                    }
                }
                2 => {
                    let ch = e.some_changes(b, d);
                    e.call("apply_changes_log_patches(foreign log)");
                    let r = am.apply_changes_log_patches(ch, &mut log).is_err();
                    e.call("make_patches(foreign log)");
                    let _ = am.make_patches(&mut log);
                    r
                }
                3 => {
                    let mut other = e.other_doc(b);
                    e.sub("document");
                    let mut o2 = other.document().clone();
                    e.call("merge_and_log_patches(foreign log)");
                    let r = am.merge_and_log_patches(&mut o2, &mut log).is_err();
                    e.call("make_patches(foreign log)");
                    let _ = am.make_patches(&mut log);
                    r
                }
                _ => {
                    let mut other = e.other_doc(b);
                    let bytes = other.save();
                    e.call("load_incremental_log_patches(foreign log)");
                    let r = am.load_incremental_log_patches(&bytes, &mut log).is_err();
                    e.call("make_patches(foreign log)");
                    let _ = am.make_patches(&mut log);
                    r
                }
            };
            e.refresh();
            r
        }
        57 => {
            e.sub("document");
            let mut am: Automerge = e.doc.document().clone();
            let h = e.heads(c);
            let r = match sel(a, 6) {
                0 | 1 | 2 => {
                    let o = e.obj(b, Want::Any);
                    let p = e.prop(d, &o);
                    e.call("transaction_at");
                    let got: Option<Option<PatchLog>> = match am.transaction_at(if a & 1 == 0 { PatchLog::inactive() } else { PatchLog::active() }, &h) {
                        Ok(mut tx) => {
                            e.call("transaction_at:put");
                            let _ = tx.put(&o, p.clone(), 1);
                            e.call("transaction_at:get");
                            let _ = tx.get(&o, p);
                            e.call("transaction_at:length");
                            let _ = tx.length(&o);
                            if d & 1 == 0 {
                                e.call("transaction_at:commit");
                                let (_, log) = tx.commit();
                                Some(Some(log))
                            } else {
                                e.call("transaction_at:rollback");
                                let _ = tx.rollback();
                                Some(None)
                            }
                        }
                        Err(_) => None,
                    };
                    match got {
                        Some(log) => {
                            if let Some(mut log) = log {
                                e.call("transaction_at:make_patches");
                                let _ = am.make_patches(&mut log);
                            }
                            e.call("transaction_at:get_heads");
                            let _ = am.get_heads();
                            e.call("transaction_at:save");
                            let _ = am.save();
                            false
                        }
                        None => true,
                    }
                }
                3 => {
                    e.call("Automerge::hydrate");
                    let _ = am.hydrate(Some(&h));
                    false
                }
                4 => {
                    let h2 = e.heads(d);
                    e.call("Automerge::diff");
                    am.diff(&h, &h2).is_empty()
                }
                _ => {
                    let o = e.obj(b, Want::Any);
                    let h2 = e.heads(d);
                    e.call("Automerge::diff_obj");
                    am.diff_obj(&o, &h, &h2, a & 1 == 0).map(|p| p.is_empty()).unwrap_or(true)
                }
            };
            e.refresh();
            r
        }
        58 => {
            let mut other = e.other_doc(a);
            let bytes = match sel(b, 4) {
                0 => {
                    e.sub("save");
                    other.save()
                }
                1 => {
                    let h = e.heads(c);
                    e.sub("save_after");
                    other.save_after(&h)
                }
                2 => {
                    e.sub("save_nocompress");
                    other.save_nocompress()
                }
                _ => {
                    e.note("bytes:empty", Kind::Oor);
                    vec![]
                }
            };
            e.call("load_incremental");
            let r = e.doc.load_incremental(&bytes).is_err();
            e.refresh();
            r
        }
        _ => {
            // values the library produced, converted and fed back
            let o = e.obj(a, Want::Seq);
            let cur = e.cursor(b, &o);
            e.call("Cursor::to_string/try_from");
            let s = cur.to_string();
            let back = Cursor::try_from(s.as_str());
            e.call("Cursor::to_bytes/try_from");
            let by = cur.to_bytes();
            let back2 = Cursor::try_from(by.as_slice());
            e.call("ObjId::to_bytes/try_from");
            let ob = o.to_bytes();
            let back3 = ObjId::try_from(ob.as_slice());
            let mut rej = back.is_err() || back2.is_err() || back3.is_err();
            if let Ok(c2) = back2 {
                let h = e.opt_heads(c);
                e.call("get_cursor_position");
                rej |= e.doc.get_cursor_position(&o, &c2, h.as_deref()).is_err();
            }
            if let Ok(o2) = back3 {
                e.call("length");
                let _ = e.doc.length(&o2);
            }
            rej
        }
    }
}

/// hydrate(h1).apply_patches(diff(h1, h2)) for h1 an ancestor of h2: must be accepted
fn apply_patches_call(e: &mut Env, a: u16, b: u16, c: u16) -> bool {
    e.sub("document");
    let am: Automerge = e.doc.document().clone();
    e.sub("get_changes");
    let changes = am.get_changes(&[]);
    let g = Graph::from_changes(changes.iter());
    let present: HashSet<ChangeHash> = changes.iter().map(|c| c.hash()).collect();
    let mut h2s: Vec<Vec<ChangeHash>> = vec![am.get_heads()];
    for h in &e.recorded {
        if !h.is_empty() && h.iter().all(|x| present.contains(x)) && !h2s.contains(h) {
            h2s.push(h.clone());
        }
    }
    let h2 = h2s[sel(a, h2s.len())].clone();
    let anc = g.ancestors(&h2);
    let mut h1s: Vec<Vec<ChangeHash>> = vec![vec![]];
    for h in &e.recorded {
        if !h.is_empty() && h.iter().all(|x| anc.contains(x)) && !h1s.contains(h) {
            h1s.push(h.clone());
        }
    }
    let h1 = h1s[sel(b, h1s.len())].clone();
    e.note(if h1.is_empty() { "patches:from-empty" } else { "patches:from-ancestor" }, Kind::Valid);
    let src = sel(c, 4);
    let (mut before, patches) = match src {
        0 | 1 => {
            e.sub("Automerge::hydrate");
            let before = am.hydrate(Some(&h1));
            e.sub("Automerge::diff");
            (before, am.diff(&h1, &h2))
        }
        2 => {
            e.sub("Automerge::current_state");
            (hydrate::Value::map(), am.current_state())
        }
        _ => {
            // make_patches of a log that observed a load
            e.sub("save");
            let bytes = am.save();
            let mut log = PatchLog::active();
            e.sub("load_with_options(patch_log)");
            match Automerge::load_with_options(&bytes, load_opts(e.enc).patch_log(&mut log)) {
                Ok(d2) => {
                    e.sub("make_patches");
                    (hydrate::Value::map(), d2.make_patches(&mut log))
                }
                Err(_) => return true,
            }
        }
    };
    if e.tracing {
        for p in &patches {
            eprintln!("      patch {:?} {:?}", p.path, p.action);
        }
    }
    e.call("apply_patches");
    let r = before.apply_patches(e.enc, patches.clone());
    if let Err(err) = r {
        let what = ["diff", "diff", "current_state", "make_patches"][src];
        let variant: String = format!("{err:?}").chars().take_while(|c| c.is_ascii_alphanumeric()).collect();
        // not a panic: reported through the thread-local slot read by `check`
        REJECTED_PATCHES.with(|r| {
            *r.borrow_mut() = Some(Failure::new(
                format!("C37:apply_patches:error-on-library-patches:{what}:{variant}"),
                format!("hydrate::Value::apply_patches rejected patches produced by {what} (h1={:?}, h2={:?}): {err}\npatches: {:?}", h1, h2, patches.iter().take(12).collect::<Vec<_>>()),
            ))
        });
        return true;
    }
    false
}

thread_local! {
    static REJECTED_PATCHES: RefCell<Option<Failure>> = const { RefCell::new(None) };
}

fn build_env(p: &Program, first: &AbuseCall) -> Result<Env, Failure> {
    let it = run_program(p, default_opts()).map_err(|f| Failure::new(format!("C37:history:{}", f.sig), f.detail))?;
    let enc = it.enc;
    let mut reps: Vec<AutoCommit> = it.reps.into_iter().map(|r| r.doc).collect();
    let t = (first.d as usize) % reps.len();
    let mut doc = reps.remove(t);
    let others = reps;
    let target_actor = doc.get_actor().clone();
    // an unrelated document whose ids have the same counters under other actors
    let mk_unrelated = |actor: ActorId| -> (AutoCommit, Vec<ObjId>, Vec<Cursor>) {
        let mut d = AutoCommit::new_with_encoding(enc).with_actor(actor);
        let mut ids = vec![];
        let mut cursors = vec![];
        let l = d.put_object(ROOT, "list", ObjType::List).unwrap();
        let tx = d.put_object(ROOT, "text", ObjType::Text).unwrap();
        let m = d.put_object(ROOT, "map", ObjType::Map).unwrap();
        for i in 0..6 {
            d.insert(&l, i, i as i64).unwrap();
        }
        d.splice_text(&tx, 0, 0, "unrelated text").unwrap();
        let inner = d.put_object(&m, "inner", ObjType::Text).unwrap();
        d.splice_text(&inner, 0, 0, "xyz").unwrap();
        d.commit_with(CommitOptions::default().with_time(0));
        let l2 = d.insert_object(&l, 2, ObjType::List).unwrap();
        d.commit_with(CommitOptions::default().with_time(0));
        for (o, n) in [(&l, 7usize), (&tx, 14), (&inner, 3)] {
            for i in [0, n / 2, n - 1] {
                if let Ok(c) = d.get_cursor(o, i, None) {
                    cursors.push(c);
                }
                if let Ok(c) = d.get_cursor_moving(o, i, None, MoveCursor::Before) {
                    cursors.push(c);
                }
            }
        }
        ids.extend([l, tx, m, inner, l2]);
        (d, ids, cursors)
    };
    let (mut alien, mut alien_objs, mut alien_cursors) = mk_unrelated(ActorId::from(vec![0xA1u8, 0xA1]));
    let (twin, twin_objs, twin_cursors) = mk_unrelated(target_actor.clone());
    alien_objs.extend(twin_objs);
    let live = |tag: &str| !strict_replay() && avoided().iter().any(|t| *t == tag);
    let (no_big_counters, no_foreign_cursors) = (live("op-counter-over-u32"), live("cursor-of-other-object"));
    if !no_foreign_cursors {
        // same actor, same counters: these name real ops of the target that live in other objects
        alien_cursors.extend(twin_cursors);
    }
    let alien_heads = alien.get_heads();
    // pools from the target
    let changes = catch("get_changes", || doc.get_changes(&[])).map_err(|f| Failure::new(format!("C37:history:{}", f.sig), f.detail))?;
    let deps: HashMap<ChangeHash, Vec<ChangeHash>> = changes.iter().map(|c| (c.hash(), c.deps().to_vec())).collect();
    let all_hashes: Vec<ChangeHash> = changes.iter().map(|c| c.hash()).collect();
    let mut actors: Vec<ActorId> = vec![];
    for c in &changes {
        if !actors.contains(c.actor_id()) {
            actors.push(c.actor_id().clone());
        }
    }
    let max_op = changes.iter().map(|c| c.max_op()).max().unwrap_or(0);
    let reachable: Vec<ObjId> = winner_objects(&doc, None).into_iter().map(|(o, _)| o).collect();
    let mut unreachable = vec![];
    let mut foreign = vec![];
    for (id, _) in &it.objs {
        match doc.object_type(id) {
            Ok(_) => {
                if !reachable.contains(id) {
                    unreachable.push(id.clone());
                }
            }
            Err(_) => foreign.push(id.clone()),
        }
    }
    // ids of scalar values and of map-key ops
    let mut scalar_ids = vec![];
    for o in reachable.iter().take(12) {
        match doc.object_type(o) {
            Ok(ObjType::Map | ObjType::Table) => {
                for k in doc.keys(o).take(4).collect::<Vec<_>>() {
                    if let Ok(Some((automerge::Value::Scalar(_), id))) = doc.get(o, k.as_str()) {
                        scalar_ids.push(id);
                    }
                }
            }
            Ok(_) => {
                if let Ok(Some((automerge::Value::Scalar(_), id))) = doc.get(o, 0) {
                    scalar_ids.push(id);
                }
            }
            Err(_) => {}
        }
    }
    scalar_ids.truncate(12);
    // fabricated ids: a known actor with counters that name nothing / something else; wrong index hints
    let mut fabricated = vec![];
    let known: Option<(ActorId, usize)> = it.objs.iter().find_map(|(id, _)| match id {
        ObjId::Id(_, actor, idx) if doc.object_type(id).is_ok() => Some((actor.clone(), *idx)),
        _ => None,
    });
    let mut fab_cursors = vec![];
    if let Some((actor, idx)) = known {
        for ctr in [0u64, 1, max_op, max_op + 7, u32::MAX as u64 - 1, u32::MAX as u64, u32::MAX as u64 + 1, i64::MAX as u64, u64::MAX] {
            if ctr > u32::MAX as u64 && no_big_counters {
                continue;
            }
            fabricated.push(ObjId::Id(ctr, actor.clone(), idx));
            if ctr <= max_op && no_foreign_cursors {
                continue;
            }
            if let Ok(c) = Cursor::try_from(format!("{ctr}@{actor}")) {
                fab_cursors.push(c);
            }
            if let Ok(c) = Cursor::try_from(format!("-{ctr}@{actor}")) {
                fab_cursors.push(c);
            }
        }
        fabricated.push(ObjId::Id(1, actor.clone(), idx + 1));
        fabricated.push(ObjId::Id(1, actor.clone(), usize::MAX));
        fabricated.push(ObjId::Id(1, actor.clone(), u32::MAX as usize + 1));
        fabricated.push(ObjId::Id(1, ActorId::from(vec![0xDEu8, 0xAD]), idx));
        fabricated.push(ObjId::Id(max_op + 1, ActorId::from(vec![0xDEu8, 0xAD]), 0));
    }
    // cursors naming ops that are not sequence elements (object ids, map values)
    for id in it.objs.iter().map(|(i, _)| i).chain(scalar_ids.iter()).take(if no_foreign_cursors { 0 } else { 12 }) {
        if let ObjId::Id(ctr, actor, _) = id {
            if let Ok(c) = Cursor::try_from(format!("{ctr}@{actor}")) {
                fab_cursors.push(c);
            }
        }
    }
    // cursors held from before the abuse sequence (their elements may get deleted)
    let mut held = vec![];
    for (id, _) in &it.objs {
        if matches!(doc.object_type(id), Ok(ObjType::List | ObjType::Text)) {
            let len = doc.length(id);
            if len > 0 {
                for i in [0, len / 2, len - 1] {
                    if let Ok(c) = doc.get_cursor(id, i, None) {
                        held.push((id.clone(), c));
                    }
                    if let Ok(c) = doc.get_cursor_moving(id, i, None, MoveCursor::Before) {
                        held.push((id.clone(), c));
                    }
                }
            }
        }
    }
    // a patch log that recorded the unrelated document
    let mut foreign_log = PatchLog::active();
    {
        let mut sink = Automerge::new_with_encoding(enc).with_actor(ActorId::from(vec![0xA1u8, 0xA2]));
        let chs = alien.get_changes(&[]);
        let _ = sink.apply_changes_log_patches(chs, &mut foreign_log);
    }
    let cur = doc.get_heads();
    Ok(Env {
        enc,
        doc,
        others,
        alien,
        twin,
        forks: vec![],
        objs: it.objs.clone(),
        unreachable,
        foreign,
        alien_objs,
        scalar_ids,
        fabricated,
        recorded: it.heads.clone(),
        alien_heads,
        deps,
        all_hashes,
        cur,
        held,
        alien_cursors,
        fab_cursors,
        foreign_log,
        actors,
        name: Cell::new("prep"),
        notes: RefCell::new(vec![]),
        called: RefCell::new(vec![]),
        main: Cell::new(""),
        tracing: false,
    })
}

/// development aids: keep going after a panic (restoring the document from a clone taken before the call),
/// and name the call after which the library's own op-set validators fail
#[derive(Clone, Copy, Default)]
pub struct Mode {
    pub keep_going: bool,
    pub invariants: bool,
    pub trace: bool,
}

/// runs one case; returns every failure seen (at most one unless `keep_going`)
pub fn run_case(case: &(Program, Vec<AbuseCall>), t: &mut Tally, mode: Mode) -> Vec<Failure> {
    let (p, calls) = case;
    if calls.is_empty() {
        return vec![];
    }
    let survey = mode.keep_going;
    let inv = mode.invariants;
    let mut inv_broken = false;
    let mut env = match catch("building the argument pools", || build_env(p, &calls[0])) {
        Ok(Ok(e)) => e,
        Ok(Err(f)) => return vec![f],
        Err(f) => return vec![Failure::new(format!("C37:pools:{}", f.sig), f.detail)],
    };
    env.tracing = mode.trace;
    if !strict_replay() {
        for tag in avoided() {
            if *tag == "op-counter-over-u32" || *tag == "cursor-of-other-object" {
                t.class(format!("excluded:{tag}"));
            }
        }
    }
    if mode.trace {
        let mut cl = env.doc.clone();
        eprintln!("target document: actor {} isolated-heads? heads {:?}", cl.get_actor().clone(), cl.get_heads());
        for c in cl.get_changes(&[]) {
            eprintln!("  change {} actor {} seq {} start_op {} deps {:?} time {}", c.hash(), c.actor_id(), c.seq(), c.start_op(), c.deps(), c.timestamp());
            for (k, o) in c.decode().operations.iter().enumerate() {
                eprintln!("     {}@{} {:?} obj={:?} key={:?} insert={} pred={:?}", c.start_op().get() + k as u64, c.actor_id(), o.action, o.obj, o.key, o.insert, o.pred);
            }
        }
    }
    let mut fails: Vec<Failure> = vec![];
    let (mut stale_reached, mut oor_reached) = (false, false);
    let mut names: Vec<&'static str> = vec![];
    for (i, c) in calls.iter().enumerate() {
        let backup = if survey { catch("clone", || env.doc.clone()).ok() } else { None };
        env.notes.borrow_mut().clear();
        env.called.borrow_mut().clear();
        env.main.set("");
        env.name.set("prep");
        REJECTED_PATCHES.with(|r| *r.borrow_mut() = None);
        let started = std::time::Instant::now();
        let r = catch("abuse call", || body(&mut env, c));
        let name = env.name.get();
        if std::env::var("VERIF_DEBUG").is_ok() && started.elapsed().as_millis() > 150 {
            eprintln!("C37 slow call: {name} took {} ms, args {:?} call {:?}", started.elapsed().as_millis(), env.notes.borrow(), c);
        }
        let notes: Vec<(&'static str, Kind)> = env.notes.borrow().clone();
        let describe = || notes.iter().map(|(c, _)| *c).collect::<Vec<_>>().join(" ");
        let fail = match r {
            Ok(rejected) => {
                if let Some(f) = REJECTED_PATCHES.with(|r| r.borrow_mut().take()) {
                    Some(f)
                } else if inv && !match catch("invariants", || {
                    let mut cl = env.doc.clone();
                    automerge::verif_hooks::check_internal_invariants(cl.document())
                }) {
                    Ok(ok) => ok,
                    // the validators signal some failures by their own assertions; any other panic (in the
                    // commit of the clone) is left for the real calls to hit
                    Err(f) => !f.sig.contains("op_set2/op_set.rs"),
                } {
                    // development aid (VERIF_C37_INV=1): name the call after which the op set is no longer in order
                    inv_broken = true;
                    Some(Failure::new(format!("C37:{}:diagnostic:op-set-out-of-order-after-the-call", env.main.get()), format!("abuse call #{i} (kind {}, a={} b={} c={} d={}) `{name}` with arguments [{}] returned, and the op set then fails validate_op_order/validate_top_index", c.k % NKINDS, c.a, c.b, c.c, c.d, describe())))
                } else {
                    let main = env.main.get();
                    names.push(main);
                    for n in env.called.borrow().iter() {
                        t.class(format!("call:{n}"));
                    }
                    let bad = notes.iter().any(|(_, k)| *k != Kind::Valid);
                    if bad {
                        t.class(format!("bad:{main}"));
                        if rejected {
                            t.class(format!("rejected:{main}"));
                        }
                    }
                    for (cl, k) in &notes {
                        t.class(format!("arg:{cl}"));
                        match k {
                            Kind::Stale => stale_reached = true,
                            Kind::Oor => oor_reached = true,
                            Kind::Valid => {}
                        }
                    }
                    None
                }
            }
            Err(f) => Some(Failure::new(
                // one root cause reaches many entry points: the signature is the panic site (plus the call's
                // parenthesised situation label, if it has one); the entry point is in the detail
                format!("C37:{}{}", name.find("(after init_root_from_hydrate").map(|i| format!("{}:", &name[i..])).unwrap_or_default(), f.sig),
                format!("abuse call #{i} (kind {}, a={} b={} c={} d={}) `{name}` with arguments [{}] after [{}]: {}", c.k % NKINDS, c.a, c.b, c.c, c.d, describe(), names.iter().rev().take(6).rev().cloned().collect::<Vec<_>>().join(", "), f.detail),
            )),
        };
        if let Some(f) = fail {
            if mode.trace {
                eprintln!("   -> FAILURE {}", f.sig);
            }
            fails.push(f);
            if !survey {
                return fails;
            }
            if inv_broken {
                break;
            }
            match backup {
                Some(b) => env.doc = b,
                None => break,
            }
            if fails.len() >= 8 {
                break;
            }
        }
    }
    if !fails.is_empty() {
        return fails;
    }
    if stale_reached {
        t.class("case:stale-argument-reached-the-library");
    }
    if oor_reached {
        t.class("case:out-of-range-argument-reached-the-library");
    }
    if stale_reached && oor_reached {
        t.nontrivial();
        t.sample = Some(serde_json::json!({"history": p.describe(), "calls": names}));
    }
    vec![]
}

fn check_named(case: &Case, t: &mut Tally, sub: &'static str) -> CaseResult {
    let survey = std::env::var("VERIF_SURVEY").is_ok();
    let mode = Mode { keep_going: survey, invariants: std::env::var("VERIF_C37_INV").is_ok(), trace: false };
    let mut fails = run_case(case, t, mode);
    if fails.is_empty() {
        return Ok(());
    }
    // survey: the driver records the first signature; record the others here
    if fails.len() > 1 {
        if let Ok(mut sv) = SURVEY.lock() {
            let cj = serde_json::to_value(case).unwrap_or(serde_json::Value::Null);
            let mut seen: Vec<String> = vec![fails[0].sig.clone()];
            for f in fails.iter().skip(1) {
                if seen.contains(&f.sig) {
                    continue;
                }
                seen.push(f.sig.clone());
                let en = sv.entry(f.sig.clone()).or_insert_with(|| (0, f.detail.clone(), cj.clone(), sub.to_string()));
                en.0 += 1;
            }
        }
    }
    Err(fails.swap_remove(0))
}

fn calls_strategy(max: usize) -> impl Strategy<Value = Vec<AbuseCall>> {
    prop::collection::vec((0u8..NKINDS, any::<u16>(), any::<u16>(), any::<u16>(), any::<u16>()).prop_map(|(k, a, b, c, d)| AbuseCall { k, a, b, c, d }), 1..max)
}

pub fn property(_ctx: &Ctx) -> Property {
    Property {
        id: "C37",
        level: "exploration",
        rule: "proptest-generated multi-replica history (presets HISTORY, FULL incl. isolation/sync, TEXT) run to get 1-5 replicas with real content; then 1-40 generated abuse calls (fixed-width {k,a,b,c,d}, monotone selectors) on one replica (an AutoCommit whose transaction is open or closed as the calls happen to leave it) out of 60 call kinds / ~120 entry points: every ReadDoc method and its *_at variant, every Transactable method, commit/commit_with/rollback/empty_change, fork/fork_at, diff/diff_obj/diff_incremental, save/save_after/save_incremental, isolate/integrate, merge, apply_changes(_batch), load_incremental, get_changes(_meta/_added), get_change(_meta)_by_hash, set_actor, hash_for_opid, bundle, sync generate/receive/has_our_changes, Automerge::transaction_at/diff/diff_obj/hydrate, *_log_patches and make_patches with a patch log of another document, cursor/object-id byte and string round trips, Change::decode/from_bytes, and hydrate::Value::apply_patches on patches from diff(ancestor heads, later heads), current_state and make_patches after a load (must also be accepted). Arguments come from pools built from the history: valid; stale (ids of objects of another replica / of an unrelated document with the same counters / with the same actor, unreachable objects, scalar-op ids, fabricated ids incl. counters >= 2^32 and wrong actor-index hints, wrong object kind, wrong prop kind, cursors of other objects / documents / fabricated ops / held from before deletions, heads of another replica / unknown / non-antichain / duplicated / every change / of another document, foreign patch logs, unrelated documents and their changes, duplicated and dependency-less change lists, actors already in the document); out of range (index len, len+1, 2^32, isize::MAX, usize::MAX-1, usize::MAX, reversed / empty-excluded / usize::MAX-bounded ranges, isize::MIN/MAX deletes, reversed mark ranges, i64 extreme increments, counters, times, empty / NUL / 5k / 40k-char keys, long strings, deep nesting, empty and 300-byte actors). Oracle: no panic (catch_unwind) in this debug-assertion, overflow-checking build; Err/None/empty accepted; apply_patches must return Ok. A successful init_root_from_hydrate is followed by one merge from a fork so that a document it leaves inconsistent is reported under one name. Choices leading to a finding listed as known for C37 are left out and counted (excluded:*). Non-trivial = at least one stale and at least one out-of-range argument reached library code and the call returned; distinct by case.",
        assumptions: &["no public entry point of the crate documents a panic (checked: no `# Panics` section on any public item)", "doc(hidden) entry points (dump, import, fragments) are not called here"],
        subs: vec![
            sub::<Case, _, _>("history", 15000, 300000, |c| (program_strategy(HISTORY, if c.thorough() { 60 } else { 30 }, 4, 4), calls_strategy(40)), |c, t| check_named(c, t, "history")),
            sub::<Case, _, _>("full", 10000, 200000, |c| (program_strategy(FULL, if c.thorough() { 60 } else { 30 }, 4, 4), calls_strategy(40)), |c, t| check_named(c, t, "full")),
            sub::<Case, _, _>("text", 10000, 200000, |c| (program_strategy(TEXT, if c.thorough() { 60 } else { 30 }, 3, 4), calls_strategy(40)), |c, t| check_named(c, t, "text")),
        ],
    }
}
