//! C26 Cursors track their element through edits.
use super::common::*;
use crate::engine::driver::*;
use crate::engine::graph::Lcg;
use crate::engine::interp::{bounds, Interp};
use crate::engine::obs::{exid, Id};
use crate::engine::program::*;
use crate::engine::refdoc::{width, RKey, RefDoc, Scoped};
use crate::ensure;
use automerge::{Automerge, ChangeHash, Cursor, MoveCursor, ObjId, ObjType, ReadDoc, TextEncoding};
use proptest::prelude::*;

type Case = (Program, u64);

#[derive(Clone, Debug)]
struct Held {
    cursor: Cursor,
    obj: ObjId,
    ty: ObjType,
    before: bool,
    op: Id,
}

fn parse_cursor(c: &Cursor) -> Option<(bool, Id)> {
    let s = c.to_string();
    let (before, rest) = match s.strip_prefix('-') {
        Some(r) => (true, r),
        None => (false, s.as_str()),
    };
    let (ctr, actor) = rest.split_once('@')?;
    Some((before, (ctr.parse().ok()?, hex::decode(actor).ok()?)))
}

/// expected resolution of a cursor from the independent reading; None = the op is not in scope (must be an error)
fn expected(sc: &Scoped<'_>, obj: &ObjId, ty: ObjType, enc: TextEncoding, h: &Held) -> Option<usize> {
    let op = sc.ops.iter().find(|o| o.id == h.op)?;
    if op.obj != Some(exid(obj)) {
        return None;
    }
    let e: Id = if op.insert {
        op.id.clone()
    } else {
        match &op.key {
            RKey::Elem(x) => x.clone(),
            _ => return None,
        }
    };
    let seq = sc.seq(&Some(exid(obj)));
    // position and visibility of every element
    let mut acc = 0usize;
    let mut info: std::collections::HashMap<Id, (usize, bool, RKey)> = std::collections::HashMap::new();
    for el in &seq {
        let visible = !el.reg.is_empty();
        info.insert(el.elem.id.clone(), (acc, visible, el.elem.key.clone()));
        if visible {
            acc += if ty == ObjType::Text { width(enc, &sc.elem_string(&el.reg)) } else { 1 };
        }
    }
    let (pos, visible, key) = info.get(&e)?.clone();
    if !h.before || visible || pos == 0 {
        return Some(pos);
    }
    // Before on a deleted element: nearest surviving predecessor along the insertion chain, else 0
    let mut k = key;
    loop {
        match k {
            RKey::Elem(p) => match info.get(&p) {
                Some((ppos, pvis, pkey)) => {
                    if *pvis {
                        return Some(*ppos);
                    }
                    k = pkey.clone();
                }
                None => return Some(0),
            },
            _ => return Some(0),
        }
    }
}

fn resolve_all(d: &Automerge, held: &[Held], heads: Option<&[ChangeHash]>, what: &str, t: &mut Tally) -> Result<bool, Failure> {
    let enc = d.text_encoding();
    let changes = catch("get_changes", || d.get_changes(&[]))?;
    let rd = RefDoc::new(&changes, enc);
    let sc = rd.scoped(heads);
    let mut deleted_seen = false;
    for h in held {
        if d.object_type(&h.obj).is_err() {
            continue;
        }
        if let Some(hs) = heads {
            // the object must exist at those heads
            if !sc.ops.iter().any(|o| o.id == exid(&h.obj)) {
                continue;
            }
            let _ = hs;
        }
        let want = expected(&sc, &h.obj, h.ty, enc, h);
        let got = catch("get_cursor_position", || d.get_cursor_position(&h.obj, &h.cursor, heads))?;
        match (want, got) {
            (None, Ok(p)) => {
                return Err(Failure::new("C26:uncovered-op-resolved", format!("{what}: cursor {} names an op that is not in the document{} but resolved to {p}", h.cursor, if heads.is_some() { " at those heads" } else { "" })));
            }
            (None, Err(_)) => {
                t.class("op_not_covered_is_error");
            }
            (Some(w), Ok(p)) => {
                ensure!(w == p, format!("C26:position:{}", if h.before { "before" } else { "after" }), "{what}: cursor {} ({:?}) resolves to {p}, the independent reading gives {w}", h.cursor, h.ty);
                // was the element deleted?
                let vis_now = d.get_cursor(&h.obj, p, heads).ok().and_then(|c| parse_cursor(&c)).map(|(_, id)| id);
                if vis_now.as_ref() != Some(&h.op) {
                    deleted_seen = true;
                }
            }
            (Some(w), Err(e)) => {
                if std::env::var("VERIF_DEBUG").is_ok() {
                    eprintln!("obj {:?} ty {:?} text {:?} len {} cursor0 {:?} objtype {:?}", h.obj, h.ty, d.text(&h.obj), d.length(&h.obj), d.get_cursor(&h.obj, 0, heads).map(|c| c.to_string()), d.object_type(&h.obj));
                    for c in &changes { for (k, o) in c.decode().operations.iter().enumerate() { eprintln!("   {}@{} {:?} obj={:?} key={:?}", c.start_op().get() + k as u64, c.actor_id(), o.action, o.obj, o.key); } }
                }
                return Err(Failure::new("C26:resolvable-cursor-errors", format!("{what}: cursor {} should resolve to {w} but get_cursor_position failed: {e}", h.cursor)));
            }
        }
        t.extra_evals += 1;
    }
    Ok(deleted_seen)
}

pub fn check(case: &Case, t: &mut Tally) -> CaseResult {
    let (p, seed) = case;
    let mut rng = Lcg(*seed);
    let mut it = Interp::new(p, default_opts());
    let mut held: Vec<Held> = vec![];
    let mut deleted = false;
    for (i, s) in p.steps.iter().enumerate() {
        if s.k == ROLLBACK {
            // a cursor taken on an uncommitted op that is then rolled back names nothing (its id gets reused)
            continue;
        }
        catch(&format!("step {i} {}", s.describe()), || it.step(s))?;
        // take cursors
        if rng.below(3) == 0 && held.len() < 24 {
            let r = rng.below(it.reps.len());
            let objs: Vec<(ObjId, ObjType)> = it.objs.iter().filter(|(id, ty)| matches!(ty, ObjType::List | ObjType::Text) && it.reps[r].doc.object_type(id).is_ok()).cloned().collect();
            if !objs.is_empty() {
                let (obj, ty) = objs[rng.below(objs.len())].clone();
                let bd = bounds(&it.reps[r].doc, &obj);
                if bd.len() > 1 {
                    let pos = bd[rng.below(bd.len() - 1)];
                    for mv in [MoveCursor::After, MoveCursor::Before] {
                        let before = matches!(mv, MoveCursor::Before);
                        let c = catch("get_cursor_moving", || it.reps[r].doc.get_cursor_moving(&obj, pos, None, mv))?.map_err(|e| Failure::new("C26:get_cursor-error", format!("get_cursor_moving({pos}): {e}")))?;
                        let back = catch("get_cursor_position", || it.reps[r].doc.get_cursor_position(&obj, &c, None))?.map_err(|e| Failure::new("C26:roundtrip-error", e.to_string()))?;
                        ensure!(back == pos, "C26:roundtrip-at-creation", "get_cursor_position(get_cursor({pos})) = {back}");
                        if let Some((b, op)) = parse_cursor(&c) {
                            ensure!(b == before, "C26:cursor-string-mode", "cursor {c} printed with the wrong move mode");
                            held.push(Held { cursor: c, obj: obj.clone(), ty, before, op });
                        }
                    }
                    t.class("cursor_taken");
                }
            }
        }
        // resolve everything everywhere every few steps
        if rng.below(4) == 0 || i + 1 == p.steps.len() {
            for r in 0..it.reps.len() {
                let d = {
                    let mut c = it.reps[r].doc.clone();
                    c.document().clone()
                };
                deleted |= resolve_all(&d, &held, None, &format!("replica {r} after step {i}"), t)?;
            }
        }
    }
    // historical heads on the merged document
    let mut merged = fresh(it.enc);
    for r in 0..it.reps.len() {
        it.commit(r);
        let mut o = it.reps[r].doc.document().clone();
        catch("merge", || merged.merge(&mut o))?.map_err(|e| Failure::new("C26:merge:error", e.to_string()))?;
    }
    deleted |= resolve_all(&merged, &held, None, "merged", t)?;
    for h in it.heads.clone().iter().rev().take(4) {
        if h.iter().all(|x| merged.get_change_by_hash(x).is_some()) {
            resolve_all(&merged, &held, Some(h), "merged at heads", t)?;
            t.class("historical");
        }
    }
    if deleted {
        t.class("element_deleted_before_resolution");
        t.nontrivial();
        t.sample = Some(p.describe());
    }
    Ok(())
}

pub fn property(_ctx: &Ctx) -> Property {
    Property {
        id: "C26",
        level: "exploration",
        rule: "proptest-generated list/text multi-replica programs (inserts, deletes, splices with multi-unit text, merges, forks, save/load); at generated points cursors in both move modes are taken at element boundaries of random sequences of random replicas (round-trip checked at creation) and every few steps EVERY held cursor is resolved in EVERY replica that contains its object, at the end also in the merged document and at up to 4 recorded heads. Oracle = independent reading of the decoded op set (RefDoc): element of the cursor's op; position = sum of widths of visible elements before it when visible or After; for Before on a deleted element the nearest visible predecessor along the insertion chain, else 0; an op outside the document/clock must give an error. Non-trivial = some held cursor's element had been deleted when it was resolved; distinct by case. evaluations counts resolutions.",
        assumptions: &["cursor op ids are read from the cursor's string form"],
        subs: vec![
            sub::<Case, _, _>("seq", 4000, 100000, |c| (program_strategy(SEQ, if c.thorough() { 100 } else { 40 }, 3, 4), any::<u64>()), check),
            sub::<Case, _, _>("text", 2000, 50000, |c| (program_strategy(TEXT, if c.thorough() { 100 } else { 40 }, 3, 4), any::<u64>()), check),
        ],
    }
}
