//! C36 The C API is memory-safe and agrees with the Rust API.
//!
//! A case is a vector of fixed-width raw ops.  `c36_model::Model` resolves them against live state
//! into a concrete line program for `/verif/cdriver/driver.c` while performing the same operations
//! through the Rust API (`AutoCommit`), which yields the expected transcript.  The driver (built by
//! `/verif/cdriver/build.sh` from /repo's working tree, ASan+UBSan+LSan) runs the program as a
//! subprocess; the oracle is a sanitizer-clean exit AND an identical transcript.
//!
//! One driver process per harness thread serves many programs (`RESET` between programs frees
//! everything and runs LeakSanitizer's recoverable leak check), because process start-up dominates.
//!
//! Known findings: a `known` entry for C36 in known_findings.json whose signature contains
//! `unsafe precondition` / `empty-items`, `curhold` / `cursor-span`, or `objideq` / `itemeq` switches
//! the generator of the corresponding calls off (`Avoid`), so the rest of the API stays checkable.
//! Environment (development aids): `C36_OUT` (build output dir, default /verif/target-c), `C36_BUILD`
//! (build script), `C36_REPO` (read by build.sh, default /repo), `C36_AVOID=empty-items,cursor-span,objideq`,
//! `C36_DUMP=1` (print program + both transcripts), `C36_PANIC_FAIL=1` (report Rust-side panics).
use super::c36_model::*;
use crate::engine::driver::*;
use proptest::prelude::*;
use serde::{Deserialize, Serialize};
use serde_json::json;
use std::io::Write;
use std::process::{Command, Stdio};

#[derive(Debug, Clone, Serialize, Deserialize)]
pub struct Case {
    pub ops: Vec<RawOp>,
    /// generator restrictions the case was built under (bit 0 empty-items, 1 cursor-span, 2 objideq);
    /// stored in the case so that a replay file reproduces its finding whatever is `known` today
    #[serde(default)]
    pub avoid: u8,
}

fn out_dir() -> String {
    std::env::var("C36_OUT").unwrap_or_else(|_| format!("{VERIF_ROOT}/target-c"))
}
fn build_script() -> String {
    std::env::var("C36_BUILD").unwrap_or_else(|_| format!("{VERIF_ROOT}/cdriver/build.sh"))
}

fn avoid_from_findings() -> Avoid {
    let mut a = Avoid::default();
    // C36_AVOID=empty-items,cursor-span,objideq switches the same restrictions on by hand
    if let Ok(v) = std::env::var("C36_AVOID") {
        a.empty_items = v.contains("empty-items");
        a.cursor_span = v.contains("cursor-span");
        a.objid_eq = v.contains("objideq");
    }
    for f in load_findings() {
        if f.property == "C36" && f.status == "known" {
            if f.signature.contains("unsafe precondition") || f.signature.contains("empty-items") {
                a.empty_items = true;
            }
            if f.signature.contains("curhold") || f.signature.contains("cursor-span") {
                a.cursor_span = true;
            }
            if f.signature.contains("objideq") || f.signature.contains("itemeq") {
                a.objid_eq = true;
            }
        }
    }
    a
}

fn rawop() -> impl Strategy<Value = RawOp> {
    let v = prop_oneof![
        4 => -3i64..40,
        1 => any::<i64>(),
        1 => prop_oneof![Just(i64::MAX), Just(i64::MIN), Just(0i64), Just(-1i64), Just(1i64 << 53), Just(0x7ff8_0000_0000_0000i64)],
    ];
    (any::<u16>(), any::<u8>(), any::<u8>(), any::<u8>(), any::<u8>(), any::<u16>(), any::<u16>(), v)
        .prop_map(|(k, dst, a, b, c, n, m, v)| RawOp { k, dst, a, b, c, n, m, v })
        // a failing candidate costs a driver restart: shrink by dropping ops only, not field by field
        .no_shrink()
}

fn avoid_bits(a: &Avoid) -> u8 {
    a.empty_items as u8 | (a.cursor_span as u8) << 1 | (a.objid_eq as u8) << 2
}
fn avoid_of(bits: u8) -> Avoid {
    Avoid { empty_items: bits & 1 != 0, cursor_span: bits & 2 != 0, objid_eq: bits & 4 != 0 }
}

fn case_strategy(max: usize) -> impl Strategy<Value = Case> {
    let avoid = avoid_bits(&avoid_from_findings());
    prop::collection::vec(rawop(), 24..=max).prop_map(move |ops| Case { ops, avoid })
}

pub struct Built {
    pub model: Model,
    /// signature of a Rust-side panic that cut the program short
    pub truncated: Option<String>,
}

pub fn build_program(case: &Case, avoid: Avoid) -> Built {
    let mut model = Model::new(avoid);
    model.prelude();
    let mut truncated = None;
    for op in &case.ops {
        let r = catch("model step", || model.step(op));
        if let Err(f) = r {
            // the Rust API panicked (C37's domain): the C side is not asked to do the same
            truncated = Some(f.sig);
            if std::env::var("C36_PANIC_FAIL").is_ok() {
                eprintln!("C36: Rust-side panic in op-table entry {} for {:?}: {}", Model::op_index(op), op, f.detail);
            }
            break;
        }
    }
    Built { model, truncated }
}

pub struct Run {
    pub stdout: String,
    pub stderr: String,
    pub code: Option<i32>,
    pub signal: Option<i32>,
}

/// one long-lived sanitizer driver per harness thread: a program ends with `RESET`, after which the
/// driver frees everything, runs LeakSanitizer's recoverable check and waits for the next program
struct Server {
    child: std::process::Child,
    stdin: Option<std::process::ChildStdin>,
    stdout: std::io::BufReader<std::process::ChildStdout>,
    /// the driver's stderr: an already unlinked temporary file
    errfile: std::fs::File,
}
impl Drop for Server {
    fn drop(&mut self) {
        self.stdin.take();
        let _ = self.child.wait();
    }
}
thread_local! {
    static SERVER: std::cell::RefCell<Option<Server>> = const { std::cell::RefCell::new(None) };
}
static SERVER_SEQ: std::sync::atomic::AtomicU64 = std::sync::atomic::AtomicU64::new(0);

fn start_server() -> Result<Server, Failure> {
    let n = SERVER_SEQ.fetch_add(1, std::sync::atomic::Ordering::Relaxed);
    let errpath = std::env::temp_dir().join(format!("c36-{}-{}.err", std::process::id(), n));
    let errfile = std::fs::OpenOptions::new()
        .create(true)
        .read(true)
        .append(true)
        .open(&errpath)
        .map_err(|e| Failure::new("infrastructure:stderr-file", e.to_string()))?;
    let child_err = errfile.try_clone().map_err(|e| Failure::new("infrastructure:stderr-file", e.to_string()))?;
    let _ = std::fs::remove_file(&errpath);
    let mut child = Command::new(format!("{}/driver", out_dir()))
        .env("ASAN_OPTIONS", "detect_leaks=1:abort_on_error=0:exitcode=99:allocator_may_return_null=1")
        .env("UBSAN_OPTIONS", "halt_on_error=1:exitcode=98:print_stacktrace=1")
        .env("RUST_BACKTRACE", "0")
        .stdin(Stdio::piped())
        .stdout(Stdio::piped())
        .stderr(child_err)
        .spawn()
        .map_err(|e| Failure::new("infrastructure:spawn-driver", format!("cannot start the C driver: {e}")))?;
    let stdin = child.stdin.take();
    let stdout = std::io::BufReader::new(child.stdout.take().unwrap());
    Ok(Server { child, stdin, stdout, errfile })
}

fn take_stderr(f: &mut std::fs::File) -> String {
    use std::io::{Read, Seek, SeekFrom};
    let mut b = vec![];
    let _ = f.seek(SeekFrom::Start(0));
    let _ = f.read_to_end(&mut b);
    let _ = f.set_len(0);
    String::from_utf8_lossy(&b).into_owned()
}

fn run_server(program: &str) -> Result<Run, Failure> {
    use std::io::BufRead;
    use std::os::unix::process::ExitStatusExt;
    SERVER.with(|cell| {
        let mut slot = cell.borrow_mut();
        if slot.is_none() {
            *slot = Some(start_server()?);
        }
        let srv = slot.as_mut().unwrap();
        let mut stdout = String::new();
        let mut finished = false;
        {
            let stdin = srv.stdin.as_mut().unwrap();
            let reader = &mut srv.stdout;
            std::thread::scope(|sc| {
                sc.spawn(move || {
                    let _ = stdin.write_all(program.as_bytes());
                    let _ = stdin.flush();
                });
                let mut line = String::new();
                loop {
                    line.clear();
                    match reader.read_line(&mut line) {
                        Ok(0) | Err(_) => break,
                        Ok(_) => {
                            stdout.push_str(&line);
                            if line.starts_with("RESET") {
                                finished = true;
                                break;
                            }
                        }
                    }
                }
            });
        }
        if finished {
            let leaked = !stdout.ends_with("RESET leaks=0\n");
            let stderr = if leaked { take_stderr(&mut srv.errfile) } else { String::new() };
            return Ok(Run { stdout, stderr, code: Some(0), signal: None });
        }
        // the driver died in the middle of the program
        let mut srv = slot.take().unwrap();
        srv.stdin.take();
        let status = srv.child.wait().map_err(|e| Failure::new("infrastructure:wait-driver", e.to_string()))?;
        let stderr = take_stderr(&mut srv.errfile);
        Ok(Run { stdout, stderr, code: status.code(), signal: status.signal() })
    })
}

pub fn run_driver(program: &str, valgrind: bool) -> Result<Run, Failure> {
    if !valgrind {
        return run_server(program);
    }
    let dir = out_dir();
    let mut cmd = Command::new("valgrind");
    cmd.args(["--error-exitcode=97", "-q", "--leak-check=full", "--errors-for-leak-kinds=definite,indirect"]).arg(format!("{dir}/driver-plain"));
    cmd.env("RUST_BACKTRACE", "0").stdin(Stdio::piped()).stdout(Stdio::piped()).stderr(Stdio::piped());
    let mut child = cmd.spawn().map_err(|e| Failure::new("infrastructure:spawn-driver", format!("cannot start valgrind: {e}")))?;
    let mut stdin = child.stdin.take().unwrap();
    let text = program.to_string();
    let w = std::thread::spawn(move || {
        let _ = stdin.write_all(text.as_bytes());
    });
    let out = child.wait_with_output().map_err(|e| Failure::new("infrastructure:wait-driver", e.to_string()))?;
    let _ = w.join();
    use std::os::unix::process::ExitStatusExt;
    Ok(Run {
        stdout: String::from_utf8_lossy(&out.stdout).into_owned(),
        stderr: String::from_utf8_lossy(&out.stderr).into_owned(),
        code: out.status.code(),
        signal: out.status.signal(),
    })
}

fn strip_numbers(s: &str) -> String {
    let mut out = String::new();
    let mut last = false;
    for c in s.chars() {
        if c.is_ascii_digit() {
            if !last {
                out.push('#');
            }
            last = true;
        } else {
            out.push(c);
            last = false;
        }
    }
    out.chars().take(90).collect()
}

/// classify an unclean driver exit; `None` = clean
pub fn classify_exit(run: &Run) -> Option<(String, String)> {
    let e = &run.stderr;
    let cur = e.lines().find_map(|l| l.strip_prefix("C36-CURRENT-LINE: ")).unwrap_or("<none>").to_string();
    let kind = cur.split(' ').next().unwrap_or("").to_string();
    let tail: String = e.lines().filter(|l| !l.trim().is_empty()).take(40).collect::<Vec<_>>().join("\n");
    let detail = |what: &str| format!("{what}; current driver line: `{cur}`\n{tail}");
    if let Some(i) = e.find("ERROR: AddressSanitizer: ") {
        let rest = &e[i + "ERROR: AddressSanitizer: ".len()..];
        let k: String = rest.chars().take_while(|c| !c.is_whitespace()).collect();
        return Some((format!("C36:asan:{k}:{kind}"), detail("AddressSanitizer report")));
    }
    if e.contains("ERROR: LeakSanitizer") {
        return Some(("C36:asan:detected memory leaks".into(), detail("LeakSanitizer report")));
    }
    if let Some(i) = e.find("runtime error: ") {
        let rest: String = e[i + "runtime error: ".len()..].lines().next().unwrap_or("").to_string();
        return Some((format!("C36:ubsan:{}", strip_numbers(&rest)), detail("UBSan report")));
    }
    if let Some(i) = e.find("panicked at ") {
        let mut it = e[i + "panicked at ".len()..].lines();
        let loc = it.next().unwrap_or("");
        let file = loc.split(':').next().unwrap_or("");
        let msg = it.next().unwrap_or("");
        return Some((format!("C36:abort:{}:{}", rel_file(file), strip_numbers(msg)), detail("Rust panic inside an extern \"C\" function (process aborted)")));
    }
    if e.contains("ERROR SUMMARY") || run.code == Some(97) {
        let first = e.lines().find(|l| l.starts_with("==") && !l.contains("ERROR SUMMARY")).unwrap_or("");
        let msg: String = first.splitn(3, "==").nth(2).unwrap_or("").trim().to_string();
        return Some((format!("C36:valgrind:{}", strip_numbers(&msg)), detail("valgrind memcheck report")));
    }
    if let Some(s) = run.signal {
        return Some((format!("C36:crash:signal-{s}:{kind}"), detail("driver killed by a signal")));
    }
    match run.code {
        Some(0) if run.stdout.contains("RESET leaks=1") => Some(("C36:asan:detected memory leaks".into(), detail("LeakSanitizer report"))),
        Some(0) => None,
        c => Some((format!("C36:crash:exit-{c:?}:{kind}"), detail("driver exited with a failure status"))),
    }
}

fn lines_match(expect: &str, got: &str) -> bool {
    if expect.ends_with(" ERR") {
        // error status: the message text is not compared
        return got == expect || got.starts_with(&format!("{expect} "));
    }
    expect == got
}

pub fn compare(built: &Built, run: &Run) -> CaseResult {
    let got: Vec<&str> = run.stdout.lines().collect();
    for (i, l) in built.model.lines.iter().enumerate() {
        let g = got.get(i).copied().unwrap_or("<missing>");
        if !lines_match(&l.expect, g) {
            let ctx: Vec<String> = built.model.lines[i.saturating_sub(6)..=i].iter().map(|l| l.text.clone()).collect();
            return Err(Failure::new(
                format!("C36:transcript:{}", l.kind),
                format!("line {i} `{}`\n  Rust API predicts: {}\n  C driver printed:  {}\n  preceding program lines: {:?}", l.text, l.expect, g, ctx),
            ));
        }
    }
    let n = built.model.lines.len();
    if !got.get(n).map(|l| l.starts_with("RESET")).unwrap_or(false) || got.len() != n + 1 {
        return Err(Failure::new("C36:transcript:length", format!("expected {} lines + RESET, driver printed {} lines", n, got.len())));
    }
    Ok(())
}

fn program_text(m: &Model) -> String {
    let mut s = String::new();
    for l in &m.lines {
        s.push_str(&l.text);
        s.push('\n');
    }
    s.push_str("RESET\n");
    s
}

fn check_with(case: &Case, t: &mut Tally, valgrind: bool) -> CaseResult {
    let built = build_program(case, avoid_of(case.avoid));
    let m = &built.model;
    if let (Some(sig), Ok(_)) = (&built.truncated, std::env::var("C36_PANIC_FAIL")) {
        // development aid: turn a Rust-side panic into a (shrinkable) failure
        let last: Vec<String> = m.lines.iter().rev().take(if std::env::var("C36_DUMP").is_ok() { 1000 } else { 8 }).rev().map(|l| l.text.clone()).collect();
        return Err(Failure::new(format!("C36:rust-side-{sig}"), format!("Rust API panicked after these lines: {last:?}")));
    }
    if let Some(sig) = &built.truncated {
        t.class(format!("rust-panic-truncated:{}", sig.chars().take(140).collect::<String>()));
    }
    let run = run_driver(&program_text(m), valgrind)?;
    if std::env::var("C36_DUMP").is_ok() {
        let got: Vec<&str> = run.stdout.lines().collect();
        for (i, l) in m.lines.iter().enumerate() {
            eprintln!("{:3} > {}\n      R {}\n      C {}", i, l.text, l.expect, got.get(i).copied().unwrap_or("<missing>"));
        }
    }
    if let Some((sig, detail)) = classify_exit(&run) {
        return Err(Failure::new(sig, detail));
    }
    compare(&built, &run)?;
    for f in &m.families {
        t.class(format!("family:{f}"));
    }
    for k in &m.kinds {
        t.class(*k);
    }
    if m.error_results > 0 {
        t.class("has-error-status-result");
    }
    if m.freed_while_alive {
        t.class("freed-while-sibling-results-alive");
    }
    let fam = m.families.iter().filter(|f| **f != "result").count();
    if m.lines.len() >= 20 && fam >= 3 && m.freed_while_alive {
        t.nontrivial();
        if case.ops.len() < 40 {
            t.sample = Some(json!({"calls": m.lines.len(), "families": m.families, "first_lines": m.lines.iter().take(12).map(|l| l.text.clone()).collect::<Vec<_>>()}));
        }
    }
    Ok(())
}

pub fn check(case: &Case, t: &mut Tally) -> CaseResult {
    check_with(case, t, false)
}
pub fn check_valgrind(case: &Case, t: &mut Tally) -> CaseResult {
    check_with(case, t, true)
}

fn ensure_built() {
    let script = build_script();
    let out = Command::new("sh").arg(&script).arg(out_dir()).output();
    match out {
        Ok(o) if o.status.success() => {}
        Ok(o) => {
            eprintln!("infrastructure: {} failed ({}):\n{}{}", script, o.status, String::from_utf8_lossy(&o.stdout), String::from_utf8_lossy(&o.stderr));
            std::process::exit(2);
        }
        Err(e) => {
            eprintln!("infrastructure: cannot run {script}: {e}");
            std::process::exit(2);
        }
    }
    // smoke test: the driver must start and answer
    match run_driver("RESET\n", false) {
        Ok(r) if r.stdout == "RESET leaks=0\n" && r.code == Some(0) => {}
        Ok(r) => {
            eprintln!("infrastructure: C driver smoke test failed: code {:?} stdout {:?} stderr {:?}", r.code, r.stdout, r.stderr);
            std::process::exit(2);
        }
        Err(f) => {
            eprintln!("infrastructure: {}", f.detail);
            std::process::exit(2);
        }
    }
}

fn valgrind_usable() -> bool {
    matches!(run_driver("RESET\n", true), Ok(r) if r.stdout == "RESET leaks=0\n" && r.code == Some(0))
}

pub fn property(ctx: &Ctx) -> Property {
    ensure_built();
    let mut subs = vec![
        sub::<Case, _, _>("short", 1280, 40000, |_| case_strategy(48), check),
        sub::<Case, _, _>("long", 640, 24000, |c| case_strategy(if c.thorough() { 220 } else { 120 }), check),
    ];
    if ctx.thorough() && valgrind_usable() {
        subs.push(sub::<Case, _, _>("valgrind", 16, 320, |_| case_strategy(80), check_valgrind));
    }
    Property {
        id: "C36",
        level: "exploration",
        rule: "proptest-generated call sequences (24..220 raw ops, resolved against live state into valid handles, indexes inside the documented preconditions, explicit actor ids and commit times) over up to 4 documents and 16 live AMresult slots: actor/create/clone/fork/merge/commit/empty change/rollback/save/load/incremental, map/list put/insert/delete/increment of every value type and object type, AMsplice/AMspliceText/text/marks, get/get_all/range/keys/items at current or historical heads, changes (get, by hash, added, apply, from bytes, load document, compress), cursors, sync state/message generate/receive/encode/decode, result cat/item-result/iterators/equality; every result is read completely through the item API (copying byte spans out) and freed at a generated later point (overwrite, explicit free, or at the end). The program is run by the ASan+UBSan+LSan C driver built from /repo's working tree; oracle = clean exit and a transcript (values, object ids, heads, change fields, saved bytes as length+hash, error status) equal to the one computed with AutoCommit. Non-trivial = >= 20 calls touching >= 3 API families (doc, map, list, text, change, cursor, sync) with a result freed while other results derived from the same document were still alive; distinct by case fingerprint. evaluations = programs run.",
        assumptions: &[
            "the driver is linked against the debug build of automerge-c (cargo build -p automerge-c), where Rust's debug assertions and unsafe-precondition checks are active; a Rust panic inside an extern \"C\" function aborts the process and is reported as C36:abort",
            "ASan/LSan see heap misuse in Rust and C code (Rust allocates through malloc) but out-of-bounds reads only in instrumented C code; the thorough tier adds a valgrind memcheck sample of the uninstrumented driver",
            "error statuses are compared, error message texts are not",
            "a Rust-side panic while computing the expected transcript (C37's domain) truncates the program at that call instead of failing C36",
        ],
        subs,
    }
}
