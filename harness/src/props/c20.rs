//! C20 two-peer sync converges and goes quiet; C21 multi-peer across disconnects; C22 read-only.
use super::common::*;
use crate::engine::driver::*;
use crate::engine::interp::Interp;
use crate::engine::net::{force_fp, Net};
use crate::engine::obs::observe;
use crate::engine::program::*;
use crate::ensure;
use automerge::transaction::{CommitOptions, Transactable};
use automerge::{AutoCommit, ChangeHash, ReadDoc, SaveOptions, ROOT};
use proptest::prelude::*;
use std::collections::HashSet;

/// schedule op: (kind, a, b)
pub type Sched = Vec<(u8, u8, u8)>;
pub type Case = (Program, Sched, u8);

pub fn local_edit(d: &mut AutoCommit, a: u8, b: u8) {
    let k = ["a", "b", "c", "d"][(a % 4) as usize];
    match b % 4 {
        0 => drop(d.put(ROOT, k, b as i64)),
        1 => drop(d.delete(ROOT, k)),
        2 => drop(d.put(ROOT, k, "s")),
        _ => {
            if let Ok(Some((automerge::Value::Object(automerge::ObjType::List), id))) = d.get(ROOT, "list") {
                let len = d.length(&id);
                drop(d.insert(&id, (a as usize) % (len + 1), b as i64));
            } else {
                drop(d.put(ROOT, k, 1i64));
            }
        }
    }
    if a % 2 == 0 {
        d.commit_with(CommitOptions::default().with_time(0));
    }
}

fn docs_from(p: &Program, n: usize) -> Result<Vec<AutoCommit>, Failure> {
    let mut prog = p.clone();
    prog.nrep = n as u8;
    let mut opts = default_opts();
    opts.max_reps = n;
    let mut it: Interp = run_program(&prog, opts)?;
    let mut docs: Vec<AutoCommit> = it.reps.drain(..).map(|r| r.doc).collect();
    docs.truncate(n);
    while docs.len() < n {
        docs.push(AutoCommit::new_with_encoding(it.enc).with_actor(automerge::ActorId::from(vec![0xAAu8, docs.len() as u8])));
    }
    for d in docs.iter_mut() {
        if d.is_isolated_hint() {}
    }
    Ok(docs)
}

trait IsoHint {
    fn is_isolated_hint(&self) -> bool;
}
impl IsoHint for AutoCommit {
    fn is_isolated_hint(&self) -> bool {
        false
    }
}

fn bound(net: &mut Net) -> u64 {
    let n = net.peers.len() as u64;
    20 + 4 * net.total_changes() as u64 + 4 * n * n
}

pub fn check_two(case: &Case, t: &mut Tally) -> CaseResult {
    let r = check_two_inner(case, t);
    force_fp(None);
    r
}

fn check_two_inner(case: &Case, t: &mut Tally) -> CaseResult {
    let (p, sched, fp) = case;
    let mut prog = p.clone();
    // no isolation / sync steps inside the history program
    prog.steps.retain(|s| s.k != ISOLATE && s.k != INTEGRATE);
    let docs = docs_from(&prog, 2)?;
    let mut net = Net::new(docs);
    net.connect(0, 1);
    let a0: HashSet<ChangeHash> = net.peers[0].doc.get_changes(&[]).iter().map(|c| c.hash()).collect();
    let b0: HashSet<ChangeHash> = net.peers[1].doc.get_changes(&[]).iter().map(|c| c.hash()).collect();
    let both_lack = a0.difference(&b0).next().is_some() && b0.difference(&a0).next().is_some();
    let mut fp_on = false;
    if *fp != 0 {
        force_fp(Some((2 + fp % 3, *fp)));
        fp_on = true;
        t.class("forced_false_positives");
    }
    for (k, a, b) in sched {
        match k % 8 {
            0 => local_edit(&mut net.peers[0].doc, *a, *b),
            1 => local_edit(&mut net.peers[1].doc, *a, *b),
            2 => drop(net.generate(0, 1)?),
            3 => drop(net.generate(1, 0)?),
            4 => drop(net.deliver(0, 1)?),
            5 => drop(net.deliver(1, 0)?),
            6 => {
                // toggle the forced false positives
                if fp_on {
                    force_fp(None);
                    fp_on = false;
                } else if *fp != 0 {
                    force_fp(Some((2 + a % 3, *b)));
                    fp_on = true;
                }
            }
            _ => {
                drop(net.generate(0, 1)?);
                drop(net.generate(1, 0)?);
            }
        }
    }
    for d in net.peers.iter_mut() {
        d.doc.commit_with(CommitOptions::default().with_time(0));
    }
    let bd = bound(&mut net);
    match net.closing(bd)? {
        Ok(rounds) => {
            t.class(format!("rounds<={}", ((rounds + 3) / 4) * 4));
        }
        Err(_) => {
            return Err(Failure::new("C20:not-quiet-within-bound", format!("after {bd} fair rounds the peers still generate messages ({} changes)", net.total_changes())));
        }
    }
    let (h0, h1) = (net.heads(0), net.heads(1));
    ensure!(h0 == h1, "C20:quiet-but-heads-differ", "both peers return None but heads differ: {:?} vs {:?}", h0, h1);
    let o0 = catch("observe", || observe(&net.peers[0].doc, None))?;
    let o1 = catch("observe", || observe(&net.peers[1].doc, None))?;
    expect_same("C20", "state", &o0, &o1)?;
    // quiet means quiet: one more generate on each side is None
    ensure!(!net.generate(0, 1)? && !net.generate(1, 0)?, "C20:not-idempotent-quiet", "generate_sync_message returned a message after the session went quiet");
    t.extra_evals += net.stats.delivered;
    if both_lack {
        t.class("both_lack_changes");
        t.nontrivial();
        t.sample = Some(serde_json::json!({"history": p.describe(), "schedule": sched, "fp": fp}));
    }
    Ok(())
}

pub type MCase = (Program, Vec<(u8, u8, u8, u8)>, u8, u8);

pub fn check_multi(case: &MCase, t: &mut Tally) -> CaseResult {
    let r = check_multi_inner(case, t);
    force_fp(None);
    r
}

fn check_multi_inner(case: &MCase, t: &mut Tally) -> CaseResult {
    let (p, sched, npeers, fp) = case;
    let n = 3 + (*npeers as usize % 3);
    let mut prog = p.clone();
    prog.steps.retain(|s| s.k != ISOLATE && s.k != INTEGRATE);
    let docs = docs_from(&prog, n)?;
    let mut net = Net::new(docs);
    // initial topology: a line
    for i in 0..n - 1 {
        net.connect(i, i + 1);
    }
    if *fp != 0 {
        force_fp(Some((3, *fp)));
        t.class("forced_false_positives");
    }
    let mut dropped_then_persisted = false;
    for (k, a, b, c) in sched {
        let (x, y) = ((*a as usize) % n, (*b as usize) % n);
        match k % 8 {
            0 => local_edit(&mut net.peers[x].doc, *b, *c),
            1 | 2 => drop(net.generate(x, y)?),
            3 | 4 => drop(net.deliver(x, y)?),
            5 => {
                let before = net.stats.dropped_in_flight;
                let connected = net.is_connected(x, y);
                net.disconnect(x, y, c & 1 == 1, c & 2 == 2)?;
                if connected && net.stats.dropped_in_flight > before && (c & 3) != 0 {
                    dropped_then_persisted = true;
                }
            }
            6 => net.connect(x, y),
            _ => {
                for q in 0..n {
                    drop(net.generate(x, q)?);
                }
            }
        }
    }
    for d in net.peers.iter_mut() {
        d.doc.commit_with(CommitOptions::default().with_time(0));
    }
    // final topology: whatever the schedule left, plus (sometimes) a reconnection making it connected again
    if fp % 2 == 0 {
        for i in 0..n - 1 {
            net.connect(i, i + 1);
        }
    }
    let bd = bound(&mut net) * 2;
    if net.closing(bd)?.is_err() {
        // what is still being asked for, and does anybody in the network hold it?
        let mut missing: Vec<(usize, automerge::ChangeHash)> = vec![];
        for i in 0..n {
            for h in net.peers[i].doc.get_missing_deps(&[]) {
                missing.push((i, h));
            }
        }
        let mut held = vec![];
        for (i, h) in &missing {
            let holders: Vec<usize> = (0..n).filter(|j| net.peers[*j].doc.get_change_by_hash(h).is_some()).collect();
            held.push(format!("peer {i} waits for {} held by peers {:?}", &h.to_string()[..8], holders));
            if holders.is_empty() {
                // a dependency that no peer holds can never be served: the session cannot go quiet, and that is
                // the schedule's doing (an out-of-order delivery whose source left the network), not the protocol's
                t.class("inconclusive:dependency-held-by-no-peer");
                return Ok(());
            }
        }
        // a connected neighbour holds a head that the other side never receives although it keeps asking
        let mut starving = vec![];
        for comp in net.components() {
            for &p in &comp {
                for &q in &comp {
                    if p != q && net.is_connected(p, q) {
                        for h in net.heads(q) {
                            if net.peers[p].doc.get_change_by_hash(&h).is_none() {
                                starving.push(format!("peer {p} never receives head {} of its neighbour {q}", &h.to_string()[..8]));
                            }
                        }
                    }
                }
            }
        }
        let sig = if starving.is_empty() { "C21:not-quiet-within-bound" } else { "C21:not-quiet-within-bound:neighbour-head-never-delivered" };
        return Err(Failure::new(sig, format!("after {bd} fair rounds some peer still generates messages ({} peers, {} changes); {} {}", n, net.total_changes(), held.join("; "), starving.join("; "))));
    }
    for comp in net.components() {
        let h0 = net.heads(comp[0]);
        for &q in &comp[1..] {
            let hq = net.heads(q);
            ensure!(hq == h0, "C21:component-heads-differ", "peers {} and {} are connected and quiet but heads differ: {:?} vs {:?}", comp[0], q, h0, hq);
        }
        if comp.len() > 1 {
            let o0 = catch("observe", || observe(&net.peers[comp[0]].doc, None))?;
            let oq = catch("observe", || observe(&net.peers[comp[comp.len() - 1]].doc, None))?;
            expect_same("C21", "state", &o0, &oq)?;
        }
    }
    t.extra_evals += net.stats.delivered;
    if net.stats.dropped_in_flight > 0 {
        t.class("dropped_in_flight");
    }
    if net.stats.reconnect_persisted > 0 {
        t.class("reconnect_persisted_state");
    }
    if net.stats.reconnect_fresh > 0 {
        t.class("reconnect_fresh_state");
    }
    if dropped_then_persisted {
        t.nontrivial();
        t.sample = Some(serde_json::json!({"history": p.describe(), "schedule": sched, "peers": n}));
    }
    Ok(())
}

pub fn check_read_only(case: &Case, t: &mut Tally) -> CaseResult {
    let r = check_read_only_inner(case, t);
    force_fp(None);
    r
}

fn check_read_only_inner(case: &Case, t: &mut Tally) -> CaseResult {
    let (p, sched, mode) = case;
    if mode & 0x0c == 0x0c {
        // a quarter of the cases run with forced Bloom false positives
        force_fp(Some((2 + (mode >> 4) % 3, mode >> 6)));
        t.class("forced_false_positives");
    }
    let mut prog = p.clone();
    prog.steps.retain(|s| s.k != ISOLATE && s.k != INTEGRATE);
    let docs = docs_from(&prog, 2)?;
    let mut net = Net::new(docs);
    net.connect(0, 1);
    // read-only flags: at construction and/or toggled by the schedule; ro[i] mirrors peer i's state for peer 1-i
    let mut ro = [false, false];
    if mode & 1 == 1 {
        *net.state(0, 1) = automerge::sync::State::new_read_only();
        ro[0] = true;
        t.class("read_only_at_construction");
    }
    if mode & 2 == 2 {
        *net.state(1, 0) = automerge::sync::State::new_read_only();
        ro[1] = true;
    }
    let mut toggle_in_flight = false;
    let snap = |d: &mut AutoCommit| -> (Vec<ChangeHash>, Vec<u8>) {
        let mut h = d.get_heads();
        h.sort();
        (h, d.save_with_options(SaveOptions { deflate: false, retain_orphans: true }))
    };
    let mut deliver_checked = |net: &mut Net, from: usize, to: usize, ro: &[bool; 2], t: &mut Tally| -> CaseResult {
        if ro[to] {
            let before = snap(&mut net.peers[to].doc);
            let pending_before = net.peers[to].doc.pending_ops();
            if net.deliver(from, to)? {
                let after = snap(&mut net.peers[to].doc);
                let _ = pending_before;
                ensure!(before == after, "C22:read-only-receive-changed-document", "receive_sync_message on a read-only peer changed its document (heads {:?} -> {:?}, saved bytes {} -> {})", before.0, after.0, before.1.len(), after.1.len());
                t.class("receive_while_read_only");
                t.extra_evals += 1;
            }
        } else {
            net.deliver(from, to)?;
        }
        Ok(())
    };
    for (k, a, b) in sched {
        match k % 9 {
            0 => local_edit(&mut net.peers[0].doc, *a, *b),
            1 => local_edit(&mut net.peers[1].doc, *a, *b),
            2 => drop(net.generate(0, 1)?),
            3 => drop(net.generate(1, 0)?),
            4 => deliver_checked(&mut net, 0, 1, &ro, t)?,
            5 => deliver_checked(&mut net, 1, 0, &ro, t)?,
            6 | 7 => {
                let who = (k % 9 - 6) as usize;
                let other = 1 - who;
                // commit pending edits first so that "document unchanged" is about sync only
                net.peers[who].doc.commit_with(CommitOptions::default().with_time(0));
                ro[who] = !ro[who];
                let v = ro[who];
                net.state(who, other).set_read_only(v);
                if net.links.get(&(other, who)).map(|l| !l.is_empty()).unwrap_or(false) {
                    toggle_in_flight = true;
                }
                t.class("toggle");
            }
            _ => {
                drop(net.generate(0, 1)?);
                drop(net.generate(1, 0)?);
            }
        }
    }
    for d in net.peers.iter_mut() {
        d.doc.commit_with(CommitOptions::default().with_time(0));
    }
    // closing phase with the flags as they are: a read-only peer never changes, the other side gets its changes
    let bd = bound(&mut net) * 2;
    let frozen: Vec<Option<(Vec<ChangeHash>, Vec<u8>)>> = (0..2).map(|i| if ro[i] { Some(snap(&mut net.peers[i].doc)) } else { None }).collect();
    if net.closing(bd)?.is_err() {
        return Err(Failure::new("C22:not-quiet-within-bound", format!("read-only session (flags {:?}) still generates messages after {bd} rounds", ro)));
    }
    for i in 0..2 {
        if let Some(f) = &frozen[i] {
            let now = snap(&mut net.peers[i].doc);
            ensure!(*f == now, "C22:read-only-peer-changed-in-closing", "peer {i} is read-only but its document changed during sync (heads {:?} -> {:?})", f.0, now.0);
            // the other peer holds every change of the read-only peer
            let mine: Vec<ChangeHash> = net.peers[i].doc.get_changes(&[]).iter().map(|c| c.hash()).collect();
            let theirs: HashSet<ChangeHash> = net.peers[1 - i].doc.get_changes(&[]).iter().map(|c| c.hash()).collect();
            if !ro[1 - i] {
                let missing: Vec<&ChangeHash> = mine.iter().filter(|h| !theirs.contains(h)).collect();
                ensure!(missing.is_empty(), "C22:writer-did-not-receive-reader-changes", "peer {} (read-write) lacks {} change(s) of the read-only peer {i} after the session went quiet", 1 - i, missing.len());
            }
        }
    }
    // switch everything back to read-write: both converge
    for i in 0..2 {
        if ro[i] {
            net.state(i, 1 - i).set_read_only(false);
            ro[i] = false;
        }
    }
    if net.closing(bd)?.is_err() {
        return Err(Failure::new("C22:not-quiet-after-switch-back", "after switching back to read-write the session does not go quiet".to_string()));
    }
    let (h0, h1) = (net.heads(0), net.heads(1));
    ensure!(h0 == h1, "C22:heads-differ-after-switch-back", "after switching back to read-write and syncing, heads differ: {:?} vs {:?}", h0, h1);
    if toggle_in_flight {
        t.class("toggle_with_message_in_flight");
        t.nontrivial();
        t.sample = Some(serde_json::json!({"history": p.describe(), "schedule": sched, "mode": mode}));
    }
    Ok(())
}

fn sched2() -> impl Strategy<Value = Sched> {
    prop::collection::vec((any::<u8>(), any::<u8>(), any::<u8>()), 0..40)
}

pub fn property_c20(_ctx: &Ctx) -> Property {
    Property {
        id: "C20",
        level: "exploration",
        rule: "two peers whose starting histories come from a generated multi-replica program (shared base, forked, disjoint or empty); a generated schedule interleaves local edits, generate and deliver steps on both directions (every message goes through encode/decode over FIFO links) and toggles forced Bloom false positives (hook: contains_hash answers 'present' for a generated subset of hashes). After a fair closing phase bounded by 20 + 4*|changes| + 4*|peers|^2 rounds both generate_sync_message must return None (and keep returning None), heads and full observation must be equal. Non-trivial = both peers initially hold changes the other lacks; distinct by case. evaluations counts delivered messages.",
        assumptions: &["reliable in-order links", "forced false positives are within a Bloom filter's contract (it may answer 'present' for any hash)"],
        subs: vec![
            sub::<Case, _, _>("two-peer", 32000, 600000, |c| (program_strategy(HISTORY, if c.thorough() { 60 } else { 25 }, 2, 4), sched2(), prop_oneof![3 => Just(0u8), 2 => any::<u8>()]), check_two),
        ],
    }
}

pub fn property_c21(_ctx: &Ctx) -> Property {
    Property {
        id: "C21",
        level: "exploration",
        rule: "3-5 peers with generated starting histories on a line topology; a generated schedule of local edits, generate/deliver on arbitrary pairs, disconnects (in-flight messages dropped, each side independently restarting with State::new() or State::decode(State::encode())) and reconnections, optionally with forced Bloom false positives. After the schedule the topology is (in half the cases) made connected again and a fair closing phase runs: within 2*(20 + 4*|changes| + 4*|peers|^2) rounds nobody generates messages any more, and all peers of a connected component have equal heads (and equal observation). Non-trivial = a disconnect dropped a queued message and a side reconnected with a persisted state; distinct by case.",
        assumptions: &["both ends of a dropped link replace their sync state (fresh or encode/decode) — a stale in-memory state across a disconnect is outside the documented contract"],
        subs: vec![sub::<MCase, _, _>("multi-peer", 24000, 500000, |c| (program_strategy(HISTORY, if c.thorough() { 60 } else { 25 }, 5, 4), prop::collection::vec((any::<u8>(), any::<u8>(), any::<u8>(), any::<u8>()), 0..60), any::<u8>(), prop_oneof![3 => Just(0u8), 1 => any::<u8>()]), check_multi)],
    }
}

pub fn property_c22(_ctx: &Ctx) -> Property {
    Property {
        id: "C22",
        level: "exploration",
        rule: "two peers with generated histories; read_only is set at construction (State::new_read_only) and/or toggled by set_read_only at generated schedule points on either or both sides, interleaved with edits, generate and deliver steps (messages may be in flight at a toggle). Every receive on a peer whose state is read-only must leave heads and save_with_options(retain_orphans) bytes unchanged; after a closing phase a read-only peer is unchanged and a read-write peer holds every change of the read-only one; after switching back and another closing phase heads are equal. Non-trivial = a toggle happened with a message in flight towards the toggling peer; distinct by case.",
        assumptions: &["reliable in-order links"],
        subs: vec![sub::<Case, _, _>("read-only", 32000, 600000, |c| (program_strategy(HISTORY, if c.thorough() { 60 } else { 25 }, 2, 4), sched2(), any::<u8>()), check_read_only)],
    }
}
