//! C31 Anonymisation preserves document shape.
//!
//! Own shape code (nothing from the crate's `anonymize/shape.rs`): the anonymised document must have
//! an isomorphic change graph (changes matched by (actor rank, seq); equal `start_op`, op count,
//! dependency structure and per-op shape via `Change::decode()`), the op-level correspondence
//! induces an actor map, a change-hash map, a per-object map-key bijection and a mark-name
//! bijection; under those the two documents are equal as shapes at current heads and at every
//! recorded heads (object types, key sets, list lengths, text widths in the document's encoding,
//! conflict-set sizes, counters stay counters, scalar kinds, per-position mark names), and
//! `load(save(anon))` is clean.  `anonymize` seeds itself from the OS: every case runs it several
//! times, the oracle must hold for every seed.
use super::common::*;
use crate::engine::driver::*;
use crate::engine::graph::Graph;
use crate::engine::interp::load_opts;
use crate::engine::obs::*;
use crate::engine::program::*;
use crate::{ensure, fail};
use automerge::legacy as am_legacy;
use automerge::{Automerge, Change, ChangeHash, ReadDoc, ScalarValue, TextEncoding};
use proptest::prelude::*;
use std::collections::{BTreeMap, BTreeSet, HashMap, HashSet};

type Case = (Program, u8);
type Actor = Vec<u8>;
type OId = (u64, Actor);

/// correspondence induced by the op-level comparison
#[derive(Default, Debug)]
pub struct Corr {
    pub actors: HashMap<Actor, Actor>,
    pub hashes: HashMap<ChangeHash, ChangeHash>,
    /// per object (original id): original key -> anonymised key
    pub keys: HashMap<OId, BTreeMap<String, String>>,
    /// mark name -> anonymised mark name
    pub marks: BTreeMap<String, String>,
    pub ops: u64,
}

fn scalar_kind(s: &ScalarValue) -> &'static str {
    match s {
        ScalarValue::Bytes(_) => "Bytes",
        ScalarValue::Str(_) => "Str",
        ScalarValue::Int(_) => "Int",
        ScalarValue::Uint(_) => "Uint",
        ScalarValue::F64(_) => "F64",
        ScalarValue::Counter(_) => "Counter",
        ScalarValue::Timestamp(_) => "Timestamp",
        ScalarValue::Boolean(_) => "Boolean",
        ScalarValue::Unknown { .. } => "Unknown",
        ScalarValue::Null => "Null",
    }
}

/// (utf8 width, utf16 width) of every character
fn char_widths(s: &str) -> Vec<(u8, u8)> {
    s.chars().map(|c| (c.len_utf8() as u8, c.len_utf16() as u8)).collect()
}

fn opid(o: &am_legacy::OpId) -> OId {
    (o.counter(), o.actor().to_bytes().to_vec())
}
fn objid(o: &am_legacy::ObjectId) -> OId {
    match o {
        am_legacy::ObjectId::Root => (0, vec![]),
        am_legacy::ObjectId::Id(i) => opid(i),
    }
}

impl Corr {
    fn map_id(&self, id: &OId) -> Option<OId> {
        if id.0 == 0 && id.1.is_empty() {
            return Some(id.clone());
        }
        self.actors.get(&id.1).map(|a| (id.0, a.clone()))
    }
}

/// scalar values: the kind is retained, strings keep every character's UTF-8/UTF-16 width, byte strings their length
fn scalar_shape_eq(a: &ScalarValue, b: &ScalarValue, at: &str) -> CaseResult {
    ensure!(scalar_kind(a) == scalar_kind(b), "C31:op-shape:scalar-kind", "{at}: scalar {} became {}", scalar_kind(a), scalar_kind(b));
    match (a, b) {
        (ScalarValue::Str(x), ScalarValue::Str(y)) => {
            ensure!(char_widths(x) == char_widths(y), "C31:op-shape:string-width", "{at}: string {:?} became {:?} (per-character UTF-8/UTF-16 widths differ)", x, y);
        }
        (ScalarValue::Bytes(x), ScalarValue::Bytes(y)) => {
            ensure!(x.len() == y.len(), "C31:op-shape:bytes-length", "{at}: {} bytes became {} bytes", x.len(), y.len());
        }
        (ScalarValue::Unknown { type_code: x, .. }, ScalarValue::Unknown { type_code: y, .. }) => {
            ensure!(x == y, "C31:op-shape:scalar-kind", "{at}: unknown type code {x} became {y}");
        }
        _ => {}
    }
    Ok(())
}

/// Match the change graphs and every op; returns the induced correspondence.
pub fn match_histories(orig: &Automerge, anon: &Automerge) -> Result<Corr, Failure> {
    let oc = catch("get_changes(original)", || orig.get_changes(&[]))?;
    let ac = catch("get_changes(anonymised)", || anon.get_changes(&[]))?;
    ensure!(oc.len() == ac.len(), "C31:change-graph:change-count", "{} changes became {}", oc.len(), ac.len());
    let ranks = |cs: &[Change]| -> Vec<Actor> { cs.iter().map(|c| c.actor_id().to_bytes().to_vec()).collect::<BTreeSet<_>>().into_iter().collect() };
    let (oa, aa) = (ranks(&oc), ranks(&ac));
    ensure!(oa.len() == aa.len(), "C31:change-graph:actor-count", "{} actors became {}", oa.len(), aa.len());
    let mut corr = Corr::default();
    for (x, y) in oa.iter().zip(aa.iter()) {
        corr.actors.insert(x.clone(), y.clone());
    }
    let index = |cs: &[Change], actors: &[Actor]| -> BTreeMap<(usize, u64), usize> {
        cs.iter().enumerate().map(|(i, c)| ((actors.binary_search(&c.actor_id().to_bytes().to_vec()).unwrap(), c.seq()), i)).collect()
    };
    let (oi, ai) = (index(&oc, &oa), index(&ac, &aa));
    ensure!(oi.len() == oc.len() && ai.len() == ac.len(), "C31:change-graph:duplicate-actor-seq", "two changes share (actor, seq)");
    ensure!(
        oi.keys().collect::<Vec<_>>() == ai.keys().collect::<Vec<_>>(),
        "C31:change-graph:actor-seq-structure",
        "changes by (actor rank, seq): original {:?} anonymised {:?}",
        oi.keys().collect::<Vec<_>>(),
        ai.keys().collect::<Vec<_>>()
    );
    for (k, i) in &oi {
        corr.hashes.insert(oc[*i].hash(), ac[ai[k]].hash());
    }
    ensure!(corr.hashes.values().collect::<HashSet<_>>().len() == oc.len(), "C31:change-graph:hash-collision", "two changes were anonymised to the same hash");
    for (k, i) in &oi {
        let (o, a) = (&oc[*i], &ac[ai[k]]);
        let at = format!("change (actor rank {}, seq {})", k.0, k.1);
        ensure!(o.start_op() == a.start_op(), "C31:change-graph:start_op", "{at}: start_op {} became {}", o.start_op(), a.start_op());
        ensure!(o.len() == a.len(), "C31:change-graph:op-count", "{at}: {} ops became {}", o.len(), a.len());
        ensure!(o.max_op() == a.max_op(), "C31:change-graph:max_op", "{at}: max_op {} became {}", o.max_op(), a.max_op());
        let mut od: Vec<ChangeHash> = vec![];
        for d in o.deps() {
            match corr.hashes.get(d) {
                Some(h) => od.push(*h),
                None => fail!("C31:harness:dep-outside-document", "{at}: dependency {d} is not a change of the document"),
            }
        }
        od.sort();
        let mut ad = a.deps().to_vec();
        ad.sort();
        ensure!(od == ad, "C31:change-graph:deps", "{at}: dependencies (mapped) {:?} but anonymised change has {:?}", od, ad);

        let (oe, ae) = (catch("decode(original)", || o.decode())?, catch("decode(anonymised)", || a.decode())?);
        ensure!(oe.operations.len() == ae.operations.len(), "C31:change-graph:op-count", "{at}: decoded {} ops vs {}", oe.operations.len(), ae.operations.len());
        for (n, (x, y)) in oe.operations.iter().zip(ae.operations.iter()).enumerate() {
            let at = format!("{at} op {n} ({:?})", x.action);
            corr.ops += 1;
            ensure!(x.insert == y.insert, "C31:op-shape:insert-flag", "{at}: insert {} became {}", x.insert, y.insert);
            let xo = objid(&x.obj);
            ensure!(corr.map_id(&xo) == Some(objid(&y.obj)), "C31:op-shape:object", "{at}: object {:?} became {:?}", x.obj, y.obj);
            match (&x.key, &y.key) {
                (am_legacy::Key::Map(k), am_legacy::Key::Map(k2)) => {
                    let m = corr.keys.entry(xo.clone()).or_default();
                    match m.get(k.as_str()) {
                        Some(prev) => ensure!(prev == k2.as_str(), "C31:op-shape:key-not-a-function", "{at}: key {:?} of object {:?} became {:?} here and {:?} elsewhere", k, xo, k2, prev),
                        None => {
                            ensure!(!m.values().any(|v| v == k2.as_str()), "C31:op-shape:key-collision", "{at}: two keys of object {:?} both became {:?}", xo, k2);
                            m.insert(k.to_string(), k2.to_string());
                        }
                    }
                    ensure!(char_widths(k) == char_widths(k2), "C31:op-shape:key-width", "{at}: key {:?} became {:?} (per-character widths differ)", k, k2);
                }
                (am_legacy::Key::Seq(am_legacy::ElementId::Head), am_legacy::Key::Seq(am_legacy::ElementId::Head)) => {}
                (am_legacy::Key::Seq(am_legacy::ElementId::Id(e)), am_legacy::Key::Seq(am_legacy::ElementId::Id(e2))) => {
                    ensure!(corr.map_id(&opid(e)) == Some(opid(e2)), "C31:op-shape:element", "{at}: element {:?} became {:?}", x.key, y.key);
                }
                _ => fail!("C31:op-shape:key-kind", "{at}: key {:?} became {:?}", x.key, y.key),
            }
            let mut xp: Vec<OId> = vec![];
            for p in x.pred.iter() {
                match corr.map_id(&opid(p)) {
                    Some(m) => xp.push(m),
                    None => fail!("C31:harness:pred-actor-unknown", "{at}: predecessor by an actor without changes"),
                }
            }
            xp.sort();
            let mut yp: Vec<OId> = y.pred.iter().map(opid).collect();
            yp.sort();
            ensure!(xp == yp, "C31:op-shape:pred", "{at}: predecessors (mapped) {:?} became {:?}", xp, yp);
            use am_legacy::OpType as O;
            match (&x.action, &y.action) {
                (O::Make(t1), O::Make(t2)) => ensure!(t1 == t2, "C31:op-shape:object-type", "{at}: make {t1} became make {t2}"),
                (O::Delete, O::Delete) => {}
                (O::Increment(_), O::Increment(_)) => {}
                (O::Put(v1), O::Put(v2)) => scalar_shape_eq(v1, v2, &at)?,
                (O::MarkBegin(m1), O::MarkBegin(m2)) => {
                    ensure!(m1.expand == m2.expand, "C31:op-shape:mark-expand", "{at}: expand {} became {}", m1.expand, m2.expand);
                    scalar_shape_eq(&m1.value, &m2.value, &at)?;
                    match corr.marks.get(m1.name.as_str()) {
                        Some(prev) => ensure!(prev == m2.name.as_str(), "C31:op-shape:mark-name-not-a-function", "{at}: mark name {:?} became {:?} here and {:?} elsewhere", m1.name, m2.name, prev),
                        None => {
                            ensure!(!corr.marks.values().any(|v| v == m2.name.as_str()), "C31:op-shape:mark-name-collision", "{at}: two mark names both became {:?}", m2.name);
                            corr.marks.insert(m1.name.to_string(), m2.name.to_string());
                        }
                    }
                }
                (O::MarkEnd(e1), O::MarkEnd(e2)) => ensure!(e1 == e2, "C31:op-shape:mark-expand", "{at}: mark end expand {e1} became {e2}"),
                (p, q) => fail!("C31:op-shape:action", "{at}: action {:?} became {:?}", p, q),
            }
        }
    }
    Ok(corr)
}

// ------------------------------------------------------------------ state shapes

#[derive(Default, Debug, Clone)]
pub struct Seen {
    pub text: bool,
    pub mark: bool,
    pub counter: bool,
    pub conflict: bool,
    pub nested: bool,
    pub block: bool,
}

fn rendered_kind(s: &str) -> &str {
    s.split('(').next().unwrap_or(s)
}

struct ShapeCmp<'a> {
    corr: &'a Corr,
    enc: TextEncoding,
    /// first text-width difference under GraphemeCluster (reported after everything else)
    grapheme_width: Option<String>,
    seen: Seen,
}

impl<'a> ShapeCmp<'a> {
    fn regs(&mut self, path: &str, x: &[(Id, OVal)], y: &[(Id, OVal)]) -> CaseResult {
        ensure!(x.len() == y.len(), "C31:state:conflict-set-size", "{path}: {} visible values became {}", x.len(), y.len());
        if x.len() > 1 {
            self.seen.conflict = true;
        }
        for ((ix, vx), (iy, vy)) in x.iter().zip(y.iter()) {
            ensure!(self.corr.map_id(ix).as_ref() == Some(iy), "C31:state:op-id", "{path}: value written by op {:?} corresponds to op {:?}", ix, iy);
            match (vx, vy) {
                (OVal::Obj(a), OVal::Obj(b)) => {
                    self.seen.nested = true;
                    self.node(path, ix, a, b)?
                }
                (OVal::Counter(_), OVal::Counter(_)) => self.seen.counter = true,
                (OVal::Scalar(a), OVal::Scalar(b)) => {
                    ensure!(rendered_kind(a) == rendered_kind(b), "C31:state:scalar-kind", "{path}: {a} became {b}");
                }
                (a, b) => fail!("C31:state:value-kind", "{path}: {:?} became {:?}", a, b),
            }
        }
        Ok(())
    }

    fn node(&mut self, path: &str, id: &OId, a: &ONode, b: &ONode) -> CaseResult {
        match (a, b) {
            (ONode::Map(x), ONode::Map(y)) => {
                ensure!(x.len() == y.len(), "C31:state:key-count", "{path}: {} keys became {}: {:?} vs {:?}", x.len(), y.len(), x.keys().collect::<Vec<_>>(), y.keys().collect::<Vec<_>>());
                let empty = BTreeMap::new();
                let km = self.corr.keys.get(id).unwrap_or(&empty);
                for (k, rx) in x {
                    let Some(k2) = km.get(k) else {
                        fail!("C31:harness:visible-key-without-op", "{path}: key {:?} of object {:?} is visible but no op of the history writes it", k, id);
                    };
                    let Some(ry) = y.get(k2) else {
                        fail!("C31:state:key-missing", "{path}: key {:?} (anonymised {:?}) is not visible in the anonymised document; its keys: {:?}", k, k2, y.keys().collect::<Vec<_>>());
                    };
                    self.regs(&format!("{path}/{k:?}"), rx, ry)?;
                }
                Ok(())
            }
            (ONode::List(x), ONode::List(y)) => {
                ensure!(x.len() == y.len(), "C31:state:list-length", "{path}: list length {} became {}", x.len(), y.len());
                for (i, (rx, ry)) in x.iter().zip(y.iter()).enumerate() {
                    self.regs(&format!("{path}[{i}]"), rx, ry)?;
                }
                Ok(())
            }
            (ONode::Text(x), ONode::Text(y)) => {
                let grapheme = self.enc == TextEncoding::GraphemeCluster;
                if !x.text.is_empty() {
                    self.seen.text = true;
                }
                if x.marks.iter().any(|m| !m.is_empty()) {
                    self.seen.mark = true;
                }
                ensure!(x.elems.len() == y.elems.len(), "C31:state:text-elements", "{path}: {} text elements became {} ({:?} vs {:?})", x.elems.len(), y.elems.len(), x.text, y.text);
                ensure!(
                    char_widths(&x.text) == char_widths(&y.text),
                    "C31:state:text-char-widths",
                    "{path}: text {:?} became {:?}: per-character UTF-8/UTF-16 widths differ",
                    x.text,
                    y.text
                );
                if x.len != y.len {
                    let d = format!("{path}: text width (length() in {:?}) {} became {} (text {:?} vs {:?})", self.enc, x.len, y.len, x.text, y.text);
                    if grapheme {
                        self.grapheme_width.get_or_insert(d);
                    } else {
                        fail!("C31:state:text-width", "{d}");
                    }
                }
                for (i, ((sx, rx), (sy, ry))) in x.elems.iter().zip(y.elems.iter()).enumerate() {
                    if !grapheme {
                        ensure!(sx == sy, "C31:state:text-element-offset", "{path}: element {i} starts at {sx}, anonymised at {sy}");
                    }
                    if rx.iter().any(|(_, v)| matches!(v, OVal::Obj(_))) {
                        self.seen.block = true;
                    }
                    self.regs(&format!("{path}<{i}>"), rx, ry)?;
                }
                if !grapheme || x.len == y.len {
                    ensure!(x.marks.len() == y.marks.len(), "C31:state:marks", "{path}: mark table of {} positions became {}", x.marks.len(), y.marks.len());
                    for (p, (mx, my)) in x.marks.iter().zip(y.marks.iter()).enumerate() {
                        if grapheme {
                            // positions are only comparable when every element kept its width; compare the number of marks only
                            ensure!(mx.len() == my.len() || self.grapheme_width.is_some(), "C31:state:marks", "{path}: position {p}: marks {:?} became {:?}", mx, my);
                            continue;
                        }
                        let mut want: BTreeMap<String, &str> = BTreeMap::new();
                        for (name, v) in mx {
                            if name.starts_with("!beyond-end") {
                                continue;
                            }
                            let Some(n2) = self.corr.marks.get(name) else {
                                fail!("C31:harness:mark-without-op", "{path}: mark {:?} is visible but no op of the history creates it", name);
                            };
                            want.insert(n2.clone(), rendered_kind(v));
                        }
                        let got: BTreeMap<String, &str> = my.iter().filter(|(n, _)| !n.starts_with("!beyond-end")).map(|(n, v)| (n.clone(), rendered_kind(v))).collect();
                        ensure!(want == got, "C31:state:marks", "{path}: position {p}: marks (mapped name -> value kind) {:?} became {:?}", want, got);
                    }
                }
                Ok(())
            }
            (x, y) => {
                let n = |o: &ONode| match o {
                    ONode::Map(_) => "map",
                    ONode::List(_) => "list",
                    ONode::Text(_) => "text",
                };
                fail!("C31:state:object-type", "{path}: {} became {}", n(x), n(y))
            }
        }
    }
}

/// compare the two documents at `heads` (None = current) under the correspondence
fn compare_at(orig: &Automerge, anon: &Automerge, corr: &Corr, heads: Option<&[ChangeHash]>, seen: &mut Seen, grapheme_width: &mut Option<String>) -> CaseResult {
    let mapped: Option<Vec<ChangeHash>> = match heads {
        None => None,
        Some(h) => Some(h.iter().map(|x| corr.hashes[x]).collect()),
    };
    let oo = obs_of(orig, heads, "original")?;
    let ao = obs_of(anon, mapped.as_deref(), "anonymised")?;
    let mut cmp = ShapeCmp { corr, enc: orig.text_encoding(), grapheme_width: None, seen: seen.clone() };
    let where_ = match heads {
        None => "current".to_string(),
        Some(h) => format!("at heads {:?}", h.iter().map(|x| x.to_string()[..8].to_string()).collect::<Vec<_>>()),
    };
    let r = cmp.node(&where_, &(0, vec![]), &oo, &ao);
    *seen = cmp.seen;
    if grapheme_width.is_none() {
        *grapheme_width = cmp.grapheme_width;
    }
    r
}

/// Everything the property says about one (original, anonymised) pair. Returns the pending
/// GraphemeCluster text-width difference, if any (reported last so that it does not mask anything).
pub fn check_pair(orig: &Automerge, anon: &Automerge, heads: &[Vec<ChangeHash>], t: &mut Tally, seen: &mut Seen) -> Result<Option<String>, Failure> {
    ensure!(orig.text_encoding() == anon.text_encoding(), "C31:text-encoding", "{:?} became {:?}", orig.text_encoding(), anon.text_encoding());
    let corr = match_histories(orig, anon)?;
    // heads
    let mut oh: Vec<ChangeHash> = orig.get_heads().iter().map(|h| corr.hashes[h]).collect();
    oh.sort();
    ensure!(oh == heads_sorted(anon), "C31:change-graph:heads", "heads (mapped) {:?} vs anonymised {:?}", oh, heads_sorted(anon));
    let mut gw = None;
    compare_at(orig, anon, &corr, None, seen, &mut gw)?;
    t.extra_evals += 1;
    for h in heads {
        compare_at(orig, anon, &corr, Some(h), seen, &mut gw)?;
        t.extra_evals += 1;
    }
    // saves and reloads cleanly
    let bytes = catch("save(anonymised)", || anon.save())?;
    let loaded = catch("load(save(anonymised))", || Automerge::load_with_options(&bytes, load_opts(anon.text_encoding())))?
        .map_err(|e| Failure::new("C31:reload:load-error", format!("load(save(anonymised)) failed: {e}")))?;
    ensure!(heads_sorted(&loaded) == heads_sorted(anon), "C31:reload:heads", "heads {:?} vs {:?}", heads_sorted(&loaded), heads_sorted(anon));
    let lh: BTreeSet<ChangeHash> = loaded.get_changes(&[]).iter().map(|c| c.hash()).collect();
    let ah: BTreeSet<ChangeHash> = corr.hashes.values().copied().collect();
    ensure!(lh == ah, "C31:reload:changes", "reloaded document has {} changes, anonymised {}", lh.len(), ah.len());
    let (a, l) = (obs_of(anon, None, "anonymised")?.without_spans(), obs_of(&loaded, None, "reloaded")?.without_spans());
    if let Some((kind, d)) = first_diff(&a, &l) {
        return Err(Failure::new(format!("C31:reload:{kind}"), format!("anonymised vs load(save(anonymised)): {d}")));
    }
    if let Some(h) = heads.last() {
        let m: Vec<ChangeHash> = h.iter().map(|x| corr.hashes[x]).collect();
        let (a, l) = (obs_of(anon, Some(&m), "anonymised")?.without_spans(), obs_of(&loaded, Some(&m), "reloaded")?.without_spans());
        if let Some((kind, d)) = first_diff(&a, &l) {
            return Err(Failure::new(format!("C31:reload:at-heads:{kind}"), format!("anonymised vs load(save(anonymised)) at heads: {d}")));
        }
    }
    t.extra_evals += 1;
    Ok(gw)
}

/// rebuild the history with extra bytes on some changes (the only way to get them: `Change::from(ExpandedChange)`)
fn rebuild_with_extra_bytes(doc: &Automerge, sel: u8) -> Result<(Automerge, HashMap<ChangeHash, ChangeHash>), Failure> {
    let changes = doc.get_changes(&[]);
    let by_hash: HashMap<ChangeHash, &Change> = changes.iter().map(|c| (c.hash(), c)).collect();
    let g = Graph::from_changes(changes.iter());
    let all: HashSet<ChangeHash> = by_hash.keys().copied().collect();
    let order = g.topo(&all);
    let mut out = Automerge::new_with_encoding(doc.text_encoding()).with_actor(observer_actor());
    let mut map = HashMap::new();
    for (i, h) in order.iter().enumerate() {
        let mut e = by_hash[h].decode();
        e.hash = None;
        e.deps = e.deps.iter().map(|d| map[d]).collect();
        let n = (i * 7 + sel as usize) % 6;
        e.extra_bytes = (0..n).map(|j| (j as u8).wrapping_mul(37).wrapping_add(sel)).collect();
        let c = Change::from(e);
        map.insert(*h, c.hash());
        catch("apply_changes(rebuilt)", || out.apply_changes([c]))?.map_err(|e| Failure::new("harness:rebuild-with-extra-bytes", e.to_string()))?;
    }
    Ok((out, map))
}

pub fn check(case: &Case, t: &mut Tally, runs: usize) -> CaseResult {
    let (p, flags) = case;
    let max_heads = if runs > 3 { 12 } else { 5 };
    let mut opts = default_opts();
    opts.nkeys = 4;
    let mut it = run_program(p, opts)?;
    let mut merged = fresh(it.enc);
    for i in 0..it.reps.len() {
        let mut o = it.reps[i].doc.document().clone();
        catch("merge", || merged.merge(&mut o))?.map_err(|e| Failure::new("C31:merge:error", e.to_string()))?;
    }
    let mut heads: Vec<Vec<ChangeHash>> = it.heads.iter().rev().filter(|h| !h.is_empty() && h.iter().all(|x| merged.get_change_by_hash(x).is_some())).take(max_heads).cloned().collect();
    if flags & 1 == 1 {
        // exercise extra bytes: same history, re-authored with extra bytes on most changes
        let before = obs_of(&merged, None, "merged")?.without_spans();
        let (d, map) = rebuild_with_extra_bytes(&merged, *flags >> 2)?;
        let after = obs_of(&d, None, "rebuilt")?.without_spans();
        if first_diff(&before.strip_ids(), &after.strip_ids()).is_some() {
            fail!("harness:rebuild-with-extra-bytes", "rebuilt document differs from the original");
        }
        for h in heads.iter_mut() {
            for x in h.iter_mut() {
                *x = map[x];
            }
        }
        merged = d;
        t.class("extra_bytes");
    }
    if merged.get_changes(&[]).iter().any(|c| c.message().is_some()) {
        t.class("message");
    }
    let mut seen = Seen::default();
    let mut pending: Option<String> = None;
    for _ in 0..runs {
        let anon = catch("Automerge::anonymize", || merged.anonymize())?.map_err(|e| Failure::new("C31:anonymize:error", format!("anonymize returned {e}")))?;
        let gw = check_pair(&merged, &anon, &heads, t, &mut seen)?;
        pending = pending.or(gw);
    }
    // the AutoCommit wrapper (closes a pending transaction first)
    {
        let r0 = &mut it.reps[0].doc;
        let mut anon = catch("AutoCommit::anonymize", || r0.anonymize())?.map_err(|e| Failure::new("C31:anonymize:error", format!("AutoCommit::anonymize returned {e}")))?;
        let anon_doc = anon.document().clone();
        let d = r0.document().clone();
        let hs: Vec<Vec<ChangeHash>> = it.heads.iter().rev().filter(|h| !h.is_empty() && h.iter().all(|x| d.get_change_by_hash(x).is_some())).take(2).cloned().collect();
        let mut s2 = Seen::default();
        let gw = check_pair(&d, &anon_doc, &hs, t, &mut s2)?;
        pending = pending.or(gw);
    }
    for (n, b) in [("text", seen.text), ("mark", seen.mark), ("counter", seen.counter), ("conflict", seen.conflict), ("nested_object", seen.nested), ("block", seen.block)] {
        if b {
            t.class(n);
        }
    }
    t.class(format!("{:?}", it.enc));
    if seen.text && seen.mark && seen.counter && seen.conflict {
        t.class("text+mark+counter+conflict");
        t.nontrivial();
        if p.steps.len() < 30 {
            t.sample = Some(serde_json::json!({"program": p.describe(), "anonymize_runs": runs, "heads_compared": heads.len() + 1}));
        }
    }
    if let Some(d) = pending {
        fail!("C31:state:text-width:GraphemeCluster", "{d}");
    }
    Ok(())
}

/// In half of the cases the program starts with a fixed prelude that creates text, a mark, a counter
/// and a conflicted key (two replicas write ROOT["a"] concurrently, then merge); the generated steps
/// follow.  The flag byte: bit 0 = re-author with extra bytes, bit 1 = prelude, bits 2.. = extra-bytes selector.
fn with_prelude(s: impl Strategy<Value = Program>) -> impl Strategy<Value = Case> {
    (s, any::<u8>()).prop_map(|(mut p, flags)| {
        if flags & 2 != 0 {
            let st = |k: u8, r: u8, a: u16, b: u16, c: u16, d: u16, n: i64| Step { k, r, a, b, c, d, n };
            let prelude = vec![
                st(SPLICE_TEXT, 0, 0, 0, 0, 0xFFFF, 1),   // "hello world" into the shared text
                st(MARK, 0, 0, 0, 0xFFFF, 0, 1),         // bold over the whole text
                st(PUT, 0, 0, 0, 30500, 0, 3),           // ROOT["a"] = counter(3) on replica 0
                st(INCREMENT, 0, 0, 0, 0, 0, 2),
                st(PUT, 1, 0, 0, 0, 0, 7),               // ROOT["a"] = 7 on replica 1, concurrently
                st(MERGE, 0, 0x8000, 0, 0, 0, 0),        // replica 0 merges replica 1 (records heads)
            ];
            p.shared = true;
            p.nrep = p.nrep.clamp(2, 3);
            let mut steps = prelude;
            steps.extend(p.steps.drain(..));
            p.steps = steps;
        }
        (p, flags)
    })
}

/// histories rich in text, marks, counters and conflicts
pub const ANON: Preset = &[
    (PUT, 14),
    (COMMIT, 8),
    (MERGE, 14),
    (LIST_INSERT, 8),
    (SPLICE_TEXT, 14),
    (DELETE, 4),
    (LIST_DELETE, 4),
    (LIST_PUT, 4),
    (PUT_OBJECT, 4),
    (INSERT_OBJECT, 3),
    (INCREMENT, 6),
    (LIST_INCREMENT, 3),
    (MARK, 10),
    (UNMARK, 2),
    (SPLICE, 2),
    (BLOCK, 2),
    (FORK, 1),
    (SAVE_LOAD, 1),
    (EMPTY_CHANGE, 1),
    (APPLY, 2),
    (RECORD_HEADS, 4),
    (TEXT_PUT, 2),
    (UPDATE_TEXT, 1),
    (SET_ACTOR, 1),
];

pub fn property(ctx: &Ctx) -> Property {
    let replay = std::env::args().any(|a| a == "--replay");
    let runs: usize = if ctx.thorough() || replay { 8 } else { 3 };
    Property {
        id: "C31",
        level: "exploration",
        rule: "proptest-generated multi-replica programs (maps, lists, text, marks, counters, blocks, conflicts, commit messages; half of the cases re-authored with extra bytes) merged into one document; Automerge::anonymize is run 3 times per case (8 in thorough and in replays; it seeds itself from the OS, the oracle must hold for every seed) plus AutoCommit::anonymize once. Harness-side shape code: changes are matched by (actor rank in sorted order, seq); start_op, max_op, op count, mapped dependency sets and heads must agree; every decoded op must agree in action kind, object type, insert flag, mapped object / element / predecessor ids, scalar kind, per-character UTF-8/UTF-16 widths of strings, byte lengths, mark expand flags; map keys and mark names must be renamed by a bijection (per object / per document). Under that correspondence the full ReadDoc observations at current heads and at up to 5 (thorough: 12) recorded heads must agree: object types, key sets through the bijection, list lengths, text length() in the document's encoding, element offsets, conflict-set sizes and the ops in them, counters still counters, scalar kinds, per-position mark names; load(save(anon)) succeeds and observes identically. Non-trivial = the compared states contain non-empty text, a mark, a counter and a conflict; distinct by program fingerprint. evaluations counts (document pair, heads) comparisons.",
        assumptions: &[
            "changes are matched by (actor rank, seq): anonymize maps actors order-preservingly (needed for conflict winners and concurrent insert order to keep their shape) — a mismatch is reported as C31:change-graph:actor-seq-structure",
            "scalar kind / string width / byte length retention is taken from the source comment on Automerge::anonymize and the in-tree shape test, not from the property statement; they carry their own signatures",
            "under TextEncoding::GraphemeCluster a text-width difference is reported last with its own signature (C31:state:text-width:GraphemeCluster) so that it masks nothing",
            "anonymize cannot be seeded from outside: a failing case may need several replays to reproduce",
        ],
        subs: vec![
            sub::<Case, _, _>("anon", 1280, 60000, |c| with_prelude(program_strategy(ANON, if c.thorough() { 100 } else { 40 }, if c.thorough() { 5 } else { 3 }, 3)), move |c, t| check(c, t, runs)),
            sub::<Case, _, _>("conflict", 640, 30000, |c| with_prelude(program_strategy(CONFLICT, if c.thorough() { 100 } else { 40 }, 4, 3)), move |c, t| check(c, t, runs)),
            sub::<Case, _, _>("text", 640, 30000, |c| with_prelude(program_strategy(TEXT, if c.thorough() { 100 } else { 40 }, 3, 3)), move |c, t| check(c, t, runs)),
            sub::<Case, _, _>("grapheme", 320, 20000, |c| with_prelude(program_strategy(ANON, if c.thorough() { 100 } else { 40 }, 3, 4).prop_map(|mut p| { p.enc = 3; p })), move |c, t| check(c, t, runs)),
        ],
    }
}
