//! C24 Text indexes are consistent in every encoding; C25 marks follow Peritext semantics and agree across reads.
use super::common::*;
use crate::engine::driver::*;
use crate::engine::interp::{bounds, encoding, load_opts, Interp};
use crate::engine::obs::{exid, observe, render_scalar, ONode, OVal};
use crate::engine::program::*;
use crate::engine::refdoc::{width, RefDoc};
use crate::ensure;
use automerge::iter::Span;
use automerge::marks::{ExpandMark, Mark};
use automerge::transaction::Transactable;
use automerge::{AutoCommit, Automerge, ChangeHash, ObjId, ObjType, ReadDoc, TextEncoding};
use proptest::prelude::*;
use std::collections::BTreeMap;
use unicode_segmentation::UnicodeSegmentation;

fn text_objects<D: ReadDoc>(d: &D, objs: &[(ObjId, ObjType)]) -> Vec<ObjId> {
    objs.iter().filter(|(id, t)| *t == ObjType::Text && d.object_type(id).is_ok()).map(|x| x.0.clone()).collect()
}

/// all index/length consistency checks for one text object (current state or at heads)
pub fn check_text<D: ReadDoc>(d: &D, obj: &ObjId, heads: Option<&[ChangeHash]>, enc: TextEncoding, t: &mut Tally, prop: &str) -> CaseResult {
    let text = match heads {
        None => d.text(obj),
        Some(h) => d.text_at(obj, h),
    }
    .map_err(|e| Failure::new(format!("{prop}:text-error"), e.to_string()))?;
    let len = match heads {
        None => d.length(obj),
        Some(h) => d.length_at(obj, h),
    };
    let w = width(enc, &text);
    // element walk: ids change at element boundaries
    let mut starts: Vec<(usize, ObjId)> = vec![];
    for i in 0..len {
        let g = match heads {
            None => d.get(obj, i),
            Some(h) => d.get_at(obj, i, h),
        }
        .map_err(|e| Failure::new(format!("{prop}:get-error"), format!("get(text, {i}) with length {len}: {e}")))?;
        let Some((_, id)) = g else { return Err(Failure::new(format!("{prop}:get-none-inside-length"), format!("get(text, {i}) is None but length is {len}"))) };
        if starts.last().map(|(_, l)| l != &id).unwrap_or(true) {
            starts.push((i, id));
        }
    }
    if len != w {
        // known limitation: under GraphemeCluster the length is the sum of per-element cluster counts; when a
        // cluster spans two elements (e.g. "e" and U+0301 inserted by separate splices) the sum exceeds the
        // cluster count of the whole string
        let mut per_elem = 0usize;
        let mut pieces = vec![];
        for (i, (s, _)) in starts.iter().enumerate() {
            let e = starts.get(i + 1).map(|x| x.0).unwrap_or(len);
            per_elem += e - s;
            pieces.push(e - s);
        }
        if enc == TextEncoding::GraphemeCluster && per_elem == len && w < len {
            return Err(Failure::new(format!("{prop}:length-vs-width:GraphemeCluster:cluster-spans-elements"), format!("length {len} but the string {:?} has {w} grapheme clusters (a cluster spans several elements)", text)));
        }
        return Err(Failure::new(format!("{prop}:length-vs-width:{:?}", enc), format!("length() = {len} but width of text() {:?} in {:?} is {w}", text, enc)));
    }
    // spans concatenate to the text
    let spans: Vec<Span> = match heads {
        None => d.spans(obj).map(|s| s.collect()),
        Some(h) => d.spans_at(obj, h).map(|s| s.collect()),
    }
    .map_err(|e| Failure::new(format!("{prop}:spans-error"), e.to_string()))?;
    let mut cat = String::new();
    for s in &spans {
        match s {
            Span::Text { text, .. } => cat.push_str(text),
            Span::Block(_) => cat.push('\u{fffc}'),
        }
    }
    ensure!(cat == text, format!("{prop}:spans-concat-vs-text"), "concatenated spans {:?} != text() {:?}", cat, text);
    // element offsets follow the widths of the element strings; cursors round-trip at every boundary
    let mut byte = 0usize;
    for (i, (s, id)) in starts.iter().enumerate() {
        let e = starts.get(i + 1).map(|x| x.0).unwrap_or(len);
        // string of this element = the next (e - s) units of the text
        let rest = &text[byte..];
        let mut take = 0usize;
        let mut units = 0usize;
        // longest prefix of the remaining text whose width is the element's width
        for (bi, c) in rest.char_indices() {
            let end = bi + c.len_utf8();
            let wd = width(enc, &rest[..end]);
            if wd > e - s {
                break;
            }
            take = end;
            units = wd;
        }
        ensure!(units == e - s, format!("{prop}:element-offset-not-on-character-boundary"), "element {i} of {:?} spans units {s}..{e}, which does not fall on a character boundary of the text", text);
        byte += take;
        let all = match heads {
            None => d.get_all(obj, *s),
            Some(h) => d.get_all_at(obj, *s, h),
        }
        .map_err(|e| Failure::new(format!("{prop}:get_all-error"), e.to_string()))?;
        ensure!(all.last().map(|(_, i2)| i2 == id).unwrap_or(false), format!("{prop}:get-vs-get_all-at-boundary"), "get(text,{s}) and get_all(text,{s}) disagree on the element");
        let c = d.get_cursor(obj, *s, heads).map_err(|e| Failure::new(format!("{prop}:get_cursor-error"), format!("get_cursor({s}) of {len}: {e}")))?;
        let p = d.get_cursor_position(obj, &c, heads).map_err(|e| Failure::new(format!("{prop}:get_cursor_position-error"), e.to_string()))?;
        ensure!(p == *s, format!("{prop}:cursor-roundtrip"), "get_cursor_position(get_cursor({s})) = {p} in {:?} (text {:?})", enc, text);
        t.extra_evals += 1;
    }
    ensure!(byte == text.len() || starts.is_empty(), format!("{prop}:elements-do-not-cover-text"), "elements cover {byte} of {} bytes of {:?}", text.len(), text);
    // marks(), get_marks(i) and spans() report the same marking at element starts
    let ms = match heads {
        None => d.marks(obj),
        Some(h) => d.marks_at(obj, h),
    }
    .map_err(|e| Failure::new(format!("{prop}:marks-error"), e.to_string()))?;
    for m in &ms {
        ensure!(m.start < m.end && m.end <= len, format!("{prop}:mark-range-out-of-text"), "marks() reports {}..{} on a text of length {len}", m.start, m.end);
        ensure!(starts.iter().any(|(s, _)| *s == m.start) && (m.end == len || starts.iter().any(|(s, _)| *s == m.end)), format!("{prop}:mark-range-not-on-element-boundary"), "mark {}..{} of {:?} does not lie on element boundaries", m.start, m.end, text);
    }
    // spans' mark sets per unit position
    let mut pos = 0usize;
    let mut span_marks: Vec<BTreeMap<String, String>> = vec![];
    for s in &spans {
        match s {
            Span::Text { text, marks } => {
                let mm: BTreeMap<String, String> = marks.as_ref().map(|ms| ms.iter().map(|(n, v)| (n.to_string(), render_scalar(v))).filter(|(_, v)| v != "Null").collect()).unwrap_or_default();
                for _ in 0..width(enc, text) {
                    span_marks.push(mm.clone());
                }
                pos += width(enc, text);
            }
            Span::Block(_) => {
                for _ in 0..width(enc, "\u{fffc}") {
                    span_marks.push(BTreeMap::new());
                }
                pos += width(enc, "\u{fffc}");
            }
        }
    }
    let _ = pos;
    for (s, _) in &starts {
        let from_marks: BTreeMap<String, String> = ms.iter().filter(|m| m.start <= *s && *s < m.end).map(|m| (m.name().to_string(), render_scalar(m.value()))).collect();
        let gm = d.get_marks(obj, *s, heads).map_err(|e| Failure::new(format!("{prop}:get_marks-error"), e.to_string()))?;
        let from_get: BTreeMap<String, String> = gm.iter().map(|(n, v)| (n.to_string(), render_scalar(v))).filter(|(_, v)| v != "Null").collect();
        ensure!(from_marks == from_get, format!("{prop}:get_marks-vs-marks"), "position {s} of {:?}: get_marks = {:?}, marks() = {:?}", text, from_get, from_marks);
        // block markers carry no marks in spans(); compare text positions only
        let is_block = spans_block_at(&spans, *s, enc);
        if !is_block {
            let sp = span_marks.get(*s).cloned().unwrap_or_default();
            ensure!(sp == from_marks, format!("{prop}:spans-vs-marks"), "position {s} of {:?}: spans() carries {:?}, marks() = {:?}", text, sp, from_marks);
        }
    }
    if text.chars().any(|c| width(enc, &c.to_string()) > 1) || (enc == TextEncoding::GraphemeCluster && text.graphemes(true).any(|g| g.chars().count() > 1)) {
        t.class("multi_unit_element");
    }
    Ok(())
}

fn spans_block_at(spans: &[Span], unit: usize, enc: TextEncoding) -> bool {
    let mut pos = 0;
    for s in spans {
        let w = match s {
            Span::Text { text, .. } => width(enc, text),
            Span::Block(_) => width(enc, "\u{fffc}"),
        };
        if unit < pos + w {
            return matches!(s, Span::Block(_));
        }
        pos += w;
    }
    false
}

pub fn check_c24(p: &Program, t: &mut Tally) -> CaseResult {
    let mut opts = default_opts();
    opts.lone_combining = true;
    let mut it = Interp::new(p, opts);
    let enc = it.enc;
    let mut merged_edit = false;
    let mut multi = false;
    for (i, s) in p.steps.iter().enumerate() {
        let out = catch(&format!("step {i} {}", s.describe()), || it.step(s))?;
        if !out.applied {
            continue;
        }
        if matches!(s.k, MERGE | APPLY | SYNC | LOAD_INC) {
            merged_edit = true;
        }
        let r = out.rep;
        for obj in text_objects(&it.reps[r].doc, &it.objs) {
            let before = t.classes.len();
            check_text(&it.reps[r].doc, &obj, None, enc, t, "C24").map_err(|f| Failure::new(f.sig, format!("after step {i} {}: {}", s.describe(), f.detail)))?;
            if t.classes.len() > before || t.classes.iter().any(|c| c == "multi_unit_element") {
                multi = true;
            }
        }
    }
    // historical variants on the final documents
    for r in 0..it.reps.len() {
        it.commit(r);
        let d = it.reps[r].doc.document().clone();
        for h in it.heads.clone().iter().rev().take(4) {
            if h.iter().all(|x| d.get_change_by_hash(x).is_some()) {
                for obj in text_objects(&d, &it.objs) {
                    if d.object_type(&obj).is_ok() {
                        check_text(&d, &obj, Some(h), enc, t, "C24").map_err(|f| Failure::new(f.sig.replace("C24:", "C24:at-heads:"), format!("at heads {:?}: {}", h, f.detail)))?;
                    }
                }
            }
        }
    }
    t.class(format!("{:?}", enc));
    if multi && merged_edit {
        t.nontrivial();
        t.sample = Some(p.describe());
    }
    Ok(())
}

// ------------------------------------------------------------------------------------------------ C25

fn marks_of(n: &ONode, path: &str, out: &mut Vec<(String, String, Vec<BTreeMap<String, String>>)>) {
    match n {
        ONode::Map(m) => {
            for (k, r) in m {
                for (id, v) in r {
                    if let OVal::Obj(c) = v {
                        marks_of(c, &format!("{path}/{k}@{}", id.0), out);
                    }
                }
            }
        }
        ONode::List(l) => {
            for (i, r) in l.iter().enumerate() {
                for (id, v) in r {
                    if let OVal::Obj(c) = v {
                        marks_of(c, &format!("{path}[{i}]@{}", id.0), out);
                    }
                }
            }
        }
        ONode::Text(t) => out.push((path.to_string(), t.text.clone(), t.marks.clone())),
    }
}

fn compare_marks(doc: &Automerge, heads: Option<&[ChangeHash]>, what: &str, t: &mut Tally) -> Result<bool, Failure> {
    let changes = catch("get_changes", || doc.get_changes(&[]))?;
    let rd = RefDoc::new(&changes, doc.text_encoding());
    let reference = rd.observe(heads);
    let got = catch("observe", || observe(doc, heads))?;
    let (mut a, mut b) = (vec![], vec![]);
    marks_of(&reference, "", &mut a);
    marks_of(&got, "", &mut b);
    ensure!(a.len() == b.len(), "C25:text-objects-differ", "{what}: {} vs {} text objects", a.len(), b.len());
    let mut overlapping = false;
    for ((pa, ta, ma), (pb, tb, mb)) in a.iter().zip(b.iter()) {
        ensure!(pa == pb && ta == tb, "C25:text-differs-from-reference", "{what}: text at {pa}: {:?} vs {:?}", ta, tb);
        if ma != mb {
            let i = ma.iter().zip(mb.iter()).position(|(x, y)| x != y).unwrap_or(ma.len().min(mb.len()));
            return Err(Failure::new("C25:marks-vs-reference", format!("{what}: text {:?} position {i}: Peritext reading (highest-id covering mark per name, null = unmarked) gives {:?}, marks() gives {:?}", ta, ma.get(i), mb.get(i))));
        }
        t.extra_evals += 1;
    }
    // overlapping marks of one name with different values (non-triviality)
    for c in &changes {
        let _ = c;
    }
    let mut by_name: BTreeMap<(String, String), Vec<String>> = BTreeMap::new();
    for o in &rd.ops {
        if let automerge::legacy::OpType::MarkBegin(md) = &o.action {
            by_name.entry((format!("{:?}", o.obj), md.name.to_string())).or_default().push(render_scalar(&md.value));
        }
    }
    for v in by_name.values() {
        let mut u = v.clone();
        u.sort();
        u.dedup();
        if u.len() >= 2 {
            overlapping = true;
        }
    }
    Ok(overlapping)
}

type Case25 = (Program, Vec<(u16, u16, u16, u8, u8)>);

pub fn check_c25(case: &Case25, t: &mut Tally) -> CaseResult {
    let (p, probes) = case;
    let mut it = run_program(p, default_opts())?;
    let enc = it.enc;
    let mut overlapping = false;
    // every replica, the merged document, its reload and historical heads agree with the Peritext reading
    let mut merged = fresh(enc);
    for r in 0..it.reps.len() {
        let d = it.reps[r].doc.document().clone();
        overlapping |= compare_marks(&d, None, &format!("replica {r}"), t)?;
        for obj in text_objects(&d, &it.objs) {
            check_text(&d, &obj, None, enc, t, "C25")?;
        }
        let mut o = d.clone();
        catch("merge", || merged.merge(&mut o))?.map_err(|e| Failure::new("C25:merge:error", e.to_string()))?;
    }
    overlapping |= compare_marks(&merged, None, "merged", t)?;
    let reloaded = catch("load", || Automerge::load_with_options(&merged.save(), load_opts(enc)))?.map_err(|e| Failure::new("C25:load:error", e.to_string()))?;
    compare_marks(&reloaded, None, "reloaded", t)?;
    for h in it.heads.clone().iter().rev().take(4) {
        if h.iter().all(|x| merged.get_change_by_hash(x).is_some()) {
            compare_marks(&merged, Some(h), "at heads", t)?;
            t.class("historical");
        }
    }
    // boundary metamorphic check: insert at a position where exactly one mark boundary lies
    let mut boundary = false;
    let mut doc = AutoCommit::load_with_options(&merged.save(), load_opts(enc)).map_err(|e| Failure::new("C25:load:error", e.to_string()))?.with_actor(automerge::ActorId::from(vec![0xB0u8, 0x0b]));
    for (pi, (a, b, c, ex, kind)) in probes.iter().enumerate() {
        let texts = text_objects(&doc, &it.objs);
        if texts.is_empty() {
            break;
        }
        let obj = texts[sel(*a, texts.len())].clone();
        let bd = bounds(&doc, &obj);
        if bd.len() < 3 {
            let _ = doc.splice_text(&obj, 0, 0, "abcd");
            continue;
        }
        // fresh mark with a unique name over [s, e) strictly inside the text, with a generated expand flag
        let i = 1 + sel(*b, bd.len() - 2).min(bd.len() - 3);
        let j = (i + 1 + sel(*c, bd.len() - 1 - i).min(bd.len() - 2 - i)).min(bd.len() - 2);
        if j <= i {
            continue;
        }
        let (s, e) = (bd[i], bd[j]);
        let expand = crate::engine::interp::expand_of(*ex as usize);
        let name = format!("probe{pi}");
        if catch("mark", || doc.mark(&obj, Mark::new(name.clone(), true, s, e), expand))?.is_err() {
            continue;
        }
        // no other mark boundary of any name may coincide with the probed position (order-dependent by design)
        let others = doc.marks(&obj).unwrap_or_default();
        let at_start = kind % 2 == 0;
        let posn = if at_start { s } else { e };
        if others.iter().any(|m| m.name() != name && (m.start == posn || m.end == posn)) {
            continue;
        }
        // zero-width elements at the boundary make "the boundary" ambiguous: skip when neighbours are empty strings
        catch("splice_text at boundary", || doc.splice_text(&obj, posn, 0, "Z"))?.map_err(|e| Failure::new("C25:boundary:splice-error", e.to_string()))?;
        let after = doc.marks(&obj).map_err(|e| Failure::new("C25:marks-error", e.to_string()))?;
        if std::env::var("VERIF_DEBUG").is_ok() {
            eprintln!("probe {name} {s}..{e} {:?} at_start={at_start} posn={posn}: text {:?}\n   marks before insert {:?}\n   marks after {:?}", expand, doc.text(&obj), others, after);
            let mut dd = doc.clone();
            for c in dd.get_changes(&[]) { for (k, o) in c.decode().operations.iter().enumerate() { eprintln!("      {}@{} {:?} key={:?} insert={}", c.start_op().get() + k as u64, c.actor_id(), o.action, o.key, o.insert); } }
        }
        let covered = after.iter().any(|m| m.name() == name && m.start <= posn && posn < m.end);
        let want = if at_start { expand.before() } else { expand.after() };
        ensure!(covered == want, "C25:expand-boundary", "mark {name} over {s}..{e} with expand {:?}: text inserted at its {} is {}covered, expected {}covered", expand, if at_start { "start" } else { "end" }, if covered { "" } else { "not " }, if want { "" } else { "not " });
        boundary = true;
        t.class(format!("boundary_{:?}_{}", expand, if at_start { "start" } else { "end" }));
        t.extra_evals += 1;
    }
    let _ = encoding(0);
    if overlapping {
        t.class("overlapping_marks_different_values");
    }
    if overlapping && boundary {
        t.nontrivial();
        t.sample = Some(p.describe());
    }
    let _ = exid(&automerge::ROOT);
    Ok(())
}

pub fn property_c24(_ctx: &Ctx) -> Property {
    Property {
        id: "C24",
        level: "exploration",
        rule: "proptest-generated text-heavy multi-replica programs under each of the four encodings with a fragment table of multi-unit strings (precomposed and combining accents, astral emoji, ZWJ sequences, flags, CJK, U+FFFC), blocks, puts on text elements, marks, merges. After EVERY applied step, for every text object of the acting replica (and at up to 4 recorded heads at the end): length() == width of text() in the encoding; concatenated spans (blocks as U+FFFC) == text(); element start offsets fall on character boundaries and cover the text; get/get_all agree at every element start; get_cursor_position(get_cursor(i)) == i at every element start; mark ranges lie on element boundaries inside the text; marks(), get_marks(i) and spans() report the same marking at every element start. Non-trivial = a text with an element wider than one unit was checked after a merge/apply/sync; distinct by program. evaluations counts element boundaries checked.",
        assumptions: &["indexes inside a multi-unit character are not asserted", "GraphemeCluster: a cluster spanning several elements is a known finding"],
        subs: vec![
            sub::<Program, _, _>("text", 6000, 150000, |c| program_strategy(TEXT, if c.thorough() { 100 } else { 40 }, 3, 4), check_c24),
            sub::<Program, _, _>("text-conflict", 3000, 80000, |c| program_strategy(TEXT_CONFLICT, if c.thorough() { 100 } else { 40 }, 3, 4), check_c24),
            sub::<Program, _, _>("full", 2000, 60000, |c| program_strategy(FULL, if c.thorough() { 100 } else { 40 }, 3, 4), check_c24),
        ],
    }
}

pub fn property_c25(_ctx: &Ctx) -> Property {
    Property {
        id: "C25",
        level: "exploration",
        rule: "proptest-generated text programs with mark/unmark over overlapping ranges (3 names, all four expand settings, null values), deletions across mark boundaries, merges, save/load. On every replica, the merged document, its reload and up to 4 recorded heads the per-position marking from marks() must equal the Peritext reading of the decoded op set (RefDoc: begin/end anchors in RGA order, per name the covering mark with the greatest id wins, null = unmarked), and marks(), get_marks(i), spans() must agree at every element start. Boundary metamorphic check: a fresh uniquely named mark with a generated expand flag is created strictly inside the text; text inserted exactly at its start/end (where no other mark boundary lies) is covered iff expand.before()/after() says so. Non-trivial = the history has two marks of one name with different values AND a boundary probe ran; distinct by case.",
        assumptions: &["coverage of text inserted where several mark boundaries coincide is order-dependent by design and not asserted"],
        subs: vec![sub::<Case25, _, _>("marks", 4000, 100000, |c| (program_strategy(TEXT, if c.thorough() { 100 } else { 40 }, 3, 4), prop::collection::vec((any::<u16>(), any::<u16>(), any::<u16>(), any::<u8>(), any::<u8>()), 0..6)), check_c25)],
    }
}
