//! C07 Historical reads equal reads of the document as it was.
use super::common::*;
use crate::engine::driver::*;
use crate::engine::interp::load_opts;
use crate::engine::obs::{observe, read_battery};
use crate::engine::program::*;
use crate::ensure;
use automerge::{AutoCommit, ChangeHash};
use proptest::prelude::*;
use std::collections::HashSet;

type Case = (Program, u64);

pub fn check(case: &Case, t: &mut Tally) -> CaseResult {
    let (p, pick) = case;
    let mut it = run_program(p, default_opts())?;
    let enc = it.enc;
    let mut d = fresh(enc);
    for i in 0..it.reps.len() {
        let mut o = it.reps[i].doc.document().clone();
        catch("merge", || d.merge(&mut o))?.map_err(|e| Failure::new("C07:merge:error", e.to_string()))?;
    }
    let (m, g) = all_changes(&mut it)?;
    let full: HashSet<ChangeHash> = hashes(&m);
    let cur = heads_sorted(&d);
    let mut heads: Vec<Vec<ChangeHash>> = it.heads.iter().filter(|h| h.iter().all(|x| full.contains(x))).cloned().collect();
    heads.push(cur.clone());
    heads.push(vec![]);
    let n = heads.len();
    // up to 8 head sets per case, chosen by the generated pick value
    let take: Vec<Vec<ChangeHash>> = (0..n.min(8)).map(|i| heads[(i * 7 + (*pick as usize)) % n].clone()).collect();
    let ac = catch("load as AutoCommit", || AutoCommit::load_with_options(&d.save(), load_opts(enc)))?.map_err(|e| Failure::new("C07:load:error", e.to_string()))?;
    let mut nontrivial = false;
    for h in &take {
        let mut hs = h.clone();
        hs.sort();
        let anc = g.ancestors(h);
        let order: Vec<ChangeHash> = g.topo(&full).into_iter().filter(|x| anc.contains(x)).collect();
        let fprime = apply_in_order(enc, &order, &m)?;
        let want = obs_of(&fprime, None, "F' (fresh doc with ancestors)")?;
        // fork_at
        if !h.is_empty() {
            let f = catch("fork_at", || d.fork_at(h))?.map_err(|e| Failure::new("C07:fork_at:error", format!("fork_at({:?}) failed: {e}", h)))?;
            ensure!(heads_sorted(&f) == hs, "C07:fork_at:heads", "fork_at({:?}) has heads {:?}", hs, heads_sorted(&f));
            expect_same("C07", "fork_at-state", &want, &obs_of(&f, None, "fork_at")?)?;
        }
        // *_at reads on D
        let at = obs_of(&d, Some(h), "D at heads")?;
        expect_same("C07", "reads-at-heads", &want, &at)?;
        let at2 = catch("observe AutoCommit at heads", || observe(&ac, Some(h)))?;
        expect_same("C07", "autocommit-reads-at-heads", &want, &at2)?;
        // extended battery
        let b1 = catch("battery at heads", || read_battery(&d, Some(h), *pick, "C07"))??;
        let b2 = catch("battery on F'", || read_battery(&fprime, None, *pick, "C07"))??;
        if b1.lines != b2.lines {
            let i = b1.lines.iter().zip(b2.lines.iter()).position(|(a, b)| a != b).unwrap_or(b1.lines.len().min(b2.lines.len()));
            let kind = b1.lines.get(i).map(|l| l.split_whitespace().nth(2).unwrap_or("?").split('(').next().unwrap_or("?").to_string()).unwrap_or("len".into());
            return Err(Failure::new(format!("C07:battery:{kind}"), format!("at heads {:?}: D@h gives\n  {:?}\nbut the document as it was gives\n  {:?}", hs, b1.lines.get(i), b2.lines.get(i))));
        }
        t.extra_evals += 1;
        if hs != cur {
            t.class("historical_heads");
            let touched_in: HashSet<String> = anc.iter().flat_map(|x| touched_objects(&m[x])).collect();
            if full.iter().filter(|x| !anc.contains(x)).any(|x| !touched_objects(&m[x]).is_disjoint(&touched_in)) {
                nontrivial = true;
            }
            if h.len() >= 2 {
                t.class("merged_or_concurrent_heads");
            }
        }
    }
    if nontrivial {
        t.nontrivial();
        t.sample = Some(p.describe());
    }
    Ok(())
}

pub fn property(_ctx: &Ctx) -> Property {
    Property {
        id: "C07",
        level: "exploration",
        rule: "proptest-generated multi-replica histories merged into D; for up to 8 recorded head sets per case (branch heads, merged heads, current heads, []): F' = fresh document fed exactly ancestors(h) (harness graph); fork_at(h) must have heads h and observe equal to F'; every *_at read on D (get_at/get_all_at/keys_at/length_at/text_at/marks_at/spans_at via the observation; hydrate, parents_at, map_range_at incl. sub-ranges, list_range_at incl. sub-ranges, values_at, get_marks(i,h), iter_at, cursor creation/resolution at h via the read battery) and through AutoCommit must equal the plain read on F'. Non-trivial = h differs from the current heads and D holds changes outside ancestors(h) touching objects touched inside; distinct by case. evaluations counts head sets compared.",
        assumptions: &["recorded heads are heads that occurred in the history (antichains)"],
        subs: vec![
            sub::<Case, _, _>("history", 3200, 80000, |c| (program_strategy(HISTORY, if c.thorough() { 100 } else { 40 }, if c.thorough() { 5 } else { 3 }, 4), any::<u64>()), check),
            sub::<Case, _, _>("conflict", 2400, 60000, |c| (program_strategy(CONFLICT, if c.thorough() { 100 } else { 40 }, 4, 4), any::<u64>()), check),
            sub::<Case, _, _>("counters", 1600, 40000, |c| (program_strategy(COUNTER, if c.thorough() { 100 } else { 40 }, 4, 4), any::<u64>()), check),
            sub::<Case, _, _>("text", 1600, 40000, |c| (program_strategy(TEXT, if c.thorough() { 100 } else { 40 }, 3, 4), any::<u64>()), check),
        ],
    }
}
