//! C28 Rollback restores the exact prior document.
use super::common::*;
use crate::engine::driver::*;
use crate::engine::graph::Lcg;
use crate::engine::interp::{bounds, Interp, FRAGS};
use crate::engine::program::*;
use crate::ensure;
use automerge::marks::{ExpandMark, Mark};
use automerge::transaction::{CommitOptions, Transactable};
use automerge::{ActorId, Automerge, ObjId, ObjType, ReadDoc, ScalarValue, ROOT};
use proptest::prelude::*;

type Case = (Program, Vec<(u8, u16, u16, u16, i64)>, u64);

/// perform one generated edit (valid or invalid) on any Transactable; returns a class name when an op was added
pub fn edit<T: Transactable + ReadDoc>(tx: &mut T, objs: &[(ObjId, ObjType)], k: u8, a: u16, b: u16, c: u16, n: i64) -> Option<&'static str> {
    let live: Vec<&(ObjId, ObjType)> = objs.iter().filter(|(id, _)| tx.object_type(id).is_ok()).collect();
    let of = |t: &[ObjType], s: u16| -> Option<ObjId> {
        let v: Vec<&&(ObjId, ObjType)> = live.iter().filter(|(_, ty)| t.contains(ty)).collect();
        if v.is_empty() {
            None
        } else {
            Some(v[sel(s, v.len())].0.clone())
        }
    };
    let key = ["a", "b", "c", "k0"][sel(b, 4)];
    let before = tx.pending_ops();
    let class = match k % 14 {
        0 => { let o = of(&[ObjType::Map], a)?; let _ = tx.put(&o, key, n); "put" }
        1 => { let o = of(&[ObjType::Map], a)?; let _ = tx.delete(&o, key); "delete_map" }
        2 => { let o = of(&[ObjType::Map], a)?; let _ = tx.put(&o, key, ScalarValue::counter(n)); "put_counter" }
        3 => { let o = of(&[ObjType::Map], a)?; let _ = tx.increment(&o, key, n); "increment" }
        4 => { let o = of(&[ObjType::Map], a)?; let t = [ObjType::Map, ObjType::List, ObjType::Text][sel(c, 3)]; if let Ok(id) = tx.put_object(&o, key, t) { match t { ObjType::Map => { let _ = tx.put(&id, "x", 1); } ObjType::List => { let _ = tx.insert(&id, 0, 2); } _ => { let _ = tx.splice_text(&id, 0, 0, "hi"); } } } "put_object" }
        5 => { let o = of(&[ObjType::List], a)?; let l = tx.length(&o); let _ = tx.insert(&o, sel(b, l + 1), n); "list_insert" }
        6 => { let o = of(&[ObjType::List], a)?; let l = tx.length(&o); if l == 0 { return None; } let _ = tx.delete(&o, sel(b, l)); "list_delete" }
        7 => { let o = of(&[ObjType::List], a)?; let l = tx.length(&o); if l == 0 { return None; } let _ = tx.put(&o, sel(b, l), "s"); "list_put" }
        8 => { let o = of(&[ObjType::List], a)?; let l = tx.length(&o); let _ = tx.insert_object(&o, sel(b, l + 1), ObjType::Map); "insert_object" }
        9 | 10 => { let o = of(&[ObjType::Text], a)?; let bd = bounds(tx, &o); let i = sel(b, bd.len()); let j = (i + sel(c, 3)).min(bd.len() - 1); let _ = tx.splice_text(&o, bd[i], (bd[j] - bd[i]) as isize, FRAGS[(n.unsigned_abs() as usize) % FRAGS.len()]); "splice_text" }
        11 => { let o = of(&[ObjType::Text], a)?; let bd = bounds(tx, &o); let (mut i, mut j) = (sel(b, bd.len()), sel(c, bd.len())); if i > j { std::mem::swap(&mut i, &mut j); } let _ = tx.mark(&o, Mark::new("bold".into(), n, bd[i], bd[j]), ExpandMark::Both); "mark" }
        12 => { let o = of(&[ObjType::List], a)?; let l = tx.length(&o); let _ = tx.insert(&o, l + 3, n); "invalid_insert" }
        _ => { let o = of(&[ObjType::List], a)?; let l = tx.length(&o); if l == 0 { return None; } let _ = tx.increment(&o, sel(b, l), n); "list_increment" }
    };
    if tx.pending_ops() > before || class == "invalid_insert" {
        Some(class)
    } else {
        None
    }
}

fn follow_up(d: &mut Automerge, objs: &[(ObjId, ObjType)]) -> Result<Vec<u8>, Failure> {
    let mut tx = d.transaction();
    let _ = tx.put(ROOT, "follow", 1);
    if let Some((l, _)) = objs.iter().find(|(id, t)| *t == ObjType::List && tx.object_type(id).is_ok()) {
        let len = tx.length(l);
        let _ = tx.insert(l, len, 7);
    }
    if let Some((x, _)) = objs.iter().find(|(id, t)| *t == ObjType::Text && tx.object_type(id).is_ok()) {
        let len = tx.length(x);
        let _ = tx.splice_text(x, len, 0, "z");
    }
    let _ = tx.put(ROOT, "a", 99);
    tx.commit_with(CommitOptions::default().with_time(0));
    Ok(d.get_last_local_change().map(|c| c.raw_bytes().to_vec()).unwrap_or_default())
}

pub fn check(case: &Case, t: &mut Tally) -> CaseResult {
    let (p, edits, seed) = case;
    let mut rng = Lcg(*seed);
    let mut it = run_program(p, default_opts())?;
    let objs = it.objs.clone();
    let r = rng.below(it.reps.len());
    let mut doc: Automerge = it.reps[r].doc.document().clone();
    // existing actor or a brand-new one (its first change is then rolled back)
    let new_actor = rng.below(3) == 0;
    if new_actor {
        doc.set_actor(ActorId::from(vec![0x42u8, 0x42, rng.below(200) as u8]));
        t.class("new_actor");
    }
    let twin = doc.clone();
    let before = obs_of(&doc, None, "before")?;
    let scoped_heads = if rng.below(4) == 0 && !it.heads.is_empty() {
        let h = it.heads[rng.below(it.heads.len())].clone();
        if h.iter().all(|x| doc.get_change_by_hash(x).is_some()) { Some(h) } else { None }
    } else {
        None
    };
    let mut classes = vec![];
    {
        let mut tx = match &scoped_heads {
            Some(h) => {
                t.class("scoped_transaction_at");
                catch("transaction_at", || doc.transaction_at(automerge::PatchLog::inactive(), h))?.map_err(|e| Failure::new("C28:transaction_at:error", format!("{e:?}")))?
            }
            None => {
                if rng.below(2) == 0 {
                    t.class("with_active_patch_log");
                    catch("transaction_log_patches", || doc.transaction_log_patches(automerge::PatchLog::active()))?.map_err(|e| Failure::new("C28:transaction_log_patches:error", format!("{e:?}")))?
                } else {
                    doc.transaction()
                }
            }
        };
        for (k, a, b, c, n) in edits {
            if let Some(cl) = catch("edit in transaction", || edit(&mut tx, &objs, *k, *a, *b, *c, *n))? {
                classes.push(cl);
            }
        }
        let pending = tx.pending_ops();
        let n = catch("rollback", || tx.rollback())?;
        ensure!(n == pending, "C28:rollback-count", "rollback returned {n} but {pending} ops were pending");
    }
    for c in &classes {
        t.class(format!("op_{c}"));
    }
    // indistinguishable from the untouched twin
    ensure!(heads_sorted(&doc) == heads_sorted(&twin), "C28:heads", "heads changed by a rolled back transaction");
    let after = obs_of(&doc, None, "after rollback")?;
    if let Some((kind, d)) = crate::engine::obs::first_diff(&before, &after) {
        return Err(Failure::new(format!("C28:state:{kind}"), format!("state differs after rollback of {:?}: {d}", classes)));
    }
    for h in it.heads.iter().rev().take(3) {
        if h.iter().all(|x| twin.get_change_by_hash(x).is_some()) {
            let a = obs_of(&twin, Some(h), "twin at heads")?;
            let b = obs_of(&doc, Some(h), "doc at heads")?;
            if let Some((kind, d)) = crate::engine::obs::first_diff(&a, &b) {
                return Err(Failure::new(format!("C28:state-at-heads:{kind}"), format!("historical state differs after rollback of {:?}: {d}", classes)));
            }
        }
    }
    let (s1, s2) = (catch("save", || doc.save())?, twin.save());
    ensure!(s1 == s2, "C28:saved-bytes", "save() differs after rollback of {:?} ({} vs {} bytes)", classes, s1.len(), s2.len());
    let (st1, st2) = (doc.stats(), twin.stats());
    ensure!(st1.num_ops == st2.num_ops && st1.num_changes == st2.num_changes && st1.num_actors == st2.num_actors, "C28:stats", "stats differ after rollback of {:?}: ops {} vs {}, changes {} vs {}, actors {} vs {}", classes, st1.num_ops, st2.num_ops, st1.num_changes, st2.num_changes, st1.num_actors, st2.num_actors);
    // the same follow-up edit produces byte-identical changes
    let mut d1 = doc.clone();
    let mut d2 = twin.clone();
    let c1 = catch("follow-up on rolled back doc", || follow_up(&mut d1, &objs))??;
    let c2 = follow_up(&mut d2, &objs)?;
    ensure!(c1 == c2, "C28:follow-up-change-bytes", "the same edits after the rollback of {:?} give a different change ({} vs {} bytes)", classes, c1.len(), c2.len());
    expect_same("C28", "follow-up-state", &obs_of(&d2, None, "twin")?, &obs_of(&d1, None, "doc")?)?;
    let interesting = classes.iter().any(|c| matches!(*c, "delete_map" | "put" | "list_delete" | "list_put" | "put_object" | "insert_object" | "mark"));
    if classes.len() >= 3 && interesting {
        t.nontrivial();
        t.sample = Some(serde_json::json!({"history": p.describe(), "rolled_back": classes}));
    }
    Ok(())
}

pub fn property(_ctx: &Ctx) -> Property {
    Property {
        id: "C28",
        level: "exploration",
        rule: "proptest-generated multi-actor history, then a manual transaction (plain or transaction_at recorded heads) by an existing or brand-new actor performing 1-12 generated edits (puts, deletes and overwrites of conflicted registers, counters and increments, object creation with content, list insert/delete/put, text splices with multi-unit characters, marks, invalid calls), then rollback. Oracle against a twin cloned before the transaction: equal heads, full observation (current and 3 historical heads), save() bytes, stats; the same follow-up edits + commit produce byte-identical changes and equal state. Non-trivial = >=3 rolled-back ops including an overwrite/delete, object creation or mark; distinct by case.",
        assumptions: &[],
        subs: vec![
            sub::<Case, _, _>("conflict", 6000, 150000, |c| (program_strategy(CONFLICT, if c.thorough() { 80 } else { 30 }, 3, 4), prop::collection::vec((any::<u8>(), any::<u16>(), any::<u16>(), any::<u16>(), -3i64..9), 1..12), any::<u64>()), check),
            sub::<Case, _, _>("text", 3000, 80000, |c| (program_strategy(TEXT, if c.thorough() { 80 } else { 30 }, 3, 4), prop::collection::vec((any::<u8>(), any::<u16>(), any::<u16>(), any::<u16>(), -3i64..9), 1..12), any::<u64>()), check),
        ],
    }
}
