//! C04 Change metadata (seq, start_op, deps) and heads follow causality.
use super::common::*;
use crate::engine::driver::*;
use crate::engine::graph::Graph;
use crate::engine::interp::Interp;
use crate::engine::program::*;
use crate::ensure;
use automerge::{Change, ChangeHash};
use std::collections::{HashMap, HashSet};

/// committed state of a replica without disturbing its open transaction
fn committed(it: &Interp, r: usize) -> Result<(Vec<ChangeHash>, Vec<Change>), Failure> {
    catch("observe committed state", || {
        let mut c = it.reps[r].doc.clone();
        c.rollback();
        let d = c.document();
        let mut h = d.get_heads();
        h.sort();
        (h, d.get_changes(&[]))
    })
}

pub fn check(p: &Program, t: &mut Tally) -> CaseResult {
    let mut it = Interp::new(p, default_opts());
    let mut g = Graph::default();
    let mut all: HashMap<ChangeHash, Change> = HashMap::new();
    let mut applied: Vec<HashSet<ChangeHash>> = vec![];
    for r in 0..it.reps.len() {
        let (_, ch) = committed(&it, r)?;
        for c in &ch {
            g.add(c);
            all.insert(c.hash(), c.clone());
        }
        applied.push(ch.iter().map(|c| c.hash()).collect());
    }
    let mut seen_created = 0usize;
    let mut last_actor: Vec<Vec<u8>> = it.reps.iter().map(|r| r.actor.to_bytes().to_vec()).collect();
    let mut switched: Vec<bool> = vec![false; it.reps.len()];
    let mut nontrivial = false;
    for (i, s) in p.steps.iter().enumerate() {
        let nbefore = it.reps.len();
        catch(&format!("step {i} {}", s.describe()), || it.step(s))?;
        // a FORK may have added or replaced a replica: (re)initialise bookkeeping lazily below
        while applied.len() < it.reps.len() {
            applied.push(HashSet::new());
            last_actor.push(vec![]);
            switched.push(false);
        }
        // newly created changes, in creation order
        let created: Vec<_> = it.created[seen_created..].to_vec();
        seen_created = it.created.len();
        let mut running: HashMap<usize, HashSet<ChangeHash>> = HashMap::new();
        for cr in &created {
            let r = cr.rep;
            let c = catch("get_change_by_hash", || it.reps[r].doc.get_change_by_hash(&cr.hash))?;
            let Some(c) = c else {
                return Err(Failure::new("C04:created-change-not-retrievable", format!("step {i}: change {} just committed is not returned by get_change_by_hash", cr.hash)));
            };
            let run = running.entry(r).or_insert_with(|| if s.k == FORK && r >= nbefore { HashSet::new() } else { applied[r].clone() });
            let actor = c.actor_id().to_bytes().to_vec();
            // 1. next sequence number for the actor
            let max_seq = run.iter().filter(|h| g.nodes[*h].actor == actor).map(|h| g.nodes[h].seq).max().unwrap_or(0);
            ensure!(c.seq() == max_seq + 1, "C04:seq", "step {i} {}: new change has seq {} but actor's max applied seq is {}", s.describe(), c.seq(), max_seq);
            // 2. start_op beyond everything applied
            let max_op = run.iter().map(|h| g.nodes[h].start_op + g.nodes[h].len as u64 - 1).max().unwrap_or(0);
            ensure!(c.start_op().get() > max_op || (g.nodes.values().all(|n| n.len == 0) && c.start_op().get() >= 1),
                "C04:start_op", "step {i} {}: start_op {} but an applied change reaches op counter {}", s.describe(), c.start_op(), max_op);
            // 3. deps
            let mut want: HashSet<ChangeHash> = match &cr.iso_before {
                Some(h) => h.iter().copied().collect(),
                None => g.heads_of(run).into_iter().collect(),
            };
            if cr.iso_before.is_none() && c.seq() > 1 {
                if let Some(prev) = run.iter().find(|h| g.nodes[*h].actor == actor && g.nodes[*h].seq == c.seq() - 1) {
                    want.insert(*prev);
                }
            }
            let got: HashSet<ChangeHash> = c.deps().iter().copied().collect();
            ensure!(got == want && got.len() == c.deps().len(), if cr.iso_before.is_some() { "C04:deps:isolated" } else { "C04:deps" },
                "step {i} {}: deps {:?} but expected {:?} (isolated={})", s.describe(), c.deps(), want, cr.iso_before.is_some());
            if cr.iso_before.is_none() {
                ensure!(actor == cr.actor.to_bytes(), "C04:actor", "step {i}: change made by actor {:?} but document actor is {:?}", c.actor_id(), cr.actor);
            }
            if want.len() >= 2 {
                t.class("commit_on_2plus_heads");
                nontrivial = true;
            }
            if cr.iso_before.is_some() {
                t.class("isolated_commit");
                nontrivial = true;
            }
            if switched[r] {
                t.class("commit_after_actor_switch");
                nontrivial = true;
                switched[r] = false;
            }
            if cr.empty {
                t.class("empty_change");
            }
            g.add(&c);
            all.insert(c.hash(), c.clone());
            run.insert(c.hash());
        }
        // heads invariant on every replica after every step
        for r in 0..it.reps.len() {
            let (h, ch) = committed(&it, r)?;
            for c in &ch {
                if !g.nodes.contains_key(&c.hash()) {
                    g.add(c);
                    all.insert(c.hash(), c.clone());
                }
            }
            let set: HashSet<ChangeHash> = ch.iter().map(|c| c.hash()).collect();
            ensure!(set.len() == ch.len(), "C04:get_changes:duplicates", "step {i}: get_changes(&[]) returned duplicate changes");
            let want = g.heads_of(&set);
            ensure!(h == want, "C04:heads", "step {i} {} replica {r}: heads {:?} but applied changes nobody depends on are {:?}", s.describe(), h, want);
            applied[r] = set;
            let a = it.reps[r].actor.to_bytes().to_vec();
            if last_actor[r] != a {
                if !last_actor[r].is_empty() {
                    switched[r] = true;
                }
                last_actor[r] = a;
            }
            t.extra_evals += 1;
        }
    }
    if nontrivial {
        t.nontrivial();
        t.sample = Some(p.describe());
    }
    Ok(())
}

pub fn property(_ctx: &Ctx) -> Property {
    Property {
        id: "C04",
        level: "exploration",
        rule: "proptest-generated programs mixing commits (with messages/timestamps), empty changes, merges, apply_changes, forks, fork_at, actor switches, save/load, load_incremental, sync and isolate/integrate; an independent graph is built from every change's (hash, actor, seq, start_op, len, deps). Each locally created change is checked for seq = 1 + actor's max applied seq, start_op > every applied op counter, deps = heads it was made on (isolation heads when isolated) plus the actor's previous change when not isolated; after EVERY step, on EVERY replica, committed heads must equal the applied changes nobody depends on. Non-trivial = a commit on >=2 heads, an isolated commit or a commit after an actor switch; distinct by program. evaluations counts per-step replica observations.",
        assumptions: &["committed state is observed on a clone with the open transaction rolled back, so observation does not disturb the program", "empty_change inside isolate() is not exercised (outside the statement)"],
        subs: vec![
            sub::<Program, _, _>("full", 8000, 200000, |c| program_strategy(FULL, if c.thorough() { 100 } else { 40 }, if c.thorough() { 5 } else { 3 }, 4), check),
            sub::<Program, _, _>("history", 4000, 100000, |c| program_strategy(HISTORY, if c.thorough() { 100 } else { 40 }, 4, 4), check),
        ],
    }
}
