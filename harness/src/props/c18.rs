//! C18 Change and bundle encodings round-trip.
use super::common::*;
use crate::engine::driver::*;
use crate::engine::graph::Lcg;
use crate::engine::interp::load_opts;
use crate::engine::program::*;
use crate::ensure;
use automerge::{Automerge, Bundle, Change, ChangeHash, ExpandedChange, ReadDoc};
use proptest::prelude::*;
use std::collections::HashSet;

type Case = (Program, u8, u64);

pub fn check(case: &Case, t: &mut Tally) -> CaseResult {
    let (p0, bulk, seed) = case;
    let mut p = p0.clone();
    if *bulk > 0 {
        // long transactions so that some changes exceed the 256-byte compression threshold
        let mut pre = vec![];
        for i in 0..(*bulk as u16 * 12) {
            pre.push(Step { k: SPLICE_TEXT, r: 0, a: 0, b: i.wrapping_mul(7919), c: 0, d: 61000, n: 1 });
            pre.push(Step { k: PUT, r: 0, a: 0, b: i.wrapping_mul(4099), c: 20000, d: 64000, n: i as i64 });
            if i % 12 == 11 {
                pre.push(Step { k: COMMIT, r: 0, a: 1, b: i, c: 0, d: 0, n: i as i64 });
            }
        }
        pre.extend(p.steps);
        p.steps = pre;
    }
    let mut it = run_program(&p, default_opts())?;
    let enc = it.enc;
    let (m, g) = all_changes(&mut it)?;
    let mut rng = Lcg(*seed);
    let mut nontrivial = false;
    for c in m.values() {
        let raw = c.raw_bytes().to_vec();
        let a = catch("Change::from_bytes(raw)", || Change::from_bytes(raw.clone()))?.map_err(|e| Failure::new("C18:from_bytes(raw):error", e.to_string()))?;
        ensure!(a.hash() == c.hash() && a.raw_bytes() == c.raw_bytes() && a == *c, "C18:from_bytes(raw):not-equal", "from_bytes(raw_bytes) gives a different change");
        let mut c2 = c.clone();
        let comp = catch("Change::bytes", || c2.bytes().to_vec())?;
        if comp != raw {
            t.class("compressed_change");
            nontrivial = true;
        }
        let b = catch("Change::from_bytes(compressed)", || Change::from_bytes(comp.clone()))?.map_err(|e| Failure::new("C18:from_bytes(compressed):error", e.to_string()))?;
        // (Change's == also compares the cached compressed form, so compare with the instance that produced it)
        ensure!(b.hash() == c.hash() && b.raw_bytes() == c.raw_bytes() && b.decode() == c.decode() && (comp == raw || b == c2), "C18:from_bytes(compressed):not-equal", "from_bytes(bytes()) gives a different change (hash {} vs {})", b.hash(), c.hash());
        // expand and re-encode
        let e: ExpandedChange = catch("decode", || c.decode())?;
        let re = catch("Change::from(ExpandedChange)", || Change::from(e.clone()))?;
        ensure!(re.hash() == c.hash(), "C18:re-encode:hash", "Change::from(c.decode()) has hash {} instead of {}", re.hash(), c.hash());
        ensure!(re.raw_bytes() == c.raw_bytes(), "C18:re-encode:bytes", "Change::from(c.decode()) has different bytes");
        // a hand-modified expanded change inside the documented ranges survives encode -> bytes -> decode
        let mut e2 = e.clone();
        e2.hash = None;
        e2.time = (rng.next() % 4_000_000_000) as i64 - 1000;
        // (an empty message and no message have the same encoding, so only non-empty messages are generated)
        e2.message = match rng.below(3) { 0 => None, 1 => Some("m".to_string()), _ => Some(format!("msg \u{1F600} {}", rng.below(1000))) };
        e2.extra_bytes = (0..rng.below(5)).map(|i| i as u8).collect();
        let enc2 = catch("Change::from(modified)", || Change::from(e2.clone()))?;
        let back = catch("from_bytes(modified)", || Change::from_bytes(enc2.raw_bytes().to_vec()))?.map_err(|e| Failure::new("C18:expanded:from_bytes-error", e.to_string()))?;
        let mut d2 = catch("decode(modified)", || back.decode())?;
        d2.hash = None;
        ensure!(d2 == e2, "C18:expanded:roundtrip", "decode(from_bytes(encode(e))) != e: message {:?} vs {:?}, time {} vs {}, extra {:?} vs {:?}, ops equal: {}", d2.message, e2.message, d2.time, e2.time, d2.extra_bytes, e2.extra_bytes, d2.operations == e2.operations);
        t.extra_evals += 1;
    }
    // bundles
    let mut holder = fresh(enc);
    let full: HashSet<ChangeHash> = hashes(&m);
    let topo = g.topo(&full);
    let all: Vec<Change> = topo.iter().map(|h| m[h].clone()).collect();
    catch("apply", || holder.apply_changes(all.clone()))?.map_err(|e| Failure::new("C18:apply:error", e.to_string()))?;
    if topo.len() >= 2 {
        // (1) arbitrary (non-contiguous) subset: byte-identical changes back
        let subset: Vec<ChangeHash> = topo.iter().filter(|_| rng.below(2) == 0).copied().collect();
        if !subset.is_empty() {
            let bundle = catch("bundle(subset)", || holder.bundle(subset.iter().copied()))?.map_err(|e| Failure::new("C18:bundle:error", e.to_string()))?;
            let mut want: Vec<Vec<u8>> = subset.iter().map(|h| m[h].raw_bytes().to_vec()).collect();
            want.sort();
            for (what, chs) in [("to_changes", catch("to_changes", || bundle.to_changes())?), ("try_from(bytes).to_changes", {
                let bytes = bundle.bytes().to_vec();
                let b2 = catch("Bundle::try_from", || Bundle::try_from(bytes.as_slice()).map(|b| b.to_changes()))?.map_err(|e| Failure::new("C18:bundle:decode-error", format!("{e:?}")))?;
                b2
            })] {
                let chs = chs.map_err(|e| Failure::new("C18:bundle:to_changes-error", format!("{what}: {e}")))?;
                let mut got: Vec<Vec<u8>> = chs.iter().map(|c| c.raw_bytes().to_vec()).collect();
                got.sort();
                ensure!(got == want, "C18:bundle:changes-differ", "{what}: bundle of {} changes gives back {} changes / different bytes", want.len(), got.len());
            }
            let actors: HashSet<_> = subset.iter().map(|h| m[h].actor_id().clone()).collect();
            let contiguous = { let idx: Vec<usize> = subset.iter().map(|h| topo.iter().position(|x| x == h).unwrap()).collect(); idx.windows(2).all(|w| w[1] == w[0] + 1) };
            if actors.len() >= 2 && !contiguous {
                t.class("non_contiguous_multi_actor_bundle");
                nontrivial = true;
            }
            t.extra_evals += 1;
        }
        // (2) X = everything not in ancestors(h): loading the bundle == applying the changes
        let hs: Vec<&Vec<ChangeHash>> = it.heads.iter().filter(|h| h.iter().all(|x| full.contains(x))).collect();
        if !hs.is_empty() {
            let h = hs[rng.below(hs.len())].clone();
            let anc = g.ancestors(&h);
            let base_order: Vec<ChangeHash> = topo.iter().filter(|x| anc.contains(x)).copied().collect();
            let x: Vec<ChangeHash> = topo.iter().filter(|x| !anc.contains(x)).copied().collect();
            if !x.is_empty() {
                let bundle = catch("bundle(X)", || holder.bundle(x.iter().copied()))?.map_err(|e| Failure::new("C18:bundle:error", e.to_string()))?;
                let bytes = bundle.bytes().to_vec();
                let mut d1 = apply_in_order(enc, &base_order, &m)?;
                let mut d2 = d1.clone();
                catch("load_incremental(bundle)", || d1.load_incremental(&bytes))?.map_err(|e| Failure::new("C18:bundle:load_incremental-error", e.to_string()))?;
                catch("apply_changes(X)", || d2.apply_changes(x.iter().map(|h| m[h].clone())))?.map_err(|e| Failure::new("C18:apply:error", e.to_string()))?;
                ensure!(heads_sorted(&d1) == heads_sorted(&d2), "C18:bundle:load-vs-apply:heads", "loading the bundle gives heads {:?}, applying its changes {:?}", heads_sorted(&d1), heads_sorted(&d2));
                expect_same("C18", "bundle-load-vs-apply", &obs_of(&d2, None, "applied")?, &obs_of(&d1, None, "bundle loaded")?)?;
                // a bundle also loads as a document of its own when it is self-contained
                if base_order.is_empty() {
                    let d3 = catch("load(bundle)", || Automerge::load_with_options(&bytes, load_opts(enc)))?.map_err(|e| Failure::new("C18:bundle:load-error", e.to_string()))?;
                    expect_same("C18", "bundle-load", &obs_of(&d2, None, "applied")?, &obs_of(&d3, None, "loaded")?)?;
                }
                t.extra_evals += 1;
                t.class("bundle_load_vs_apply");
            }
        }
    }
    if nontrivial {
        t.nontrivial();
        if *bulk == 0 {
            t.sample = Some(p0.describe());
        }
    }
    Ok(())
}

type BigCase = (u16, u8, u8, u16);

/// Size thresholds inside the encoders: a change of more than 10 000 ops (another op-column encoder is used above
/// that size) and a bundle whose change-metadata columns exceed the 256-byte compression threshold (long messages).
pub fn check_big(case: &BigCase, t: &mut Tally) -> CaseResult {
    use automerge::transaction::{CommitOptions, Transactable};
    let (nops, enc, nchanges, msglen) = case;
    let enc = crate::engine::interp::encoding(*enc);
    let mut d = Automerge::new_with_encoding(enc).with_actor(automerge::ActorId::from(vec![0x18u8, 1]));
    let mut tx = d.transaction();
    let text = tx.put_object(automerge::ROOT, "t", automerge::ObjType::Text).map_err(|e| Failure::new("C18:big:setup", e.to_string()))?;
    let body: String = (0..*nops as usize).map(|i| (b'a' + (i % 23) as u8) as char).collect();
    tx.splice_text(&text, 0, 0, &body).map_err(|e| Failure::new("C18:big:setup", e.to_string()))?;
    tx.commit_with(CommitOptions::default().with_time(7));
    // many small changes with long messages
    for i in 0..*nchanges {
        let mut tx = d.transaction();
        tx.put(automerge::ROOT, "k", i as i64).map_err(|e| Failure::new("C18:big:setup", e.to_string()))?;
        let msg: String = (0..*msglen as usize).map(|j| (b'A' + ((i as usize + j) % 26) as u8) as char).collect();
        tx.commit_with(CommitOptions::default().with_message(msg).with_time(i as i64));
    }
    let changes = d.get_changes(&[]);
    for c in &changes {
        let again = catch("Change::from(decode())", || Change::from(c.decode()))?;
        ensure!(again.hash() == c.hash(), "C18:decode-encode:hash", "a change of {} ops: Change::from(c.decode()) has hash {} instead of {}", c.len(), again.hash(), c.hash());
        ensure!(again.raw_bytes() == c.raw_bytes(), "C18:decode-encode:bytes", "a change of {} ops: Change::from(c.decode()) has different bytes", c.len());
        let parsed = catch("from_bytes", || Change::from_bytes(again.raw_bytes().to_vec()))?;
        ensure!(parsed.is_ok(), "C18:decode-encode:does-not-parse", "the re-encoded change of {} ops does not parse: {:?}", c.len(), parsed.err().map(|e| e.to_string()));
        t.extra_evals += 1;
    }
    let hashes: Vec<ChangeHash> = changes.iter().map(|c| c.hash()).collect();
    let b = catch("bundle", || d.bundle(hashes.iter().copied()))?.map_err(|e| Failure::new("C18:bundle:error", e.to_string()))?;
    let bytes = b.bytes().to_vec();
    let parsed = catch("Bundle::try_from", || Bundle::try_from(&bytes[..]))?;
    let Ok(parsed) = parsed else {
        return Err(Failure::new("C18:bundle:bytes-do-not-parse", format!("the bytes of a bundle of {} changes ({} bytes) do not parse: {:?}", changes.len(), bytes.len(), parsed.err().map(|e| e.to_string()))));
    };
    let back = catch("to_changes", || parsed.to_changes())?.map_err(|e| Failure::new("C18:bundle:to_changes", e.to_string()))?;
    let got: HashSet<ChangeHash> = back.iter().map(|c| c.hash()).collect();
    ensure!(got == hashes.iter().copied().collect::<HashSet<_>>(), "C18:bundle:changes-differ", "bundle bytes decode to different changes");
    let mut fresh_doc = Automerge::new_with_encoding(enc);
    catch("load_incremental(bundle)", || fresh_doc.load_incremental(&bytes))?.map_err(|e| Failure::new("C18:bundle:load_incremental", e.to_string()))?;
    ensure!(heads_sorted(&fresh_doc) == heads_sorted(&d), "C18:bundle:load-heads", "loading the bundle bytes gives other heads");
    t.class(if *nops > 10000 { "change_above_10000_ops" } else { "change_up_to_10000_ops" });
    t.class(if (*nchanges as usize) * (*msglen as usize) >= 256 { "bundle_metadata_above_256_bytes" } else { "bundle_metadata_small" });
    t.nontrivial();
    Ok(())
}

pub fn property(_ctx: &Ctx) -> Property {
    Property {
        id: "C18",
        level: "exploration",
        rule: "every change of proptest-generated histories (with a generated bulk prefix so that some changes exceed the 256-byte DEFLATE threshold; messages, timestamps, many actors, marks, all scalar kinds): from_bytes(raw_bytes) and from_bytes(bytes()) give an equal change with the same hash; Change::from(c.decode()) has the same hash and bytes; the expanded change with generated message/time/extra bytes survives encode -> from_bytes -> decode. Bundles: bundle(X).to_changes() and Bundle::try_from(bytes).to_changes() return byte-identical changes for a generated subset X of the history; for X = everything outside ancestors(recorded heads), load_incremental(bundle bytes) on a document holding the ancestors equals apply_changes(X) (heads and observation). (size-thresholds) a change of 9990..10060 ops and 1..40 changes with 8..60 character messages: the same round trips across the encoder size thresholds (10 000 ops; 256-byte bundle metadata columns). Non-trivial = a compressed change, or a non-contiguous bundle spanning >=2 actors; distinct by case. evaluations counts changes/bundles verified.",
        assumptions: &[],
        subs: vec![
            sub::<Case, _, _>("history", 4000, 100000, |c| (program_strategy(HISTORY, if c.thorough() { 100 } else { 40 }, 4, 4), Just(0u8), any::<u64>()), check),
            sub::<Case, _, _>("bulk", 600, 15000, |c| (program_strategy(HISTORY, if c.thorough() { 60 } else { 25 }, 3, 4), 1u8..4, any::<u64>()), check),
            sub::<BigCase, _, _>("size-thresholds", 32, 400, |_| (9990u16..10060, 0u8..4, 1u8..40, 8u16..60), check_big),
        ],
    }
}
