//! C08 diff between any two heads transforms one state into the other.
use super::common::*;
use crate::engine::driver::*;
use crate::engine::graph::Lcg;
use crate::engine::obs::node;
use crate::engine::program::*;
use crate::engine::view::{self, V};
use automerge::{Automerge, ChangeHash, ObjId, ObjType, ReadDoc};
use proptest::prelude::*;
use std::collections::HashSet;

type Case = (Program, u64);

fn apply_all(v: &mut V, patches: &[automerge::Patch], enc: automerge::TextEncoding, what: &str) -> CaseResult {
    for p in patches {
        view::apply(v, p, enc).map_err(|f| Failure::new(format!("C08:{}", f.sig), format!("{what}: {}\npatches: {:#?}", f.detail, view::describe_patches(patches))))?;
    }
    Ok(())
}

pub fn diff_pairs(d: &Automerge, heads: &[Vec<ChangeHash>], rng: &mut Lcg, pairs: usize, t: &mut Tally, prop: &str) -> Result<bool, Failure> {
    let enc = d.text_encoding();
    let mut nontrivial = false;
    let cur = heads_sorted(d);
    for _ in 0..pairs {
        let h1 = heads[rng.below(heads.len())].clone();
        let h2 = heads[rng.below(heads.len())].clone();
        let o1 = obs_of(d, Some(&h1), "state at h1")?;
        let o2 = obs_of(d, Some(&h2), "state at h2")?;
        let patches = catch("diff", || d.diff(&h1, &h2))?;
        let mut v = view::from_obs(&o1);
        let want = view::from_obs(&o2);
        apply_all(&mut v, &patches, enc, "diff(h1,h2)").map_err(|f| Failure::new(f.sig.replace("C08", prop), f.detail))?;
        if let Some((kind, dd)) = view::first_diff(&want, &v, "") {
            return Err(Failure::new(format!("{prop}:diff:{kind}"), format!("applying diff(h1,h2) to the state at h1 does not give the state at h2 (expected vs view): {dd}\nh1={:?}\nh2={:?}\npatches: {:#?}\nstate@h1 {:?}\nstate@h2 {:?}", h1, h2, view::describe_patches(&patches), o1, o2)));
        }
        // the library's own applier must accept the patches and agree
        let mut hy = catch("hydrate(h1)", || d.hydrate(Some(&h1)))?;
        match catch("hydrate::Value::apply_patches", || hy.apply_patches(enc, patches.clone()))? {
            Ok(()) => {
                let want_h = catch("hydrate(h2)", || d.hydrate(Some(&h2)))?;
                let a = crate::engine::obs::render_hydrate(&hy);
                let b = crate::engine::obs::render_hydrate(&want_h);
                if a != b {
                    return Err(Failure::new(format!("{prop}:hydrate-applier:state"), format!("hydrate(h1).apply_patches(diff) = {a}\n but hydrate(h2) = {b}\npatches: {:#?}", view::describe_patches(&patches))));
                }
            }
            Err(e) => return Err(Failure::new(format!("{prop}:hydrate-applier:error"), format!("hydrate(h1).apply_patches(diff(h1,h2)) failed: {e}\npatches: {:#?}", view::describe_patches(&patches)))),
        }
        t.extra_evals += 1;
        if h1 != h2 && !patches.is_empty() {
            let anc2: HashSet<ChangeHash> = {
                let g = crate::engine::graph::Graph::from_changes(d.get_changes(&[]).iter());
                g.ancestors(&h2)
            };
            let backward = h1.iter().any(|x| !anc2.contains(x));
            let kinds: Vec<&str> = patches
                .iter()
                .map(|p| match &p.action {
                    automerge::PatchAction::Conflict { .. } => "conflict",
                    automerge::PatchAction::Increment { .. } => "increment",
                    automerge::PatchAction::DeleteMap { .. } | automerge::PatchAction::DeleteSeq { .. } => "delete",
                    _ => "other",
                })
                .collect();
            if backward {
                t.class("backward_or_sideways_pair");
            }
            for k in ["conflict", "increment", "delete"] {
                if kinds.contains(&k) {
                    t.class(format!("patch_{k}"));
                }
            }
            if backward || kinds.iter().any(|k| *k != "other") {
                nontrivial = true;
            }
            if h2 == cur {
                t.class("to_current");
            }
        }
    }
    Ok(nontrivial)
}

fn collect_objects(d: &Automerge, heads: &[ChangeHash]) -> Vec<(ObjId, ObjType)> {
    // only objects a materialised view contains: reachable through winning values
    crate::engine::obs::winner_objects(d, Some(heads))
}

pub fn check(case: &Case, t: &mut Tally) -> CaseResult {
    let (p, seed) = case;
    let mut it = run_program(p, default_opts())?;
    let enc = it.enc;
    let mut d = fresh(enc);
    for i in 0..it.reps.len() {
        let mut o = it.reps[i].doc.document().clone();
        catch("merge", || d.merge(&mut o))?.map_err(|e| Failure::new("C08:merge:error", e.to_string()))?;
    }
    let known: HashSet<ChangeHash> = d.get_changes(&[]).iter().map(|c| c.hash()).collect();
    let mut heads: Vec<Vec<ChangeHash>> = it.heads.iter().filter(|h| h.iter().all(|x| known.contains(x))).cloned().collect();
    heads.push(heads_sorted(&d));
    heads.push(vec![]);
    let mut rng = Lcg(*seed);
    let mut nontrivial = diff_pairs(&d, &heads, &mut rng, 8, t, "C08")?;
    let mut ac = automerge::AutoCommit::load_with_options(&d.save(), crate::engine::interp::load_opts(enc)).map_err(|e| Failure::new("C08:load:error", e.to_string()))?;
    // per-object diffs
    for _ in 0..4 {
        let h1 = heads[rng.below(heads.len())].clone();
        let h2 = heads[rng.below(heads.len())].clone();
        // objects alive at both ends
        let objs: Vec<(ObjId, ObjType)> = collect_objects(&d, &h1).into_iter().filter(|(o, _)| collect_objects(&d, &h2).iter().any(|(x, _)| x == o)).collect();
        if objs.is_empty() {
            continue;
        }
        let (obj, ty) = objs[rng.below(objs.len())].clone();
        // AutoCommit answers diffs through a cache: consecutive calls that differ only in `recursive` must each
        // equal the uncached Automerge::diff_obj
        for recursive in [true, false, true] {
            let plain = catch("diff_obj", || d.diff_obj(&obj, &h1, &h2, recursive))?.map_err(|e| Failure::new("C08:diff_obj:error", e.to_string()))?;
            let cached = catch("AutoCommit::diff_obj", || ac.diff_obj(&obj, &h1, &h2, recursive))?.map_err(|e| Failure::new("C08:autocommit-diff_obj:error", e.to_string()))?;
            let (a, b) = (view::describe_patches(&plain), view::describe_patches(&cached));
            if a != b {
                return Err(Failure::new("C08:autocommit-diff_obj:differs-from-automerge", format!("AutoCommit::diff_obj({:?}, recursive={recursive}) after a call with the other flag differs from Automerge::diff_obj:\nautocommit {:#?}\nautomerge {:#?}", crate::engine::obs::exid(&obj), b, a)));
            }
            t.class("autocommit_diff_obj_vs_automerge");
        }
        for recursive in [true, false] {
            let patches = catch("diff_obj", || d.diff_obj(&obj, &h1, &h2, recursive))?.map_err(|e| Failure::new("C08:diff_obj:error", e.to_string()))?;
            let n1 = catch("observe obj at h1", || node(&d, &obj, ty, Some(&h1), 0))?;
            let n2 = catch("observe obj at h2", || node(&d, &obj, ty, Some(&h2), 0))?;
            // rebase patch paths onto the object: strip the path prefix that leads to `obj`
            let mut v = view::from_obs(&n1);
            let want = view::from_obs(&n2);
            let mut rebased = vec![];
            for pch in &patches {
                let pos = pch.path.iter().position(|(o, _)| *o == obj);
                let mut q = pch.clone();
                if pch.obj == obj {
                    q.path = vec![];
                } else if let Some(i) = pos {
                    q.path = pch.path[i..].to_vec();
                } else {
                    return Err(Failure::new("C08:diff_obj:foreign-patch", format!("diff_obj({:?}) returned a patch for an unrelated object: {:?}", obj, pch)));
                }
                rebased.push(q);
            }
            apply_all(&mut v, &rebased, enc, "diff_obj")?;
            let (v, want) = if recursive { (v, want) } else { (shallow(&v), shallow(&want)) };
            if let Some((kind, dd)) = view::first_diff(&want, &v, "") {
                return Err(Failure::new(format!("C08:diff_obj{}:{kind}", if recursive { "" } else { "-shallow" }), format!("diff_obj({:?}, recursive={recursive}) applied to the object at h1 does not give it at h2: {dd}\npatches {:#?}", crate::engine::obs::exid(&obj), view::describe_patches(&patches))));
            }
            t.extra_evals += 1;
            t.class(if recursive { "diff_obj_recursive" } else { "diff_obj_shallow" });
        }
    }
    if nontrivial {
        t.nontrivial();
        t.sample = Some(p.describe());
    }
    nontrivial = false;
    let _ = nontrivial;
    Ok(())
}

/// direct children only: nested containers are reduced to their kind
fn shallow(v: &V) -> V {
    fn kind(v: &V) -> V {
        match v {
            V::Map(_) => V::Map(Default::default()),
            V::List(_) => V::List(vec![]),
            V::Text(_) => V::Text(String::new()),
            x => x.clone(),
        }
    }
    match v {
        V::Map(m) => V::Map(m.iter().map(|(k, (x, c))| (k.clone(), (kind(x), *c))).collect()),
        V::List(l) => V::List(l.iter().map(|(x, c)| (kind(x), *c)).collect()),
        x => x.clone(),
    }
}

pub fn property(_ctx: &Ctx) -> Property {
    Property {
        id: "C08",
        level: "exploration",
        rule: "proptest-generated multi-replica histories merged into D; 8 ordered pairs (h1,h2) per case drawn from all recorded heads plus current heads and [] (forward, backward and sideways): View::from_obs(D@h1).apply(D.diff(h1,h2)) must equal View::from_obs(D@h2) (winners, conflict flags, counter values, list order, text in the document's encoding units) with an independent patch applier; the library's own hydrate(h1).apply_patches(diff) must accept the patches and equal hydrate(h2); 4 diff_obj calls per case on objects alive at both ends, recursive (sub-view) and non-recursive (direct children only, no child patches). Non-trivial = h1 != h2, non-empty patches and the pair is backward/sideways or the patches contain a Conflict, Increment or deletion; distinct by case. evaluations counts pairs.",
        assumptions: &["mark state is not part of the view (Mark patches are accepted and ignored by the independent applier; the hydrate applier must accept them)"],
        subs: vec![
            sub::<Case, _, _>("history", 2400, 60000, |c| (program_strategy(HISTORY, if c.thorough() { 100 } else { 40 }, if c.thorough() { 5 } else { 3 }, 4), any::<u64>()), check),
            sub::<Case, _, _>("conflict", 2400, 60000, |c| (program_strategy(CONFLICT, if c.thorough() { 100 } else { 40 }, 4, 4), any::<u64>()), check),
            sub::<Case, _, _>("counters", 2400, 60000, |c| (program_strategy(COUNTER, if c.thorough() { 100 } else { 40 }, 4, 4), any::<u64>()), check),
            sub::<Case, _, _>("text", 1200, 30000, |c| (program_strategy(TEXT, if c.thorough() { 100 } else { 40 }, 3, 4), any::<u64>()), check),
        ],
    }
}
