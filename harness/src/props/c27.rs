//! C27 Reconciliation and bulk-construction calls reach their target value.
use super::common::*;
use crate::engine::driver::*;
use crate::engine::interp::{load_opts, FRAGS, KEYS};
use crate::engine::obs::{observe, render_scalar};
use crate::engine::program::*;
use crate::ensure;
use automerge::hydrate::Value as H;
use automerge::iter::Span;
use automerge::marks::{ExpandMark, MarkSet, UpdateSpansConfig};
use automerge::transaction::{CommitOptions, Transactable};
use automerge::{ActorId, AutoCommit, Automerge, ObjId, ObjType, ReadDoc, ScalarValue, TextEncoding, ROOT};
use proptest::prelude::*;
use serde::{Deserialize, Serialize};
use std::collections::HashMap;
use std::sync::Arc;

#[derive(Clone, Debug, Serialize, Deserialize)]
pub enum HV {
    Int(i64),
    Str(u8),
    Bool(bool),
    Null,
    F(i32),
    Counter(i64),
    Map(Vec<(u8, HV)>),
    List(Vec<HV>),
    Text(Vec<u8>),
}

fn hv_strategy() -> impl Strategy<Value = HV> {
    let leaf = prop_oneof![
        (-5i64..50).prop_map(HV::Int),
        any::<u8>().prop_map(HV::Str),
        any::<bool>().prop_map(HV::Bool),
        Just(HV::Null),
        (-9i32..9).prop_map(HV::F),
        (0i64..5).prop_map(HV::Counter),
        prop::collection::vec(any::<u8>(), 0..5).prop_map(HV::Text),
    ];
    leaf.prop_recursive(3, 24, 5, |inner| {
        prop_oneof![
            prop::collection::vec((any::<u8>(), inner.clone()), 0..5).prop_map(HV::Map),
            prop::collection::vec(inner, 0..5).prop_map(HV::List),
        ]
    })
}

fn frag(i: u8) -> &'static str {
    FRAGS[(i as usize) % FRAGS.len()]
}

fn to_h(v: &HV, enc: TextEncoding) -> H {
    match v {
        HV::Int(i) => H::scalar(*i),
        HV::Str(s) => H::scalar(frag(*s)),
        HV::Bool(b) => H::scalar(*b),
        HV::Null => H::scalar(ScalarValue::Null),
        HV::F(f) => H::scalar(*f as f64 * 0.25),
        HV::Counter(c) => H::scalar(ScalarValue::counter(*c)),
        HV::Map(m) => {
            let mut hm: HashMap<String, H> = HashMap::new();
            for (k, x) in m {
                hm.insert(KEYS[(*k as usize) % KEYS.len()].to_string(), to_h(x, enc));
            }
            H::Map(hm.into())
        }
        HV::List(l) => H::List(l.iter().map(|x| to_h(x, enc)).collect::<Vec<_>>().into()),
        HV::Text(t) => H::text(enc, &t.iter().map(|i| frag(*i)).collect::<String>()),
    }
}

/// rendering without conflict markers (sorted keys)
fn plain(v: &H) -> String {
    match v {
        H::Scalar(s) => render_scalar(s),
        H::Map(m) => {
            let mut e: Vec<(String, String)> = m.iter().map(|(k, mv)| (k.clone(), plain(&mv.value))).collect();
            e.sort();
            format!("{{{}}}", e.iter().map(|(k, v)| format!("{k:?}: {v}")).collect::<Vec<_>>().join(", "))
        }
        H::List(l) => format!("[{}]", l.iter().map(|lv| plain(&lv.value)).collect::<Vec<_>>().join(", ")),
        H::Text(t) => format!("Text({:?})", t.to_string()),
    }
}

/// call-by-call construction of a hydrate value
fn build<T: Transactable>(tx: &mut T, parent: &ObjId, prop: automerge::Prop, v: &H, insert: bool) -> Result<(), automerge::AutomergeError> {
    let make = |tx: &mut T, t: ObjType| -> Result<ObjId, automerge::AutomergeError> {
        match (&prop, insert) {
            (automerge::Prop::Seq(i), true) => tx.insert_object(parent, *i, t),
            _ => tx.put_object(parent, prop.clone(), t),
        }
    };
    match v {
        H::Scalar(s) => match (&prop, insert) {
            (automerge::Prop::Seq(i), true) => tx.insert(parent, *i, s.clone()),
            _ => tx.put(parent, prop.clone(), s.clone()),
        },
        H::Map(m) => {
            let id = make(tx, ObjType::Map)?;
            let mut keys: Vec<&String> = m.iter().map(|x| x.0).collect();
            keys.sort();
            for k in keys {
                build(tx, &id, automerge::Prop::Map(k.clone()), m.get(k).unwrap(), false)?;
            }
            Ok(())
        }
        H::List(l) => {
            let id = make(tx, ObjType::List)?;
            for (i, lv) in l.iter().enumerate() {
                build(tx, &id, automerge::Prop::Seq(i), &lv.value, true)?;
            }
            Ok(())
        }
        H::Text(t) => {
            let id = make(tx, ObjType::Text)?;
            tx.splice_text(&id, 0, 0, &t.to_string())
        }
    }
}

/// does the text hold an element whose string has several characters (a string put onto a text element)?
fn has_multi_char_element(d: &AutoCommit, obj: &ObjId) -> bool {
    crate::engine::interp::bounds(d, obj).iter().any(|i| matches!(d.get(obj, *i), Ok(Some((automerge::Value::Scalar(s), _))) if matches!(s.as_ref(), ScalarValue::Str(x) if x.chars().count() != 1)))
}

#[derive(Clone, Debug, Serialize, Deserialize)]
pub struct SpanSpec {
    block: bool,
    frags: Vec<u8>,
    marks: Vec<(u8, i8)>,
    block_val: u8,
}

type Case = (Program, HV, Vec<SpanSpec>, u16, u8);

pub fn check(case: &Case, t: &mut Tally) -> CaseResult {
    let (p, target, spans, pick, mode) = case;
    let mut it = run_program(p, default_opts())?;
    let enc = it.enc;
    for r in 1..it.reps.len() {
        let mut other = it.reps[r].doc.clone();
        catch("merge", || it.reps[0].doc.merge(&mut other))?.map_err(|e| Failure::new("C27:merge:error", e.to_string()))?;
    }
    let objs = it.objs.clone();
    let doc = &mut it.reps[0].doc;
    let live = |d: &AutoCommit, ty: ObjType| -> Vec<ObjId> { objs.iter().filter(|(id, _)| d.object_type(id).ok() == Some(ty)).map(|x| x.0.clone()).collect() };
    let hv = to_h(target, enc);
    match mode % 6 {
        0 => {
            // update_text
            let texts = live(doc, ObjType::Text);
            if texts.is_empty() { return Ok(()) }
            let obj = texts[sel(*pick, texts.len())].clone();
            let before = doc.text(&obj).unwrap_or_default();
            let multi = has_multi_char_element(doc, &obj);
            let want: String = match target { HV::Text(f) => f.iter().map(|i| frag(*i)).collect(), HV::Str(s) => frag(*s).to_string(), _ => format!("{}x", before.chars().rev().take(3).collect::<String>()) };
            catch("update_text", || doc.update_text(&obj, &want))?.map_err(|e| Failure::new(if multi { "C27:update_text:result-differs:text-with-multi-character-elements" } else { "C27:update_text:error" }, e.to_string()))?;
            let got = doc.text(&obj).map_err(|e| Failure::new("C27:update_text:text-error", e.to_string()))?;
            if got != want {
                let blocks = before.contains('\u{fffc}') || got.contains('\u{fffc}');
                return Err(Failure::new(if multi { "C27:update_text:result-differs:text-with-multi-character-elements" } else if blocks { "C27:update_text:result-differs:text-with-embedded-objects" } else { "C27:update_text:result-differs" }, format!("update_text({:?}) on {:?} ({:?}) gives {:?}", want, before, enc, got)));
            }
            t.class("update_text");
            if !before.is_empty() && before != want && !want.is_empty() { t.nontrivial(); }
        }
        1 => {
            // update_object on an existing map or list
            let (ty, v) = match &hv { H::Map(_) => (ObjType::Map, hv.clone()), H::List(_) => (ObjType::List, hv.clone()), other => (ObjType::List, H::List(vec![other.clone()].into())) };
            let mut cands = live(doc, ty);
            if ty == ObjType::Map { cands.insert(0, ROOT); }
            if cands.is_empty() { return Ok(()) }
            let obj = cands[sel(*pick, cands.len())].clone();
            let before = ReadDoc::hydrate(doc, &obj, None).map(|x| plain(&x)).unwrap_or_default();
            catch("update_object", || doc.update_object(&obj, &v))?.map_err(|e| Failure::new("C27:update_object:error", e.to_string()))?;
            let got = ReadDoc::hydrate(doc, &obj, None).map_err(|e| Failure::new("C27:hydrate-error", e.to_string()))?;
            if plain(&got) != plain(&v) {
                let shrink = matches!((&got, &v), (H::List(a), H::List(b)) if a.len() != b.len()) || before.matches(',').count() > plain(&v).matches(',').count();
                return Err(Failure::new(if ty == ObjType::List { "C27:update_object:list-result-differs" } else { "C27:update_object:map-result-differs" }, format!("update_object on {} with target {} gives {} (shrinking={shrink})", before, plain(&v), plain(&got))));
            }
            t.class(if ty == ObjType::Map { "update_object_map" } else { "update_object_list" });
            if before.len() > 2 && before != plain(&v) { t.nontrivial(); }
        }
        2 | 3 => {
            // batch_create_object into a map key or a list position, vs call-by-call construction
            let into_list = mode % 6 == 3;
            let cands = if into_list { live(doc, ObjType::List) } else { let mut c = live(doc, ObjType::Map); c.insert(0, ROOT); c };
            if cands.is_empty() || hv.is_scalar() { return Ok(()) }
            let obj = cands[sel(*pick, cands.len())].clone();
            let mut twin = doc.clone();
            let (prop, insert): (automerge::Prop, bool) = if into_list { let l = doc.length(&obj); (automerge::Prop::Seq(sel(pick.rotate_left(5), l + 1)), true) } else { (automerge::Prop::Map("bulk".into()), false) };
            let id = catch("batch_create_object", || doc.batch_create_object(&obj, prop.clone(), &hv, insert))?.map_err(|e| Failure::new("C27:batch_create_object:error", e.to_string()))?;
            let got = ReadDoc::hydrate(doc, &id, None).map_err(|e| Failure::new("C27:hydrate-error", e.to_string()))?;
            ensure!(plain(&got) == plain(&hv), "C27:batch_create_object:value-differs", "batch_create_object({}) reads back as {}", plain(&hv), plain(&got));
            catch("call-by-call construction", || build(&mut twin, &obj, prop.clone(), &hv, insert))?.map_err(|e| Failure::new("C27:call-by-call:error", e.to_string()))?;
            let a = catch("observe", || observe(doc, None))?.strip_ids();
            let b = catch("observe", || observe(&twin, None))?.strip_ids();
            expect_same("C27", "batch-vs-call-by-call", &b, &a)?;
            doc.commit_with(CommitOptions::default().with_time(0));
            let l = catch("load", || Automerge::load_with_options(&doc.save(), load_opts(enc)))?.map_err(|e| Failure::new("C27:batch:reload-error", e.to_string()))?;
            expect_same("C27", "batch-reload", &catch("observe", || observe(doc, None))?, &obs_of(&l, None, "reloaded")?)?;
            t.class(if into_list { "batch_create_in_list" } else { "batch_create_in_map" });
            t.nontrivial();
        }
        4 => {
            // init_root_from_hydrate / init_from_hydrate on fresh documents, and splice with nested values
            if let H::Map(m) = &hv {
                let mut a = AutoCommit::new_with_encoding(enc).with_actor(ActorId::from(vec![0x27u8]));
                catch("init_root_from_hydrate", || a.init_root_from_hydrate(m))?.map_err(|e| Failure::new("C27:init_root_from_hydrate:error", e.to_string()))?;
                let got = ReadDoc::hydrate(&a, &ROOT, None).map_err(|e| Failure::new("C27:hydrate-error", e.to_string()))?;
                ensure!(plain(&got) == plain(&hv), "C27:init_root_from_hydrate:value-differs", "init_root_from_hydrate({}) reads back as {}", plain(&hv), plain(&got));
                let mut b = Automerge::new_with_encoding(enc).with_actor(ActorId::from(vec![0x27u8]));
                catch("init_from_hydrate", || b.init_from_hydrate(m))?.map_err(|e| Failure::new("C27:init_from_hydrate:error", e.to_string()))?;
                ensure!(plain(&b.hydrate(None)) == plain(&hv), "C27:init_from_hydrate:value-differs", "init_from_hydrate({}) reads back as {}", plain(&hv), plain(&b.hydrate(None)));
                let mut c = AutoCommit::new_with_encoding(enc).with_actor(ActorId::from(vec![0x27u8]));
                let mut keys: Vec<&String> = m.iter().map(|x| x.0).collect();
                keys.sort();
                for k in keys {
                    build(&mut c, &ROOT, automerge::Prop::Map(k.clone()), m.get(k).unwrap(), false).map_err(|e| Failure::new("C27:call-by-call:error", e.to_string()))?;
                }
                expect_same("C27", "init-vs-call-by-call", &catch("observe", || observe(&c, None))?.strip_ids(), &catch("observe", || observe(&a, None))?.strip_ids())?;
                let l = Automerge::load_with_options(&a.save(), load_opts(enc)).map_err(|e| Failure::new("C27:init:reload-error", e.to_string()))?;
                ensure!(plain(&l.hydrate(None)) == plain(&hv), "C27:init:reload-differs", "reloaded document differs");
                t.class("init_from_hydrate");
                if m.iter().count() > 0 { t.nontrivial(); }
            } else if let H::List(vals) = &hv {
                let lists = live(doc, ObjType::List);
                if lists.is_empty() { return Ok(()) }
                let obj = lists[sel(*pick, lists.len())].clone();
                let before: Vec<String> = match ReadDoc::hydrate(doc, &obj, None) { Ok(H::List(l)) => l.iter().map(|x| plain(&x.value)).collect(), _ => return Ok(()) };
                let pos = sel(pick.rotate_left(3), before.len() + 1);
                let del = sel(pick.rotate_left(7), (before.len() - pos).min(3) + 1);
                let vs: Vec<H> = vals.iter().map(|x| x.value.clone()).collect();
                catch("splice(nested values)", || doc.splice(&obj, pos, del as isize, vs.clone()))?.map_err(|e| Failure::new("C27:splice:error", e.to_string()))?;
                let mut want = before.clone();
                want.splice(pos..pos + del, vs.iter().map(plain));
                let got: Vec<String> = match ReadDoc::hydrate(doc, &obj, None) { Ok(H::List(l)) => l.iter().map(|x| plain(&x.value)).collect(), _ => vec![] };
                ensure!(got == want, "C27:splice:nested-values", "splice({pos},{del},{:?}) on {:?} gives {:?}", vs.iter().map(plain).collect::<Vec<_>>(), before, got);
                t.class("splice_nested_values");
                if del > 0 && !vs.is_empty() { t.nontrivial(); }
            }
        }
        _ => {
            // update_spans
            let texts = live(doc, ObjType::Text);
            if texts.is_empty() { return Ok(()) }
            let obj = texts[sel(*pick, texts.len())].clone();
            let before: Vec<String> = doc.spans(&obj).map(|s| s.map(|x| crate::engine::obs::render_span(&x)).collect()).unwrap_or_default();
            let multi = has_multi_char_element(doc, &obj);
            let mut target_spans: Vec<Span> = vec![];
            for s in spans {
                if s.block {
                    let mut hm: HashMap<String, H> = HashMap::new();
                    hm.insert("type".to_string(), H::scalar(frag(s.block_val)));
                    target_spans.push(Span::Block(hm.into()));
                } else {
                    let text: String = s.frags.iter().map(|i| frag(*i)).filter(|f| *f != "\u{fffc}").collect();
                    if text.is_empty() { continue }
                    let ms: MarkSet = s.marks.iter().map(|(n, v)| (["bold", "link", "m"][(*n as usize) % 3].to_string(), ScalarValue::Int(*v as i64))).collect::<std::collections::BTreeMap<_, _>>().into_iter().collect();
                    target_spans.push(Span::Text { text, marks: if ms.num_marks() == 0 { None } else { Some(Arc::new(ms)) } });
                }
            }
            let cfg = UpdateSpansConfig::default().with_default_expand([ExpandMark::After, ExpandMark::Both, ExpandMark::None, ExpandMark::Before][(*mode as usize / 6) % 4]);
            catch("update_spans", || doc.update_spans(&obj, cfg, target_spans.clone()))?.map_err(|e| Failure::new(if multi { "C27:update_spans:result-differs:text-with-multi-character-elements" } else { "C27:update_spans:error" }, e.to_string()))?;
            let got: Vec<Span> = doc.spans(&obj).map_err(|e| Failure::new("C27:spans-error", e.to_string()))?.collect();
            let norm = |v: &[Span]| -> Vec<String> {
                // merge adjacent text spans with equal marks
                let mut out: Vec<(String, String, bool)> = vec![];
                for s in v {
                    match s {
                        Span::Text { text, marks } => {
                            let m: Vec<String> = marks.as_ref().map(|ms| ms.iter().map(|(n, v)| format!("{n}={}", render_scalar(v))).collect()).unwrap_or_default();
                            let m = m.join(",");
                            if let Some(last) = out.last_mut() { if !last.2 && last.1 == m { last.0.push_str(text); continue; } }
                            out.push((text.clone(), m, false));
                        }
                        Span::Block(b) => out.push((plain(&H::Map(b.clone())), String::new(), true)),
                    }
                }
                out.into_iter().map(|(t, m, b)| format!("{}{t:?}[{m}]", if b { "block" } else { "text" })).collect()
            };
            ensure!(norm(&got) == norm(&target_spans), if multi { "C27:update_spans:result-differs:text-with-multi-character-elements" } else { "C27:update_spans:result-differs" }, "update_spans on {:?} with target {:?} gives {:?}", before, norm(&target_spans), norm(&got));
            t.class("update_spans");
            if !before.is_empty() && !target_spans.is_empty() { t.nontrivial(); }
        }
    }
    t.extra_evals += 1;
    if t.self_nontrivial {
        t.sample = Some(serde_json::json!({"mode": mode % 6, "target": plain(&hv)}));
    }
    Ok(())
}

pub fn property(_ctx: &Ctx) -> Property {
    let spans = || prop::collection::vec((prop::bool::weighted(0.25), prop::collection::vec(any::<u8>(), 0..4), prop::collection::vec((any::<u8>(), 0i8..3), 0..3), any::<u8>()).prop_map(|(block, frags, marks, block_val)| SpanSpec { block, frags, marks, block_val }), 0..6);
    Property {
        id: "C27",
        level: "exploration",
        rule: "a proptest-generated multi-replica history (merged into one replica, so the prior state has conflicts, tombstones and multi-unit text) and a generated target: unicode strings for update_text; nested hydrate values (maps/lists/text/all scalar kinds incl. counters, depth <=3) for update_object on existing maps (incl. ROOT) and lists, for batch_create_object into map keys and list positions (compared id-free with the call-by-call construction and after load(save())), for init_root_from_hydrate / init_from_hydrate on fresh documents and for splice with nested values; span lists (text with mark sets, blocks) for update_spans under the four default expand settings. Oracle: text() / hydrate() (conflict markers ignored) / spans() (adjacent text spans with equal marks merged) equal the target. Non-trivial = non-empty prior state that differs from the target; distinct by case.",
        assumptions: &["update_text on texts containing embedded objects is reported under its own signature"],
        subs: vec![
            sub::<Case, _, _>("conflict", 6000, 150000, move |c| (program_strategy(CONFLICT, if c.thorough() { 60 } else { 25 }, 3, 4), hv_strategy(), spans(), any::<u16>(), any::<u8>()), check),
            sub::<Case, _, _>("text", 4000, 100000, move |c| (program_strategy(TEXT, if c.thorough() { 60 } else { 25 }, 3, 4), hv_strategy(), spans(), any::<u16>(), prop_oneof![Just(0u8), Just(5u8), Just(11u8), Just(17u8), Just(23u8)]), check),
        ],
    }
}
