//! C35 Hexane encodings round-trip and reject bad data safely.
//!
//! (a) `roundtrip`: columns built by C34 edit sequences are saved and loaded back (several slab
//!     budgets, streaming loader, streaming decoder/encoder, LoadOpts length/fill), the loaded column
//!     is put through the whole C34 read API and through further edits.
//! (b) `random` / `tokens` / `mutated`: arbitrary bytes, hostile run streams built from scratch, and
//!     structure-aware mutations of valid encodings are offered to every `load` entry point; `load`
//!     must return `Ok`/`Err`, and whatever loads must behave like a column.
#![allow(clippy::all)]
use super::c34::*;
use crate::engine::driver::*;
use crate::engine::graph::Lcg;
use crate::{ensure, fail};
use hexane::{AsColumnRef, Column, ColumnEncoding, ColumnValueRef, DeltaColumn, DeltaEncoder, DeltaValue, EncoderApi, Leb128, LoadOpts, PrefixColumn, RawColumn};
use proptest::prelude::*;
use serde::{Deserialize, Serialize};
use serde_json::json;

fn own<T: ColumnValueRef>(g: T::Get<'_>) -> T {
    <T as ColumnValueRef>::to_owned(g)
}
fn c35(f: Failure) -> Failure {
    Failure::new(f.sig.replace("C34:state:", "C35:loaded:").replace("C34:", "C35:loaded:"), f.detail)
}
fn hexs(b: &[u8]) -> String {
    let s = hex::encode(&b[..b.len().min(96)]);
    if b.len() > 96 {
        format!("{s}.. ({} bytes)", b.len())
    } else {
        s
    }
}

// ==================================================================================== (a) round trip
/// family-specific round-trip checks beyond `Fam::save`/`Fam::load`
pub trait Rt: Fam {
    fn extra(&self, _m: &[Self::V], _bytes: &[u8], _rng: &mut Lcg, _t: &mut Tally) -> CaseResult {
        Ok(())
    }
}

impl<T> Rt for Column<T>
where
    T: ColumnValueRef + Elem + Ord,
    for<'x> T::Get<'x>: Ord + AsColumnRef<T>,
{
    fn extra(&self, m: &[T], bytes: &[u8], rng: &mut Lcg, t: &mut Tally) -> CaseResult {
        let n = m.len();
        // LoadOpts::with_length: exact length accepted, any other length is an error
        match catch("load_with(length = len)", || Column::<T>::load_with(bytes, LoadOpts::new().with_length(n)).map(|c| c.len()).map_err(|e| e.to_string()))? {
            Ok(l) => ensure!(l == n, "C35:roundtrip:length", "load_with(length={n}) gave len {l}"),
            Err(e) => fail!("C35:roundtrip:exact-length-rejected", "load_with(with_length({n})) of own save failed: {e}"),
        }
        let wrong = if rng.below(2) == 0 { n + 1 + rng.below(3) } else { n.saturating_sub(1 + rng.below(3)) };
        if wrong != n && !(bytes.is_empty()) {
            let r = catch("load_with(wrong length)", || Column::<T>::load_with(bytes, LoadOpts::new().with_length(wrong)).map(|c| c.len()).map_err(|e| e.to_string()))?;
            ensure!(r.is_err(), "C35:roundtrip:wrong-length-accepted", "load_with(with_length({wrong})) accepted a column of {n} items (len {:?})", r);
        }
        // fill: empty data + length + fill value reads as `length` copies
        if n == 0 || rng.below(8) == 0 {
            let fv = T::mk(&Sd(rng.below(16) as u8, rng.next() % 5), 0);
            let k = rng.below(70);
            let got: Result<Vec<T>, String> = catch("load_with(empty, length, fill)", || {
                Column::<T>::load_with(&[], LoadOpts::new().with_length(k).with_fill(AsColumnRef::<T>::as_column_ref(&fv))).map(|c| c.to_vec().into_iter().map(own::<T>).collect()).map_err(|e| e.to_string())
            })?;
            match got {
                Ok(v) => ensure!(v.len() == k && v.iter().all(|x| *x == fv), "C35:roundtrip:fill", "load_with(&[], length {k}, fill {fv:?}) = {} items, first {:?}", v.len(), v.first()),
                Err(e) => fail!("C35:roundtrip:fill-error", "load_with(&[], length {k}, fill {fv:?}) failed: {e}"),
            }
            t.class("fill");
        }
        // streaming load: runs seen during the decode pass expand to the values; finalize gives the column
        let seg = SEGS[rng.below(SEGS.len())];
        let r: Result<(Vec<T>, Vec<T>), String> = catch("load_iter", || {
            let mut it = Column::<T>::load_iter(bytes, LoadOpts::new().with_max_segments(seg));
            let mut ex = vec![];
            let pull = rng.below(n + 2);
            while ex.len() < pull {
                match it.try_next_run().map_err(|e| e.to_string())? {
                    Some(r) => {
                        for _ in 0..r.count {
                            ex.push(own::<T>(r.value));
                        }
                    }
                    None => break,
                }
            }
            let col = it.finalize().map_err(|e| e.to_string())?;
            Ok((ex, col.to_vec().into_iter().map(own::<T>).collect()))
        })?;
        match r {
            Ok((ex, v)) => {
                ensure!(v == m, "C35:roundtrip:load_iter-values", "load_iter(..).finalize(): {}", diff(&v, m));
                ensure!(ex.len() <= n && ex[..] == m[..ex.len()], "C35:roundtrip:load_iter-runs", "runs pulled from load_iter: {}", diff(&ex, &m[..ex.len().min(n)]));
            }
            Err(e) => fail!("C35:roundtrip:load_iter-error", "load_iter of own save failed: {e}"),
        }
        // streaming decoder over the saved bytes
        let v: Vec<T> = catch("decoder", || hexane::decoder::<T>(bytes).map(own::<T>).collect())?;
        ensure!(v == m, "C35:roundtrip:decoder", "hexane::decoder over save(): {}", diff(&v, m));
        // streaming encoder produces bytes that load to the same values
        let eb = catch("Encoder", || {
            let mut e = <T::Encoding<Leb128> as ColumnEncoding>::encoder();
            for x in m {
                e.append_owned(x.clone());
            }
            e.save()
        })?;
        match catch("load(Encoder bytes)", || Column::<T>::load(&eb).map(|c| c.to_vec().into_iter().map(own::<T>).collect::<Vec<T>>()).map_err(|e| e.to_string()))? {
            Ok(v) => ensure!(v == m, "C35:roundtrip:encoder", "load(Encoder::save()): {}", diff(&v, m)),
            Err(e) => fail!("C35:roundtrip:encoder-bytes-rejected", "load of streaming-encoder bytes failed: {e}; {}", hexs(&eb)),
        }
        if eb == bytes {
            t.class("encoder_bytes==column_bytes");
        } else {
            t.class("encoder_bytes!=column_bytes");
        }
        Ok(())
    }
}

macro_rules! prefix_rt {
    ($t:ty) => {
        impl Rt for PrefixColumn<$t> {
            fn extra(&self, m: &[$t], bytes: &[u8], _rng: &mut Lcg, _t: &mut Tally) -> CaseResult {
                // a prefix column's bytes are the plain column's bytes
                match catch("Column::load(prefix bytes)", || Column::<$t>::load(bytes).map(|c| c.to_vec().into_iter().map(own::<$t>).collect::<Vec<$t>>()).map_err(|e| e.to_string()))? {
                    Ok(v) => ensure!(v == m, "C35:roundtrip:prefix-as-column", "Column::load(PrefixColumn::save()): {}", diff(&v, m)),
                    Err(e) => fail!("C35:roundtrip:prefix-as-column-rejected", "Column::load of PrefixColumn bytes failed: {e}"),
                }
                let n = m.len();
                match catch("load_with(length)", || PrefixColumn::<$t>::load_with(bytes, LoadOpts::new().with_length(n)).map(|c| c.len()).map_err(|e| e.to_string()))? {
                    Ok(l) => ensure!(l == n, "C35:roundtrip:length", "load_with(length={n}) gave len {l}"),
                    Err(e) => fail!("C35:roundtrip:exact-length-rejected", "load_with(with_length({n})) of own save failed: {e}"),
                }
                if !bytes.is_empty() {
                    let r = catch("load_with(wrong length)", || PrefixColumn::<$t>::load_with(bytes, LoadOpts::new().with_length(n + 1)).map(|c| c.len()).map_err(|e| e.to_string()))?;
                    ensure!(r.is_err(), "C35:roundtrip:wrong-length-accepted", "load_with(with_length({})) accepted a column of {n} items", n + 1);
                }
                Ok(())
            }
        }
    };
}
prefix_rt!(u32);
prefix_rt!(u64);
prefix_rt!(i64);
prefix_rt!(bool);
prefix_rt!(Option<u32>);
prefix_rt!(Option<u64>);
prefix_rt!(Option<i64>);

impl<T> Rt for DeltaFam<T>
where
    T: DeltaValue + Elem + Ord,
{
    fn extra(&self, m: &[T], bytes: &[u8], _rng: &mut Lcg, t: &mut Tally) -> CaseResult {
        let n = m.len();
        match catch("load_with(length)", || DeltaColumn::<T>::load_with(bytes, LoadOpts::new().with_length(n)).map(|c| c.len()).map_err(|e| e.to_string()))? {
            Ok(l) => ensure!(l == n, "C35:roundtrip:length", "load_with(length={n}) gave len {l}"),
            Err(e) => fail!("C35:roundtrip:exact-length-rejected", "load_with(with_length({n})) of own save failed: {e}"),
        }
        if !bytes.is_empty() {
            let r = catch("load_with(wrong length)", || DeltaColumn::<T>::load_with(bytes, LoadOpts::new().with_length(n + 1)).map(|c| c.len()).map_err(|e| e.to_string()))?;
            ensure!(r.is_err(), "C35:roundtrip:wrong-length-accepted", "load_with(with_length({})) accepted a column of {n} items", n + 1);
        }
        // streaming delta encoder
        let eb = catch("DeltaEncoder", || {
            let mut e = DeltaEncoder::<T>::new();
            for x in m {
                e.append(*x);
            }
            e.save()
        })?;
        match catch("load(DeltaEncoder bytes)", || DeltaColumn::<T>::load(&eb).map(|c| c.to_vec()).map_err(|e| e.to_string()))? {
            Ok(v) => ensure!(v == m, "C35:roundtrip:encoder", "load(DeltaEncoder::save()): {}", diff(&v, m)),
            Err(e) => fail!("C35:roundtrip:encoder-bytes-rejected", "load of DeltaEncoder bytes failed: {e}; {}", hexs(&eb)),
        }
        if eb == bytes {
            t.class("encoder_bytes==column_bytes");
        } else {
            t.class("encoder_bytes!=column_bytes");
        }
        Ok(())
    }
}
impl Rt for RawFam {
    fn extra(&self, _m: &[Vec<u8>], bytes: &[u8], _rng: &mut Lcg, _t: &mut Tally) -> CaseResult {
        let b2 = catch("RawColumn::load.save", || RawColumn::load(bytes).map(|c| (c.len(), c.save())).map_err(|e| e.to_string()))?;
        match b2 {
            Ok((l, b)) => ensure!(l == bytes.len() && b == bytes, "C35:roundtrip:raw", "RawColumn::load(b).save() differs from b ({} vs {} bytes)", b.len(), bytes.len()),
            Err(e) => fail!("C35:roundtrip:raw-rejected", "RawColumn::load failed: {e}"),
        }
        Ok(())
    }
}

fn roundtrip<F: Rt>(case: &Case, name: &str, t: &mut Tally) -> CaseResult {
    let mut tr = new_track();
    let (col, m) = build::<F>(case, false, &mut tr)?;
    let bytes = catch("save", || col.save())?;
    let mut rng = Lcg(case.q ^ 0x35);
    let segs = [seg_of(case.seg), 2, 64, SEGS[rng.below(SEGS.len())]];
    for seg in segs {
        let loaded = match catch(&format!("load_with(max_segments={seg}) of own save"), || col.reload(&bytes, seg))? {
            Ok(c) => c,
            Err(e) => fail!("C35:roundtrip:load-of-own-save-fails", "{name}: load(save()) of a column with {} items failed: {e}; {}", m.len(), hexs(&bytes)),
        };
        let v = catch("to_vec(loaded)", || loaded.to_vec())?;
        ensure!(v == m, "C35:roundtrip:values-differ", "{name}: load(save()) with max_segments {seg}: {}", diff(&v, &m));
        let mut tr2 = new_track();
        tr2.tainted = true;
        tr2.win = tr.win;
        loaded.check(&m, &mut rng, &mut tr2).map_err(c35)?;
        let b2 = catch("save(loaded)", || loaded.save())?;
        if b2 == bytes {
            t.class("resave_identical");
        } else {
            t.class("resave_differs");
        }
        match catch("load(save(load(save)))", || col.reload(&b2, seg).map(|c| c.to_vec()))? {
            Ok(v) => ensure!(v == m, "C35:roundtrip:resave-values-differ", "{name}: load(save(load(save()))): {}", diff(&v, &m)),
            Err(e) => fail!("C35:roundtrip:resave-does-not-load", "{name}: bytes saved by a loaded column do not load: {e}; {}", hexs(&b2)),
        }
    }
    // a loaded column keeps behaving like a vector under further edits
    {
        let seg = SEGS[rng.below(SEGS.len())];
        let mut loaded = match catch("load for edits", || col.reload(&bytes, seg))? {
            Ok(c) => c,
            Err(e) => fail!("C35:roundtrip:load-of-own-save-fails", "{name}: load(save()) failed: {e}"),
        };
        let mut m2 = m.clone();
        let mut tr2 = new_track();
        tr2.tainted = true;
        tr2.win = tr.win;
        for op in case.ops.iter().rev().take(4) {
            step(&mut loaded, &mut m2, op, case, &mut tr2).map_err(c35)?;
            loaded.check(&m2, &mut rng, &mut tr2).map_err(c35)?;
        }
    }
    col.extra(&m, &bytes, &mut rng, t)?;
    t.class(name.to_string());
    if tr.max_slabs > 1 {
        t.class("multi_slab");
    }
    if tr.nulls {
        t.class("nulls");
    }
    if bytes.is_empty() {
        t.class("empty_encoding");
    }
    for e in &tr.excluded {
        t.class(format!("excluded_known:{e}"));
    }
    t.extra_evals = segs.len() as u64;
    if tr.max_slabs > 1 && !m.is_empty() {
        t.nontrivial();
        t.sample = Some(json!({"type": name, "items": m.len(), "bytes": bytes.len(), "hex_prefix": hex::encode(&bytes[..bytes.len().min(32)]), "max_slabs": tr.max_slabs}));
    }
    Ok(())
}

const N_COL: usize = 13;
const N_PFX: usize = 7;
const N_DEL: usize = 10;
const N_ALL: usize = N_COL + N_PFX + N_DEL + 1;

pub fn check_roundtrip(case: &Case, t: &mut Tally) -> CaseResult {
    enter("C35", "roundtrip", case);
    let k = case.kind as usize % N_ALL;
    if k < N_COL {
        let name = COLUMN_KINDS[k];
        return match k {
            0 => roundtrip::<Column<u32>>(case, name, t),
            1 => roundtrip::<Column<u64>>(case, name, t),
            2 => roundtrip::<Column<i64>>(case, name, t),
            3 => roundtrip::<Column<usize>>(case, name, t),
            4 => roundtrip::<Column<String>>(case, name, t),
            5 => roundtrip::<Column<Vec<u8>>>(case, name, t),
            6 => roundtrip::<Column<bool>>(case, name, t),
            7 => roundtrip::<Column<Option<u32>>>(case, name, t),
            8 => roundtrip::<Column<Option<u64>>>(case, name, t),
            9 => roundtrip::<Column<Option<i64>>>(case, name, t),
            10 => roundtrip::<Column<Option<usize>>>(case, name, t),
            11 => roundtrip::<Column<Option<String>>>(case, name, t),
            _ => roundtrip::<Column<Option<Vec<u8>>>>(case, name, t),
        };
    }
    let k = k - N_COL;
    if k < N_PFX {
        let name = PREFIX_KINDS[k];
        return match k {
            0 => roundtrip::<PrefixColumn<u32>>(case, name, t),
            1 => roundtrip::<PrefixColumn<u64>>(case, name, t),
            2 => roundtrip::<PrefixColumn<i64>>(case, name, t),
            3 => roundtrip::<PrefixColumn<bool>>(case, name, t),
            4 => roundtrip::<PrefixColumn<Option<u32>>>(case, name, t),
            5 => roundtrip::<PrefixColumn<Option<u64>>>(case, name, t),
            _ => roundtrip::<PrefixColumn<Option<i64>>>(case, name, t),
        };
    }
    let k = k - N_PFX;
    if k < N_DEL {
        let name = DELTA_KINDS[k];
        return match k {
            0 => roundtrip::<DeltaFam<u32>>(case, name, t),
            1 => roundtrip::<DeltaFam<u64>>(case, name, t),
            2 => roundtrip::<DeltaFam<i64>>(case, name, t),
            3 => roundtrip::<DeltaFam<usize>>(case, name, t),
            4 => roundtrip::<DeltaFam<i32>>(case, name, t),
            5 => roundtrip::<DeltaFam<Option<u32>>>(case, name, t),
            6 => roundtrip::<DeltaFam<Option<u64>>>(case, name, t),
            7 => roundtrip::<DeltaFam<Option<i64>>>(case, name, t),
            8 => roundtrip::<DeltaFam<Option<usize>>>(case, name, t),
            _ => roundtrip::<DeltaFam<Option<i32>>>(case, name, t),
        };
    }
    roundtrip::<RawFam>(case, "RawColumn", t)
}

// ==================================================================================== (b) hostile bytes
#[derive(Clone, Copy, PartialEq, Debug)]
pub enum VK {
    U,
    I,
    Str,
    Bytes,
    Bool,
    Raw,
}

fn uleb(v: u64, out: &mut Vec<u8>) {
    leb128::write::unsigned(out, v).unwrap();
}
fn sleb(v: i64, out: &mut Vec<u8>) {
    leb128::write::signed(out, v).unwrap();
}

/// how a value is damaged: 0 intact, 1 invalid UTF-8 / garbage payload, 2 over-long LEB, 3 length
/// prefix beyond the data, 4 truncated
fn enc_val(vk: VK, sd: &Sd, bad: u8, out: &mut Vec<u8>) {
    let start = out.len();
    match vk {
        VK::U | VK::Bool | VK::Raw => uleb(<u64 as Elem>::mk(sd, 0), out),
        VK::I => sleb(<i64 as Elem>::mk(sd, 0), out),
        VK::Str | VK::Bytes => {
            let mut b = if vk == VK::Str { <String as Elem>::mk(sd, 0).into_bytes() } else { <Vec<u8> as Elem>::mk(sd, 0) };
            if bad == 1 {
                let junk: &[u8] = match sd.1 % 6 {
                    0 => &[0xff],
                    1 => &[0xc0, 0x80],
                    2 => &[0xed, 0xa0, 0x80],
                    3 => &[0xe2, 0x82],
                    4 => &[0xf4, 0x90, 0x80, 0x80],
                    _ => &[0x80],
                };
                let at = if b.is_empty() { 0 } else { (sd.1 as usize / 7) % (b.len() + 1) };
                b.splice(at..at, junk.iter().copied());
            }
            let l = if bad == 3 { b.len() as u64 + 1 + sd.1 % 1000 } else { b.len() as u64 };
            uleb(l, out);
            out.extend_from_slice(&b);
        }
    }
    match bad {
        2 => {
            // over-long LEB: set the continuation bit on the first varint's last byte and pad
            let mut i = start;
            while i < out.len() && out[i] & 0x80 != 0 {
                i += 1;
            }
            if i < out.len() {
                let neg = vk == VK::I && out[i] & 0x40 != 0;
                out[i] |= 0x80;
                out.insert(i + 1, if neg { 0x7f } else { 0x00 });
            }
        }
        4 => {
            if out.len() > start {
                out.pop();
            }
        }
        _ => {}
    }
}

#[derive(Clone, Debug, Serialize, Deserialize)]
pub enum Tok {
    /// repeat run: signed count then one value
    Run(i64, Sd, u8),
    /// literal run: header -(n + adjust) then the values
    Lit(i8, Vec<(Sd, u8)>),
    /// null run: 0 then unsigned count
    Null(i64),
    Raw(Vec<u8>),
}

fn cap_count(c: i64) -> i64 {
    c
}

fn tok_bytes(vk: VK, toks: &[Tok]) -> Vec<u8> {
    let mut out = vec![];
    for t in toks {
        if vk == VK::Bool {
            // boolean encoding: a bare list of unsigned run lengths
            match t {
                Tok::Run(c, ..) | Tok::Null(c) => uleb(cap_count(*c) as u64, &mut out),
                Tok::Lit(_, v) => uleb(v.len() as u64, &mut out),
                Tok::Raw(b) => out.extend_from_slice(b),
            }
            continue;
        }
        match t {
            Tok::Run(c, sd, bad) => {
                sleb(cap_count(*c), &mut out);
                enc_val(vk, sd, *bad, &mut out);
            }
            Tok::Lit(adj, vals) => {
                sleb(-(vals.len() as i64 + *adj as i64), &mut out);
                for (sd, bad) in vals {
                    enc_val(vk, sd, *bad, &mut out);
                }
            }
            Tok::Null(c) => {
                out.push(0);
                uleb(cap_count(*c) as u64, &mut out);
            }
            Tok::Raw(b) => out.extend_from_slice(b),
        }
    }
    out
}

// ---- parser for valid encodings (format: rle/mod.rs header comment, bool.rs header comment)
#[derive(Clone, Debug)]
enum Seg {
    Run(i64, Vec<u8>),
    Lit(Vec<Vec<u8>>, i64),
    Null(u64),
    Cnt(u64),
}
fn read_leb_len(b: &[u8]) -> Option<usize> {
    let mut i = 0;
    while i < b.len() && i < 10 {
        if b[i] & 0x80 == 0 {
            return Some(i + 1);
        }
        i += 1;
    }
    None
}
fn val_len(vk: VK, b: &[u8]) -> Option<usize> {
    match vk {
        VK::Str | VK::Bytes => {
            let mut r = b;
            let l = leb128::read::unsigned(&mut r).ok()? as usize;
            let h = b.len() - r.len();
            if r.len() < l {
                None
            } else {
                Some(h + l)
            }
        }
        _ => read_leb_len(b),
    }
}
fn parse(vk: VK, b: &[u8]) -> Option<Vec<Seg>> {
    let mut segs = vec![];
    let mut r = b;
    if vk == VK::Bool {
        while !r.is_empty() {
            segs.push(Seg::Cnt(leb128::read::unsigned(&mut r).ok()?));
        }
        return Some(segs);
    }
    while !r.is_empty() {
        let c = leb128::read::signed(&mut r).ok()?;
        if c > 0 {
            let l = val_len(vk, r)?;
            segs.push(Seg::Run(c, r[..l].to_vec()));
            r = &r[l..];
        } else if c < 0 {
            let mut vals = vec![];
            for _ in 0..c.checked_neg()? {
                let l = val_len(vk, r)?;
                vals.push(r[..l].to_vec());
                r = &r[l..];
            }
            segs.push(Seg::Lit(vals, 0));
        } else {
            segs.push(Seg::Null(leb128::read::unsigned(&mut r).ok()?));
        }
    }
    Some(segs)
}
fn unparse(segs: &[Seg]) -> Vec<u8> {
    let mut out = vec![];
    for s in segs {
        match s {
            Seg::Run(c, v) => {
                sleb(cap_count(*c), &mut out);
                out.extend_from_slice(v);
            }
            Seg::Lit(vals, adj) => {
                sleb((vals.len() as i64).saturating_add(*adj).saturating_neg(), &mut out);
                for v in vals {
                    out.extend_from_slice(v);
                }
            }
            Seg::Null(c) => {
                out.push(0);
                uleb(cap_count(*c as i64) as u64, &mut out);
            }
            Seg::Cnt(c) => uleb(cap_count(*c as i64) as u64, &mut out),
        }
    }
    out
}

#[derive(Clone, Debug, Serialize, Deserialize)]
pub enum Mut {
    /// set the length of run/null/bool segment (literal: the header count)
    Count(u16, i64),
    CountAdd(u16, i8),
    /// replace value j of segment i
    Value(u16, u16, Sd, u8),
    Dup(u16),
    Del(u16),
    Swap(u16),
    Insert(u16, Tok),
    /// move the last value of a literal into its own repeat run, or a run into a literal
    Reshape(u16),
    Trunc(u16),
    Extend(Vec<u8>),
    Flip(u32, u8),
}

fn apply_muts(vk: VK, bytes: &[u8], muts: &[Mut]) -> (Vec<u8>, bool) {
    let Some(mut segs) = parse(vk, bytes) else {
        return (bytes.to_vec(), false);
    };
    let mut tail: Vec<&Mut> = vec![];
    for m in muts {
        let n = segs.len();
        match m {
            Mut::Count(i, c) if n > 0 => match &mut segs[*i as usize % n] {
                Seg::Run(x, _) => *x = *c,
                Seg::Null(x) | Seg::Cnt(x) => *x = *c as u64,
                Seg::Lit(v, adj) => *adj = c.saturating_neg().saturating_sub(v.len() as i64),
            },
            Mut::CountAdd(i, d) if n > 0 => match &mut segs[*i as usize % n] {
                Seg::Run(x, _) => *x = x.saturating_add(*d as i64),
                Seg::Null(x) | Seg::Cnt(x) => *x = x.saturating_add_signed(*d as i64),
                Seg::Lit(_, adj) => *adj = adj.saturating_add(*d as i64),
            },
            Mut::Value(i, j, sd, bad) if n > 0 => {
                let mut nv = vec![];
                enc_val(vk, sd, *bad, &mut nv);
                match &mut segs[*i as usize % n] {
                    Seg::Run(_, v) => *v = nv,
                    Seg::Lit(vals, _) if !vals.is_empty() => {
                        let k = *j as usize % vals.len();
                        vals[k] = nv;
                    }
                    _ => {}
                }
            }
            Mut::Dup(i) if n > 0 => {
                let k = *i as usize % n;
                let s = segs[k].clone();
                segs.insert(k, s);
            }
            Mut::Del(i) if n > 0 => {
                segs.remove(*i as usize % n);
            }
            Mut::Swap(i) if n > 1 => {
                let k = *i as usize % (n - 1);
                segs.swap(k, k + 1);
            }
            Mut::Insert(i, tok) => {
                let k = *i as usize % (n + 1);
                let b = tok_bytes(vk, std::slice::from_ref(tok));
                if let Some(mut s) = parse(vk, &b) {
                    if !s.is_empty() {
                        segs.insert(k, s.remove(0));
                    }
                }
            }
            Mut::Reshape(i) if n > 0 => {
                let k = *i as usize % n;
                match segs[k].clone() {
                    Seg::Lit(mut vals, adj) if vals.len() > 1 => {
                        let last = vals.pop().unwrap();
                        segs[k] = Seg::Lit(vals, adj);
                        segs.insert(k + 1, Seg::Run(2, last));
                    }
                    Seg::Run(_, v) => segs[k] = Seg::Lit(vec![v], 0),
                    _ => {}
                }
            }
            Mut::Trunc(_) | Mut::Extend(_) | Mut::Flip(..) => tail.push(m),
            _ => {}
        }
    }
    let mut out = unparse(&segs);
    for m in tail {
        match m {
            Mut::Trunc(k) => {
                let l = out.len();
                out.truncate(l.saturating_sub(1 + *k as usize % 6));
            }
            Mut::Extend(b) => out.extend_from_slice(b),
            Mut::Flip(p, x) if !out.is_empty() => {
                let l = out.len();
                out[*p as usize % l] ^= if *x == 0 { 1 } else { *x };
            }
            _ => {}
        }
    }
    (out, true)
}

#[derive(Clone, Debug, Serialize, Deserialize)]
pub enum Input {
    Random(Vec<u8>),
    Tokens(Vec<Tok>),
    /// a valid encoding of `vals` written by column type `src` (same value kind as the target when
    /// `src == 255`), then mutated
    Mutated { src: u8, vals: Runs, muts: Vec<Mut> },
}

#[derive(Clone, Debug, Serialize, Deserialize)]
pub struct HCase {
    pub target: u8,
    pub input: Input,
    pub length: Option<u32>,
    pub seg: u8,
    pub fill: Option<Sd>,
    pub q: u64,
}

/// a loadable column type
pub trait Host: Fam {
    const VK: VK;
    fn load_opts(b: &[u8], length: Option<usize>, seg: usize, fill: Option<&Sd>) -> Result<Self, String>;
    /// total item count reported by walking runs — O(runs), usable on astronomically long columns
    fn run_total(&self) -> u128;
    fn get_dbg(&self, i: usize) -> Option<String>;
    fn tail3(&self) -> usize;
    fn valid(_v: &Self::V) -> bool {
        true
    }
    /// every run's value is well-formed (strings: valid UTF-8) — O(runs)
    fn runs_valid(&self) -> bool {
        true
    }
    /// valid encoding of seeds for this type, written by the library
    fn encode(vals: &Runs) -> Vec<u8> {
        let v: Vec<Self::V> = expand(vals, if Self::DELTA { 4 } else { 0 });
        Self::from_vals(v, 64).save()
    }
    /// fill semantics are asserted (Column / PrefixColumn: `length` copies of the value)
    const FILL_IS_VALUE: bool = true;
}

trait ValidStr {
    fn ok(&self) -> bool {
        true
    }
}
impl ValidStr for String {
    fn ok(&self) -> bool {
        std::str::from_utf8(self.as_bytes()).is_ok()
    }
}
impl ValidStr for Option<String> {
    fn ok(&self) -> bool {
        self.as_ref().map(|s| std::str::from_utf8(s.as_bytes()).is_ok()).unwrap_or(true)
    }
}
macro_rules! always_valid { ($($t:ty),*) => { $(impl ValidStr for $t {})* } }
always_valid!(u32, u64, i64, usize, bool, Vec<u8>, Option<u32>, Option<u64>, Option<i64>, Option<usize>, Option<Vec<u8>>);

macro_rules! column_host {
    ($t:ty, $vk:expr) => {
        impl Host for Column<$t> {
            const VK: VK = $vk;
            fn load_opts(b: &[u8], length: Option<usize>, seg: usize, fill: Option<&Sd>) -> Result<Self, String> {
                let mut o = LoadOpts::new().with_max_segments(seg);
                if let Some(l) = length {
                    o = o.with_length(l);
                }
                match fill {
                    None => Column::<$t>::load_with(b, o),
                    Some(sd) => {
                        let v = <$t as Elem>::mk(sd, 0);
                        Column::<$t>::load_with(b, o.with_fill(AsColumnRef::<$t>::as_column_ref(&v)))
                    }
                }
                .map_err(|e| e.to_string())
            }
            fn run_total(&self) -> u128 {
                self.iter().runs().map(|r| r.count as u128).sum()
            }
            fn get_dbg(&self, i: usize) -> Option<String> {
                self.get(i).map(|v| format!("{v:?}"))
            }
            fn tail3(&self) -> usize {
                let n = self.len();
                self.iter_range(n.saturating_sub(3)..n).count()
            }
            fn valid(v: &$t) -> bool {
                ValidStr::ok(v)
            }
            fn runs_valid(&self) -> bool {
                self.iter().runs().all(|r| ValidStr::ok(&own::<$t>(r.value)))
            }
        }
    };
}
column_host!(u32, VK::U);
column_host!(u64, VK::U);
column_host!(i64, VK::I);
column_host!(usize, VK::U);
column_host!(String, VK::Str);
column_host!(Vec<u8>, VK::Bytes);
column_host!(bool, VK::Bool);
column_host!(Option<u32>, VK::U);
column_host!(Option<u64>, VK::U);
column_host!(Option<i64>, VK::I);
column_host!(Option<usize>, VK::U);
column_host!(Option<String>, VK::Str);
column_host!(Option<Vec<u8>>, VK::Bytes);

macro_rules! prefix_host {
    ($t:ty, $vk:expr) => {
        impl Host for PrefixColumn<$t> {
            const VK: VK = $vk;
            fn load_opts(b: &[u8], length: Option<usize>, seg: usize, fill: Option<&Sd>) -> Result<Self, String> {
                let mut o = LoadOpts::new().with_max_segments(seg);
                if let Some(l) = length {
                    o = o.with_length(l);
                }
                match fill {
                    None => PrefixColumn::<$t>::load_with(b, o),
                    Some(sd) => {
                        let v = <$t as Elem>::mk(sd, 0);
                        PrefixColumn::<$t>::load_with(b, o.with_fill(v))
                    }
                }
                .map_err(|e| e.to_string())
            }
            fn run_total(&self) -> u128 {
                self.values().iter().runs().map(|r| r.count as u128).sum()
            }
            fn get_dbg(&self, i: usize) -> Option<String> {
                self.get(i).map(|v| format!("{v:?}"))
            }
            fn tail3(&self) -> usize {
                let n = self.len();
                self.iter_range(n.saturating_sub(3)..n).count()
            }
        }
    };
}
prefix_host!(u32, VK::U);
prefix_host!(u64, VK::U);
prefix_host!(i64, VK::I);
prefix_host!(bool, VK::Bool);
prefix_host!(Option<u32>, VK::U);
prefix_host!(Option<u64>, VK::U);
prefix_host!(Option<i64>, VK::I);

impl<T> Host for DeltaFam<T>
where
    T: DeltaValue + Elem + Ord,
{
    const VK: VK = VK::I;
    const FILL_IS_VALUE: bool = false;
    fn load_opts(b: &[u8], length: Option<usize>, seg: usize, fill: Option<&Sd>) -> Result<Self, String> {
        use hexane::delta::DeltaInner;
        let mut o = LoadOpts::new().with_max_segments(seg);
        if let Some(l) = length {
            o = o.with_length(l);
        }
        match fill {
            None => DeltaColumn::<T>::load_with(b, o),
            Some(sd) => {
                // the fill of a delta column is a *delta*; 0 or 1 keeps the realized values in every domain
                let inner = <T::Inner as DeltaInner>::from_opt(Some((sd.1 % 2) as i64));
                DeltaColumn::<T>::load_with(b, o.with_fill(AsColumnRef::<T::Inner>::as_column_ref(&inner)))
            }
        }
        .map(|c| DeltaFam(c, 4))
        .map_err(|e| e.to_string())
    }
    fn run_total(&self) -> u128 {
        self.0.iter().runs().map(|r| r.count as u128).sum()
    }
    fn get_dbg(&self, i: usize) -> Option<String> {
        self.0.get(i).map(|v| format!("{v:?}"))
    }
    fn tail3(&self) -> usize {
        let n = self.0.len();
        self.0.iter_range(n.saturating_sub(3)..n).count()
    }
}

const BIG: usize = 4000;

fn hostile<H: Host>(case: &HCase, name: &str, bytes: &[u8], kind: &str, t: &mut Tally) -> CaseResult {
    let seg = seg_of(case.seg);
    let length = case.length.map(|l| l as usize);
    let mut rng = Lcg(case.q);
    let what = format!("{name}::load_with(length {:?}, max_segments {seg}, fill {:?}) of {}", length, case.fill, hexs(bytes));
    t.class(name.to_string());
    let col = match catch(&what, || H::load_opts(bytes, length, seg, case.fill.as_ref())).map_err(|f| Failure::new(format!("C35:load:{}", f.sig), f.detail))? {
        Err(_) => {
            t.class(format!("{kind}:rejected"));
            return Ok(());
        }
        Ok(c) => c,
    };
    t.class(format!("{kind}:loaded"));
    let n = col.len();
    if let Some(l) = length {
        ensure!(n == l, "C35:load:length-option-not-enforced", "{what}: loaded {n} items");
    }
    let filled = bytes.is_empty() && length.is_some() && case.fill.is_some();
    if bytes.is_empty() && !filled {
        ensure!(n == 0, "C35:load:empty-bytes-nonempty-column", "{what}: loaded {n} items from no bytes");
    }
    let rt = catch("runs() over the loaded column", || col.run_total()).map_err(c35)?;
    ensure!(rt == n as u128, "C35:loaded:runs-total", "{what}: runs() cover {rt} items, len() = {n}");
    // before anything formats or compares a value: Debug on an invalid str is undefined behaviour
    let ok = catch("utf-8 validity of run values", || col.runs_valid())?;
    ensure!(ok, "C35:loaded:invalid-utf8", "{what}: the loaded column hands out a string holding invalid UTF-8");
    let mut seg2 = SEGS[rng.below(SEGS.len())];
    if H::DELTA && avoid("C35:loaded:resave-does-not-load") {
        // known finding: whether a DeltaColumn<i64> whose values span >= 2^63 loads depends on the slab budget
        seg2 = seg;
        t.class("excluded_known:delta reload under a different max_segments");
    }
    if n > BIG {
        // astronomically long columns (huge run counts are legal): sampled reads only
        t.class("loaded_huge(sampled)");
        let (a, b, c) = catch("get on huge column", || (col.get_dbg(0), col.get_dbg(n - 1), col.get_dbg(n)))?;
        ensure!(a.is_some() && b.is_some() && c.is_none(), "C35:loaded:get", "{what}: get(0) {:?} get(len-1) {:?} get(len) {:?}", a, b, c);
        let k = catch("iter_range tail", || col.tail3())?;
        ensure!(k == 3, "C35:loaded:iter_range", "{what}: iter_range(len-3..len) yielded {k} items");
        let b2 = catch("save(loaded)", || col.save())?;
        match catch("load(save(loaded))", || H::load_opts(&b2, None, seg2, None))? {
            Ok(c2) => {
                let (l2, r2) = catch("len/runs of reloaded", || (c2.len(), c2.run_total()))?;
                ensure!(l2 == n && r2 == n as u128, "C35:loaded:resave-length-differs", "{what}: load(save()) has {l2} items ({r2} by runs), loaded column {n}");
                let (x, y) = catch("get on reloaded", || (c2.get_dbg(0), c2.get_dbg(n - 1)))?;
                ensure!(x == a && y == b, "C35:loaded:resave-values-differ", "{what}: first/last {:?}/{:?} became {:?}/{:?} after save+load", a, b, x, y);
            }
            Err(e) => fail!("C35:loaded:resave-does-not-load", "{what}: loaded, but its save() does not load: {e}; saved {}", hexs(&b2)),
        }
        return Ok(());
    }
    let m = catch("to_vec(loaded)", || col.to_vec())?;
    ensure!(m.len() == n, "C35:loaded:iterates-len-items", "{what}: to_vec() has {} items, len() = {n}", m.len());
    for (i, v) in m.iter().enumerate() {
        // (the value itself is not formatted: Debug on an invalid str is undefined behaviour)
        ensure!(H::valid(v), "C35:loaded:invalid-utf8", "{what}: item {i} of the loaded column is a string holding invalid UTF-8");
    }
    if filled && H::FILL_IS_VALUE {
        let fv = H::V::mk(case.fill.as_ref().unwrap(), 0);
        ensure!(m.iter().all(|x| *x == fv), "C35:load:fill", "{what}: filled column holds {:?}", m.first());
    }
    let edge = H::near_edge(&m);
    let mut tr = new_track();
    tr.tainted = true;
    tr.win = if H::DELTA { 4 } else { 0 };
    if edge {
        // extreme delta values: the deep query/edit pass would only re-find C34's domain-edge findings
        t.class("loaded_delta_near_domain_edge(light)");
    } else {
        col.check(&m, &mut rng, &mut tr).map_err(c35)?;
    }
    let b2 = catch("save(loaded)", || col.save())?;
    match catch("load(save(loaded))", || H::load_opts(&b2, Some(n), seg2, None))? {
        Ok(c2) => {
            let v2 = catch("to_vec(reloaded)", || c2.to_vec())?;
            ensure!(v2 == m, "C35:loaded:resave-values-differ", "{what}: load(save()) of the loaded column: {}", diff(&v2, &m));
        }
        Err(e) => fail!("C35:loaded:resave-does-not-load", "{what}: loaded, but its save() does not load: {e}; saved {}", hexs(&b2)),
    }
    // a loaded column is a working column: a few edits against the model
    if !edge {
        let mut col = col;
        let mut m = m;
        let fake = Case { kind: 0, seg: case.seg, win: 0, sorted: false, init: vec![], ops: vec![], q: case.q };
        for k in 0..4u64 {
            let r = rng.next();
            let sd = Sd((r >> 8) as u8 % 16, r >> 20 & 7);
            let op = match (r ^ k) % 5 {
                0 => Op::Insert { at: (r >> 30) as u32, v: sd },
                1 => Op::Remove { at: (r >> 30) as u32 },
                2 => Op::Splice { at: (r >> 30) as u32, del: (r >> 12) as u32 % 4, vals: vec![(sd, 1 + (r >> 5) as u16 % 3)] },
                3 => Op::Push { v: sd },
                _ => Op::RemoveN { at: (r >> 30) as u32, n: (r >> 12) as u32 % 5 },
            };
            step(&mut col, &mut m, &op, &fake, &mut tr).map_err(c35)?;
            col.check(&m, &mut rng, &mut tr).map_err(c35)?;
        }
    }
    Ok(())
}

fn hostile_raw(case: &HCase, bytes: &[u8], kind: &str, t: &mut Tally) -> CaseResult {
    t.class("RawColumn");
    let seg = seg_of(case.seg) * 4;
    match catch("RawColumn::load_with_max_segments", || RawColumn::load_with_max_segments(bytes, seg).map_err(|e| e.to_string()))? {
        Err(_) => t.class(format!("{kind}:rejected")),
        Ok(c) => {
            t.class(format!("{kind}:loaded"));
            let (l, s) = catch("len/save", || (c.len(), c.save()))?;
            ensure!(l == bytes.len() && s == bytes, "C35:loaded:raw-bytes-differ", "RawColumn::load(b).save() != b ({} vs {} bytes)", s.len(), bytes.len());
            if l > 0 {
                let g = catch("get", || c.get(0..l).to_vec())?;
                ensure!(g == bytes, "C35:loaded:raw-bytes-differ", "RawColumn get(0..len) != input");
            }
        }
    }
    Ok(())
}

pub const N_TARGETS: usize = N_ALL;
fn vk_of(target: usize) -> VK {
    fn col(k: usize) -> VK {
        [VK::U, VK::U, VK::I, VK::U, VK::Str, VK::Bytes, VK::Bool, VK::U, VK::U, VK::I, VK::U, VK::Str, VK::Bytes][k]
    }
    if target < N_COL {
        col(target)
    } else if target < N_COL + N_PFX {
        [VK::U, VK::U, VK::I, VK::Bool, VK::U, VK::U, VK::I][target - N_COL]
    } else if target < N_COL + N_PFX + N_DEL {
        VK::I
    } else {
        VK::Raw
    }
}
fn target_name(target: usize) -> &'static str {
    if target < N_COL {
        COLUMN_KINDS[target]
    } else if target < N_COL + N_PFX {
        PREFIX_KINDS[target - N_COL]
    } else if target < N_COL + N_PFX + N_DEL {
        DELTA_KINDS[target - N_COL - N_PFX]
    } else {
        "RawColumn"
    }
}

macro_rules! on_target {
    ($target:expr, $f:ident, $($arg:expr),*) => {
        match $target {
            0 => $f::<Column<u32>>($($arg),*),
            1 => $f::<Column<u64>>($($arg),*),
            2 => $f::<Column<i64>>($($arg),*),
            3 => $f::<Column<usize>>($($arg),*),
            4 => $f::<Column<String>>($($arg),*),
            5 => $f::<Column<Vec<u8>>>($($arg),*),
            6 => $f::<Column<bool>>($($arg),*),
            7 => $f::<Column<Option<u32>>>($($arg),*),
            8 => $f::<Column<Option<u64>>>($($arg),*),
            9 => $f::<Column<Option<i64>>>($($arg),*),
            10 => $f::<Column<Option<usize>>>($($arg),*),
            11 => $f::<Column<Option<String>>>($($arg),*),
            12 => $f::<Column<Option<Vec<u8>>>>($($arg),*),
            13 => $f::<PrefixColumn<u32>>($($arg),*),
            14 => $f::<PrefixColumn<u64>>($($arg),*),
            15 => $f::<PrefixColumn<i64>>($($arg),*),
            16 => $f::<PrefixColumn<bool>>($($arg),*),
            17 => $f::<PrefixColumn<Option<u32>>>($($arg),*),
            18 => $f::<PrefixColumn<Option<u64>>>($($arg),*),
            19 => $f::<PrefixColumn<Option<i64>>>($($arg),*),
            20 => $f::<DeltaFam<u32>>($($arg),*),
            21 => $f::<DeltaFam<u64>>($($arg),*),
            22 => $f::<DeltaFam<i64>>($($arg),*),
            23 => $f::<DeltaFam<usize>>($($arg),*),
            24 => $f::<DeltaFam<i32>>($($arg),*),
            25 => $f::<DeltaFam<Option<u32>>>($($arg),*),
            26 => $f::<DeltaFam<Option<u64>>>($($arg),*),
            27 => $f::<DeltaFam<Option<i64>>>($($arg),*),
            28 => $f::<DeltaFam<Option<usize>>>($($arg),*),
            _ => $f::<DeltaFam<Option<i32>>>($($arg),*),
        }
    };
}

fn encode_as<H: Host>(vals: &Runs) -> Vec<u8> {
    H::encode(vals)
}

pub fn check_hostile(case: &HCase, t: &mut Tally) -> CaseResult {
    enter("C35", "hostile", case);
    let target = case.target as usize % N_TARGETS;
    let vk = vk_of(target);
    let name = target_name(target);
    let (bytes, kind, changed): (Vec<u8>, &str, bool) = match &case.input {
        Input::Random(b) => (b.clone(), "random", true),
        Input::Tokens(toks) => (tok_bytes(vk, toks), "tokens", true),
        Input::Mutated { src, vals, muts } => {
            // source type: the target itself, or another column type (bytes of one type offered to another)
            let s = if *src == 255 || vk == VK::Raw { target } else { *src as usize % (N_TARGETS - 1) };
            let s = if s >= N_TARGETS - 1 { 0 } else { s };
            let valid = catch("encode valid column", || on_target!(s, encode_as, vals))?;
            let svk = vk_of(s);
            let (b, parsed) = apply_muts(svk, &valid, muts);
            ensure!(parsed, "C35:harness:cannot-parse-valid-encoding", "harness parser failed on a library-written {} encoding: {}", target_name(s), hexs(&valid));
            if s != target {
                t.class("cross_type_bytes");
            }
            let changed = b != valid;
            (b, "mutated", changed)
        }
    };
    if target == N_TARGETS - 1 {
        return hostile_raw(case, &bytes, kind, t);
    }
    let before = t.classes.len();
    on_target!(target, hostile, case, name, &bytes, kind, t)?;
    let _ = before;
    let loaded = t.classes.iter().any(|c| c.ends_with(":loaded"));
    if loaded && changed && !bytes.is_empty() {
        t.nontrivial();
        if kind == "mutated" {
            t.class("mutated_still_loads");
        }
        t.sample = Some(json!({"target": name, "input": kind, "bytes": bytes.len(), "hex_prefix": hex::encode(&bytes[..bytes.len().min(40)])}));
    }
    Ok(())
}

// ---- strategies
fn count_strategy() -> impl Strategy<Value = i64> {
    prop_oneof![
        8 => 2i64..6,
        3 => 6i64..300,
        2 => Just(1i64),
        1 => Just(0i64),
        1 => Just(-1i64),
        2 => prop::sample::select(vec![127i64, 128, 1 << 14, 1 << 31, (1 << 32) + 1, 1 << 53, 1 << 62, i64::MAX, i64::MIN, i64::MAX / 2 + 1, u32::MAX as i64]),
        1 => any::<i64>(),
    ]
}
fn bad_strategy() -> impl Strategy<Value = u8> {
    prop_oneof![12 => Just(0u8), 1 => Just(1u8), 1 => Just(2u8), 1 => Just(3u8), 1 => Just(4u8)]
}
fn tok_strategy() -> impl Strategy<Value = Tok> {
    prop_oneof![
        5 => (count_strategy(), sd_strategy(), bad_strategy()).prop_map(|(c, s, b)| Tok::Run(c, s, b)),
        5 => (prop_oneof![8 => Just(0i8), 1 => -2i8..3], proptest::collection::vec((sd_strategy(), bad_strategy()), 1..6)).prop_map(|(a, v)| Tok::Lit(a, v)),
        2 => count_strategy().prop_map(Tok::Null),
        1 => proptest::collection::vec(any::<u8>(), 0..6).prop_map(Tok::Raw),
    ]
}
fn mut_strategy() -> impl Strategy<Value = Mut> {
    prop_oneof![
        4 => (any::<u16>(), count_strategy()).prop_map(|(i, c)| Mut::Count(i, c)),
        3 => (any::<u16>(), -2i8..3).prop_map(|(i, d)| Mut::CountAdd(i, d)),
        5 => (any::<u16>(), any::<u16>(), sd_strategy(), bad_strategy()).prop_map(|(i, j, s, b)| Mut::Value(i, j, s, b)),
        1 => any::<u16>().prop_map(Mut::Dup),
        2 => any::<u16>().prop_map(Mut::Del),
        2 => any::<u16>().prop_map(Mut::Swap),
        3 => (any::<u16>(), tok_strategy()).prop_map(|(i, t)| Mut::Insert(i, t)),
        2 => any::<u16>().prop_map(Mut::Reshape),
        1 => any::<u16>().prop_map(Mut::Trunc),
        1 => proptest::collection::vec(any::<u8>(), 1..5).prop_map(Mut::Extend),
        1 => (any::<u32>(), any::<u8>()).prop_map(|(p, x)| Mut::Flip(p, x)),
    ]
}
fn hcase_strategy(which: u8) -> impl Strategy<Value = HCase> {
    let input = match which {
        0 => prop_oneof![
            3 => proptest::collection::vec(any::<u8>(), 0..40),
            2 => proptest::collection::vec(prop_oneof![Just(0u8), Just(1u8), Just(2u8), Just(0x7fu8), Just(0x7eu8), Just(0x80u8), Just(0xffu8), 0u8..8], 0..24),
        ]
        .prop_map(Input::Random)
        .boxed(),
        1 => proptest::collection::vec(tok_strategy(), 0..8).prop_map(Input::Tokens).boxed(),
        _ => (prop_oneof![5 => Just(255u8), 1 => 0u8..30], runs_strategy(16), proptest::collection::vec(mut_strategy(), 1..4)).prop_map(|(src, vals, muts)| Input::Mutated { src, vals, muts }).boxed(),
    };
    (
        0u8..(N_TARGETS as u8),
        input,
        prop_oneof![6 => Just(None), 2 => (0u32..40).prop_map(Some), 1 => (0u32..100_000).prop_map(Some)],
        0u8..7,
        prop_oneof![3 => Just(None), 1 => sd_strategy().prop_map(Some)],
        any::<u64>(),
    )
        .prop_map(|(target, input, length, seg, fill, q)| HCase { target, input, length, seg, fill, q })
}

pub fn property(_ctx: &Ctx) -> Property {
    c34_findings_out_of_scope();
    Property {
        id: "C35",
        level: "exploration",
        rule: "(a) roundtrip: columns built by C34 edit sequences (31 types: 13 Column<T>, 7 PrefixColumn<T>, 10 DeltaColumn<T>, RawColumn; max_segments 2..64) are saved and loaded with 4 slab budgets; the loaded column must hold the model values, pass the complete C34 read-API comparison and check_invariants(), save to bytes that load to the same values, and keep agreeing with the Vec model under 4 further edits; per family also LoadOpts::with_length (exact accepted, other rejected), with_fill on empty data, load_iter run streaming + finalize, hexane::decoder, streaming Encoder/DeltaEncoder bytes, PrefixColumn bytes loaded as Column. Non-trivial (a) = the source column had >1 slab and is non-empty. (b) random: arbitrary bytes and low-alphabet bytes; tokens: run streams built from scratch (repeat/literal/null runs, counts 0, 1, -1, 2^31, 2^62, i64::MAX/MIN, literal headers off by -2..2, values with invalid UTF-8, over-long LEB128, over-long length prefixes, truncation); mutated: a valid library-written encoding of generated values (own type, or another type's bytes in 1 of 6 cases) parsed by an independent RLE/boolean parser and changed by 1-3 structure-aware mutations (set/adjust a run length or literal header, replace a value, duplicate/delete/swap/insert a run, reshape literal<->repeat, truncate, extend, flip a byte) — each offered to load_with of one of 30 typed columns (+RawColumn) with generated LoadOpts (length None/small/large, max_segments 2..64, optional fill). Oracle: load returns Ok/Err without panic; if Ok: length option enforced, runs() cover exactly len() items, columns of <=4000 items: to_vec has len() items, strings are valid UTF-8, the complete C34 read-API comparison against its own to_vec, save() loads back (with_length(len)) to the same values, 4 further edits keep agreeing with a Vec; longer columns: sampled get/iter_range and save->load length and end values. Non-trivial (b) = non-empty input that differs from a valid library encoding (or was built from scratch) and still loads; class mutated_still_loads counts the mutated ones. evaluations counts load attempts.",
        assumptions: &[
            "verdict profile has overflow-checks and debug-assertions on (DESIGN 1.3): an arithmetic-overflow panic inside load on untrusted counts is a violation; in release the same inputs load with a wrapped length",
            "LoadOpts themselves are trusted caller input: length <= 100000, max_segments >= 2, fill values inside the type's domain; the fill of a DeltaColumn is a delta, so only no-panic/consistency is asserted for it",
            "loaded DeltaColumns holding values within 2^61 of the i64 limits get the light oracle only (deep queries there are C34's domain-edge findings)",
            "the input shapes behind C34's own findings (delete-only copy_ranges points, DeltaColumn values within 2^61 of the i64 limits in edits and value queries, find_by_value(None)) are always steered away from here and counted in excluded_known:* classes — they are reported by C34; C35's own exclusion list = known C35 findings in known_findings.json or VERIF_AVOID",
        ],
        subs: vec![
            sub::<Case, _, _>("roundtrip", 25600, 500000, |c| case_strategy(31, if c.thorough() { 100 } else { 30 }), check_roundtrip),
            sub::<HCase, _, _>("random", 192000, 4000000, |_| hcase_strategy(0), check_hostile),
            sub::<HCase, _, _>("tokens", 256000, 5000000, |_| hcase_strategy(1), check_hostile),
            sub::<HCase, _, _>("mutated", 512000, 10000000, |_| hcase_strategy(2), check_hostile),
        ],
    }
}
