//! C33 CLI JSON import/export round-trips: `automerge import < json | automerge export` returns the
//! same JSON value — numbers keep value and kind (integer vs float), keys, arrays (order) and
//! strings are preserved.
//!
//! The CLI binary is built from /repo's working tree into /verif/target-cli (override with
//! VERIF_CLI_TARGET) once at start; every case spawns two subprocesses with piped stdin/stdout.
use crate::engine::driver::*;
use crate::{ensure, fail};
use proptest::prelude::*;
use serde::{Deserialize, Serialize};
use serde_json::Value as J;
use std::io::Write;
use std::path::PathBuf;
use std::process::{Command, Stdio};
use std::sync::OnceLock;

// ------------------------------------------------------------------ input model

/// A JSON value together with the way its number literals are written.
#[derive(Clone, Debug, PartialEq, Serialize, Deserialize)]
pub enum JV {
    Null,
    Bool(bool),
    Int(i64),
    Uint(u64),
    /// f64 bit pattern (finite) and literal format selector (see `float_literal`)
    Float(u64, u8),
    Str(String),
    Arr(Vec<JV>),
    Obj(Vec<(String, JV)>),
}

#[derive(Clone, Debug, Serialize, Deserialize)]
pub struct Case {
    pub root: Vec<(String, JV)>,
    /// write every non-ASCII character as \uXXXX escapes (surrogate pairs for astral characters)
    pub esc: bool,
    /// insert insignificant whitespace between tokens
    pub ws: bool,
}

/// JSON number literal for a finite f64; every format denotes exactly that double and has a
/// fraction or an exponent, so it is a floating point literal
pub fn float_literal(bits: u64, fmt: u8) -> String {
    let f = f64::from_bits(bits);
    let s = match fmt % 5 {
        // Rust's shortest round-trip form: "1.0", "0.1", "1e300", "5e-324" (always a fraction or an exponent)
        0 => format!("{f:?}"),
        // shortest digits, always exponent form ("1e0", "1.5e-7")
        1 => format!("{f:e}"),
        // 17 significant digits
        2 => format!("{f:.16e}"),
        // 25 significant digits of the exact binary value
        3 => format!("{f:.24e}"),
        // upper-case exponent with explicit sign ("1.5E+300")
        _ => {
            let s = format!("{f:e}");
            match s.split_once('e') {
                Some((m, e)) if !e.starts_with('-') => format!("{m}E+{e}"),
                Some((m, e)) => format!("{m}E{e}"),
                None => s,
            }
        }
    };
    debug_assert!(s.contains(['.', 'e', 'E']), "not a float literal: {s}");
    s
}

fn esc_string(s: &str, esc: bool, out: &mut String) {
    if !esc {
        out.push_str(&serde_json::to_string(s).expect("string to json"));
        return;
    }
    out.push('"');
    for c in s.chars() {
        match c {
            '"' => out.push_str("\\\""),
            '\\' => out.push_str("\\\\"),
            '/' => out.push_str("\\/"),
            c if (c as u32) < 0x20 || (c as u32) == 0x7f => out.push_str(&format!("\\u{:04x}", c as u32)),
            c if c.is_ascii() => out.push(c),
            c => {
                let mut b = [0u16; 2];
                for u in c.encode_utf16(&mut b) {
                    out.push_str(&format!("\\u{:04X}", u));
                }
            }
        }
    }
    out.push('"');
}

pub fn render(v: &JV, esc: bool, ws: bool, depth: usize, out: &mut String) {
    let nl = |out: &mut String, d: usize| {
        if ws {
            out.push('\n');
            for _ in 0..d {
                out.push_str("\t ");
            }
        }
    };
    match v {
        JV::Null => out.push_str("null"),
        JV::Bool(b) => out.push_str(if *b { "true" } else { "false" }),
        JV::Int(i) => out.push_str(&i.to_string()),
        JV::Uint(u) => out.push_str(&u.to_string()),
        JV::Float(bits, fmt) => out.push_str(&float_literal(*bits, *fmt)),
        JV::Str(s) => esc_string(s, esc, out),
        JV::Arr(a) => {
            out.push('[');
            for (i, x) in a.iter().enumerate() {
                if i > 0 {
                    out.push(',');
                }
                nl(out, depth + 1);
                render(x, esc, ws, depth + 1, out);
            }
            if !a.is_empty() {
                nl(out, depth);
            }
            out.push(']');
        }
        JV::Obj(o) => {
            out.push('{');
            for (i, (k, x)) in o.iter().enumerate() {
                if i > 0 {
                    out.push(',');
                }
                nl(out, depth + 1);
                esc_string(k, esc, out);
                out.push(':');
                if ws {
                    out.push(' ');
                }
                render(x, esc, ws, depth + 1, out);
            }
            if !o.is_empty() {
                nl(out, depth);
            }
            out.push('}');
        }
    }
}

// ------------------------------------------------------------------ generator

const CHARS: &[char] = &[
    'a', 'Z', '0', ' ', '"', '\\', '/', '\u{8}', '\u{c}', '\n', '\r', '\t', '\u{0}', '\u{1}', '\u{1f}', '\u{7f}', '\u{80}', '\u{e9}', '\u{df}', '\u{3b1}',
    '\u{301}', '\u{7ff}', '\u{800}', '\u{6f22}', '\u{5b57}', '\u{2028}', '\u{2029}', '\u{feff}', '\u{fffc}', '\u{fffd}', '\u{ffff}', '\u{d7ff}', '\u{e000}',
    '\u{10000}', '\u{1F600}', '\u{1F468}', '\u{200D}', '\u{1F1E9}', '\u{10FFFF}', '{', '}', '[', ']', ':', ',', '\'', 'u', '.', '-', 'e',
];

fn string_strategy() -> impl Strategy<Value = String> {
    prop_oneof![
        4 => prop::collection::vec(prop::sample::select(CHARS), 0..10).prop_map(|v| v.into_iter().collect::<String>()),
        2 => prop::collection::vec(any::<char>(), 0..8).prop_map(|v| v.into_iter().collect::<String>()),
        2 => "[a-z]{0,6}",
        1 => Just(String::new()),
        1 => prop::sample::select(&["__proto__", "constructor", "null", "true", "0", "1e5", "-", "\u{e9}\u{301}", "\u{1F468}\u{200D}\u{1F469}\u{200D}\u{1F467}", "\\u0000", "a\u{0}b"][..]).prop_map(|s| s.to_string()),
    ]
}

const SPECIAL_F: &[f64] = &[
    0.0,
    -0.0,
    1.0,
    -1.0,
    0.1,
    0.2,
    0.30000000000000004,
    1.0 / 3.0,
    2.5,
    1e15,
    1e16,
    1e21,
    1e22,
    1e23,
    1e308,
    -1e308,
    f64::MAX,
    f64::MIN,
    f64::MIN_POSITIVE,
    2.2250738585072009e-308,
    5e-324,
    -5e-324,
    4.9406564584124654e-324,
    9007199254740992.0,
    9007199254740994.0,
    -9007199254740992.0,
    9223372036854775808.0,
    18446744073709551616.0,
    123456789.12345678,
    0.000001,
    1e-7,
    1.7976931348623157e308,
    8.5e-315,
    3.141592653589793,
    2.718281828459045,
    6.02214076e23,
    1.5e300,
    4.35,
    0.57,
    1234567890123456.7,
];

fn float_bits_strategy() -> impl Strategy<Value = u64> {
    prop_oneof![
        3 => prop::sample::select(SPECIAL_F).prop_map(|f| f.to_bits()),
        // any finite bit pattern: uniform over exponents, including subnormals
        4 => any::<u64>().prop_map(|b| if f64::from_bits(b).is_finite() { b } else { b & !(1u64 << 62) }),
        // subnormals
        1 => (any::<bool>(), 1u64..(1u64 << 52)).prop_map(|(s, m)| ((s as u64) << 63) | m),
        // decimal-looking numbers: integer / 10^k
        3 => (any::<i64>(), 0u32..18, 0u32..12).prop_map(|(m, shift, k)| (((m >> (shift * 3)) as f64) / 10f64.powi(k as i32)).to_bits()),
        // 17-digit mantissas in the ordinary range
        2 => (1.0f64..10.0, -30i32..30).prop_map(|(m, e)| (m * 10f64.powi(e)).to_bits()),
        // integral values beyond the integer ranges and around 2^53
        1 => (any::<i64>()).prop_map(|i| (i as f64).to_bits()),
    ]
}

fn int_strategy() -> impl Strategy<Value = JV> {
    prop_oneof![
        3 => (-1000i64..1000).prop_map(JV::Int),
        3 => any::<i64>().prop_map(JV::Int),
        2 => any::<u64>().prop_map(JV::Uint),
        2 => prop::sample::select(&[i64::MIN, i64::MIN + 1, i64::MAX, i64::MAX - 1, 0, -1, 1 << 53, (1 << 53) + 1, -(1 << 53) - 1, i32::MAX as i64 + 1, i32::MIN as i64 - 1][..]).prop_map(JV::Int),
        2 => prop::sample::select(&[u64::MAX, u64::MAX - 1, i64::MAX as u64, i64::MAX as u64 + 1, i64::MAX as u64 + 2, 1u64 << 63, (1u64 << 63) + 1025, 0][..]).prop_map(JV::Uint),
        1 => (any::<i64>(), 0u32..63).prop_map(|(i, s)| JV::Int(i >> s)),
    ]
}

fn leaf() -> impl Strategy<Value = JV> {
    prop_oneof![
        1 => Just(JV::Null),
        1 => any::<bool>().prop_map(JV::Bool),
        4 => int_strategy(),
        5 => (float_bits_strategy(), 0u8..5).prop_map(|(b, f)| JV::Float(b, f)),
        4 => string_strategy().prop_map(JV::Str),
    ]
}

fn dedupe(v: Vec<(String, JV)>) -> Vec<(String, JV)> {
    let mut out: Vec<(String, JV)> = vec![];
    for (k, x) in v {
        if !out.iter().any(|(k2, _)| *k2 == k) {
            out.push((k, x));
        }
    }
    out
}

fn value_strategy() -> impl Strategy<Value = JV> {
    leaf().prop_recursive(4, 40, 5, |inner| {
        prop_oneof![
            prop::collection::vec(inner.clone(), 0..6).prop_map(JV::Arr),
            prop::collection::vec((string_strategy(), inner), 0..6).prop_map(|v| JV::Obj(dedupe(v))),
        ]
    })
}

pub fn case_strategy() -> impl Strategy<Value = Case> {
    // a guaranteed array-in-object-in-array spine in half of the cases
    let spine = (string_strategy(), string_strategy(), prop::collection::vec(value_strategy(), 0..4), prop::collection::vec(value_strategy(), 0..3), prop::collection::vec((string_strategy(), value_strategy()), 0..3))
        .prop_map(|(k1, k2, inner, sibs, fields)| {
            let mut obj = vec![(k2, JV::Arr(inner))];
            obj.extend(fields);
            let mut arr = vec![JV::Obj(dedupe(obj))];
            arr.extend(sibs);
            (k1, JV::Arr(arr))
        });
    (prop::collection::vec((string_strategy(), value_strategy()), 0..7), prop::option::weighted(0.5, spine), any::<bool>(), any::<bool>()).prop_map(|(mut root, spine, esc, ws)| {
        if let Some(s) = spine {
            root.insert(0, s);
        }
        Case { root: dedupe(root), esc, ws }
    })
}

// ------------------------------------------------------------------ CLI

static CLI: OnceLock<PathBuf> = OnceLock::new();

fn cli_target_dir() -> PathBuf {
    std::env::var("VERIF_CLI_TARGET").map(PathBuf::from).unwrap_or_else(|_| PathBuf::from("/verif/target-cli"))
}

fn cli_source_dir() -> PathBuf {
    // VERIF_CLI_SRC exists for sensitivity experiments on a scratch copy of the workspace
    std::env::var("VERIF_CLI_SRC").map(PathBuf::from).unwrap_or_else(|_| PathBuf::from("/repo/rust"))
}

/// build the CLI from /repo's current working tree; exit 2 (infrastructure) when that fails
pub fn build_cli() -> PathBuf {
    CLI.get_or_init(|| {
        let dir = cli_target_dir();
        let out = Command::new("cargo")
            .args(["build", "--offline", "-p", "automerge-cli"])
            .current_dir(cli_source_dir())
            .env("CARGO_TARGET_DIR", &dir)
            .env("CARGO_NET_OFFLINE", "true")
            .env_remove("RUSTFLAGS")
            .stdin(Stdio::null())
            .output();
        match out {
            Ok(o) if o.status.success() => {}
            Ok(o) => {
                eprintln!("infrastructure: building automerge-cli failed:\n{}", String::from_utf8_lossy(&o.stderr));
                std::process::exit(2);
            }
            Err(e) => {
                eprintln!("infrastructure: cannot run cargo to build automerge-cli: {e}");
                std::process::exit(2);
            }
        }
        let bin = dir.join("debug").join("automerge");
        if !bin.exists() {
            eprintln!("infrastructure: {} does not exist after the build", bin.display());
            std::process::exit(2);
        }
        bin
    })
    .clone()
}

pub struct RunOut {
    pub ok: bool,
    pub status: String,
    pub stdout: Vec<u8>,
    pub stderr: String,
}

/// run `automerge <sub>` with `input` on a piped stdin, capturing piped stdout/stderr
pub fn run_cli(sub: &str, input: &[u8]) -> Result<RunOut, Failure> {
    let bin = build_cli();
    let mut attempt = 0;
    let mut child = loop {
        let r = Command::new(&bin)
            .arg(sub)
            .env_remove("RUST_LOG")
            .env_remove("RUST_BACKTRACE")
            .env("RUST_LIB_BACKTRACE", "0")
            .env("NO_COLOR", "1")
            .stdin(Stdio::piped())
            .stdout(Stdio::piped())
            .stderr(Stdio::piped())
            .spawn();
        match r {
            Ok(c) => break c,
            Err(e) if attempt < 5 => {
                attempt += 1;
                eprintln!("infrastructure: spawn of {} failed ({e}), retrying", bin.display());
                std::thread::sleep(std::time::Duration::from_millis(200 * attempt));
            }
            Err(e) => {
                // not a verdict about automerge: inconclusive
                eprintln!("infrastructure: cannot spawn {}: {e}", bin.display());
                std::process::exit(2);
            }
        }
    };
    let mut stdin = child.stdin.take().expect("piped stdin");
    let data = input.to_vec();
    // feed stdin from a helper thread so that a child that writes before it has read everything cannot deadlock us
    let feeder = std::thread::spawn(move || {
        let _ = stdin.write_all(&data);
        drop(stdin);
    });
    let out = match child.wait_with_output() {
        Ok(o) => o,
        Err(e) => {
            eprintln!("infrastructure: waiting for {} failed: {e}", bin.display());
            std::process::exit(2);
        }
    };
    let _ = feeder.join();
    Ok(RunOut { ok: out.status.success(), status: format!("{}", out.status), stdout: out.stdout, stderr: String::from_utf8_lossy(&out.stderr).chars().take(600).collect() })
}

// ------------------------------------------------------------------ oracle

#[derive(Default)]
struct Shape {
    floats: u64,
    ints: u64,
    big_uints: u64,
    non_ascii_str: bool,
    non_ascii_key: bool,
    empty_key: bool,
    escapes: bool,
    astral: bool,
    arr_in_obj_in_arr: bool,
    subnormal: bool,
    huge: bool,
    integral_float: bool,
    neg_zero: bool,
    long_literal: bool,
    max_depth: usize,
    nodes: u64,
}

fn scan(v: &JV, depth: usize, in_arr_obj: u8, sh: &mut Shape) {
    // in_arr_obj: 0 = nothing, 1 = inside an array, 2 = inside an object inside an array
    sh.max_depth = sh.max_depth.max(depth);
    sh.nodes += 1;
    let note_str = |s: &str, sh: &mut Shape, key: bool| {
        if !s.is_ascii() {
            if key {
                sh.non_ascii_key = true;
            } else {
                sh.non_ascii_str = true;
            }
        }
        if s.chars().any(|c| (c as u32) > 0xffff) {
            sh.astral = true;
        }
        if s.chars().any(|c| c == '"' || c == '\\' || (c as u32) < 0x20) {
            sh.escapes = true;
        }
    };
    match v {
        JV::Int(_) => sh.ints += 1,
        JV::Uint(u) => {
            sh.ints += 1;
            if *u > i64::MAX as u64 {
                sh.big_uints += 1;
            }
        }
        JV::Float(b, fmt) => {
            sh.floats += 1;
            let f = f64::from_bits(*b);
            if f != 0.0 && f.abs() < f64::MIN_POSITIVE {
                sh.subnormal = true;
            }
            if f.abs() >= 1e300 {
                sh.huge = true;
            }
            if f.fract() == 0.0 {
                sh.integral_float = true;
            }
            if f == 0.0 && f.is_sign_negative() {
                sh.neg_zero = true;
            }
            if matches!(fmt % 5, 2 | 3) {
                sh.long_literal = true;
            }
        }
        JV::Str(s) => note_str(s, sh, false),
        JV::Arr(a) => {
            if in_arr_obj == 2 {
                sh.arr_in_obj_in_arr = true;
            }
            for x in a {
                scan(x, depth + 1, 1, sh);
            }
        }
        JV::Obj(o) => {
            let next = if in_arr_obj == 1 { 2 } else { 0 };
            for (k, x) in o {
                note_str(k, sh, true);
                if k.is_empty() {
                    sh.empty_key = true;
                }
                // only a *direct* child array of an object that is a *direct* element of an array counts
                match x {
                    JV::Arr(_) => scan(x, depth + 1, next, sh),
                    _ => scan(x, depth + 1, 0, sh),
                }
            }
        }
        JV::Null | JV::Bool(_) => {}
    }
}

fn short(j: &J) -> String {
    let s = j.to_string();
    if s.chars().count() > 200 {
        format!("{}…", s.chars().take(200).collect::<String>())
    } else {
        s
    }
}

fn kind_name(j: &J) -> &'static str {
    match j {
        J::Null => "null",
        J::Bool(_) => "bool",
        J::Number(n) if n.is_f64() => "float",
        J::Number(_) => "integer",
        J::String(_) => "string",
        J::Array(_) => "array",
        J::Object(_) => "object",
    }
}

/// compare the imported-then-exported value with the input, kind-sensitively
fn compare(want: &JV, got: &J, path: &str, t: &mut Tally) -> CaseResult {
    match (want, got) {
        (JV::Null, J::Null) => Ok(()),
        (JV::Bool(a), J::Bool(b)) if a == b => Ok(()),
        (JV::Str(a), J::String(b)) => {
            ensure!(a == b, "C33:string:value", "{path}: string {:?} came back as {:?}", a, b);
            Ok(())
        }
        (JV::Int(i), J::Number(n)) => {
            ensure!(!n.is_f64(), "C33:number:integer-became-float", "{path}: integer {i} came back as float {n}");
            let same = if *i >= 0 { n.as_u64() == Some(*i as u64) } else { n.as_i64() == Some(*i) };
            ensure!(same, "C33:number:integer-value", "{path}: integer {i} came back as {n}");
            Ok(())
        }
        (JV::Uint(u), J::Number(n)) => {
            ensure!(!n.is_f64(), "C33:number:integer-became-float", "{path}: integer {u} came back as float {n}");
            ensure!(n.as_u64() == Some(*u), "C33:number:integer-value", "{path}: integer {u} came back as {n}");
            Ok(())
        }
        (JV::Float(bits, fmt), J::Number(n)) => {
            let f = f64::from_bits(*bits);
            let lit = float_literal(*bits, *fmt);
            ensure!(n.is_f64(), "C33:number:float-became-integer", "{path}: float literal {lit} came back as integer {n}");
            let g = n.as_f64().unwrap_or(f64::NAN);
            // JSON numbers are decimal literals: -0.0 and 0.0 denote the same value, everything else must be the same double
            ensure!(g == f, "C33:number:float-value", "{path}: float literal {lit} (= {f:e}, bits {bits:#x}) came back as {n} (= {g:e}, bits {:#x})", g.to_bits());
            if g.to_bits() != *bits {
                t.class("zero_sign_changed");
            }
            Ok(())
        }
        (JV::Arr(a), J::Array(b)) => {
            ensure!(a.len() == b.len(), "C33:array:length", "{path}: array of {} elements came back with {}: {}", a.len(), b.len(), short(got));
            for (i, (x, y)) in a.iter().zip(b.iter()).enumerate() {
                compare(x, y, &format!("{path}[{i}]"), t)?;
            }
            Ok(())
        }
        (JV::Obj(o), J::Object(m)) => {
            for (k, x) in o {
                match m.get(k) {
                    Some(y) => compare(x, y, &format!("{path}/{k:?}"), t)?,
                    None => fail!("C33:object:key-lost", "{path}: key {:?} missing from export; exported keys {:?}", k, m.keys().collect::<Vec<_>>()),
                }
            }
            ensure!(o.len() == m.len(), "C33:object:extra-key", "{path}: {} keys imported, {} exported: {:?}", o.len(), m.len(), m.keys().collect::<Vec<_>>());
            Ok(())
        }
        (w, g) => {
            let wk = match w {
                JV::Null => "null",
                JV::Bool(_) => "bool",
                JV::Int(_) | JV::Uint(_) => "integer",
                JV::Float(..) => "float",
                JV::Str(_) => "string",
                JV::Arr(_) => "array",
                JV::Obj(_) => "object",
            };
            if wk == kind_name(g) {
                // same kind, different value (bool)
                fail!(format!("C33:{wk}:value"), "{path}: {:?} came back as {}", w, short(g));
            }
            fail!(format!("C33:kind:{wk}-became-{}", kind_name(g)), "{path}: {:?} came back as {}", w, short(g))
        }
    }
}

pub fn check(c: &Case, t: &mut Tally) -> CaseResult {
    let root = JV::Obj(c.root.clone());
    let mut text = String::new();
    render(&root, c.esc, c.ws, 0, &mut text);
    // harness self-check: the text we send means what the case says (parsed exactly, float_roundtrip)
    let parsed: J = match serde_json::from_str(&text) {
        Ok(v) => v,
        Err(e) => fail!("harness:rendered-json-does-not-parse", "{e}: {text}"),
    };
    {
        let mut dummy = Tally::default();
        if let Err(f) = compare(&root, &parsed, "ROOT", &mut dummy) {
            fail!("harness:rendered-json-means-something-else", "{}: {}", f.sig, f.detail);
        }
    }

    let imp = run_cli("import", text.as_bytes())?;
    if !imp.ok {
        // signature = first line of the error message, digits stripped (one signature per rejection reason)
        let first: String = imp.stderr.lines().next().unwrap_or("").chars().map(|c| if c.is_ascii_digit() { '#' } else { c }).collect();
        let mut reason = String::new();
        for c in first.chars() {
            if !(c == '#' && reason.ends_with('#')) {
                reason.push(c);
            }
        }
        fail!(format!("C33:import:fails:{}", reason.trim_start_matches("Error: ")), "`automerge import` exited with {} on {}\nstderr: {}", imp.status, text, imp.stderr);
    }
    ensure!(!imp.stdout.is_empty(), "C33:import:empty-output", "`automerge import` wrote nothing for {}", text);
    let exp = run_cli("export", &imp.stdout)?;
    ensure!(exp.ok, "C33:export:fails", "`automerge export` exited with {} on the document imported from {}\nstderr: {}", exp.status, text, exp.stderr);
    let out_text = match String::from_utf8(exp.stdout.clone()) {
        Ok(s) => s,
        Err(e) => fail!("C33:export:invalid-utf8", "{e}"),
    };
    let got: J = match serde_json::from_str(&out_text) {
        Ok(v) => v,
        Err(e) => fail!("C33:export:invalid-json", "{e}: input {text} exported as {out_text}"),
    };
    if let Err(mut f) = compare(&root, &got, "ROOT", t) {
        f.detail = format!("{}\n  input text: {}\n  exported:   {}", f.detail, text.chars().take(600).collect::<String>(), short(&got));
        return Err(f);
    }

    let mut sh = Shape::default();
    scan(&root, 0, 0, &mut sh);
    let classes: [(&str, bool); 16] = [
        ("float", sh.floats > 0),
        ("integer", sh.ints > 0),
        ("uint>i64::MAX", sh.big_uints > 0),
        ("non_ascii_string", sh.non_ascii_str),
        ("non_ascii_key", sh.non_ascii_key),
        ("empty_key", sh.empty_key),
        ("string_needing_escapes", sh.escapes),
        ("astral_char", sh.astral),
        ("array_in_object_in_array", sh.arr_in_obj_in_arr),
        ("subnormal_float", sh.subnormal),
        ("float>=1e300", sh.huge),
        ("integral_valued_float", sh.integral_float),
        ("negative_zero", sh.neg_zero),
        ("float_literal_17+_digits", sh.long_literal),
        ("depth>=4", sh.max_depth >= 4),
        ("escaped_unicode_input", c.esc),
    ];
    for (n, b) in classes {
        if b {
            t.class(n);
        }
    }
    if sh.arr_in_obj_in_arr && sh.floats > 0 && sh.non_ascii_str {
        t.nontrivial();
        if sh.nodes < 40 {
            t.sample = Some(serde_json::json!({"input": text, "exported": got}));
        }
    }
    Ok(())
}

pub fn property(_ctx: &Ctx) -> Property {
    build_cli();
    Property {
        id: "C33",
        level: "exploration",
        rule: "proptest-generated JSON objects (depth <= 5; unicode, empty, escaped and astral keys/strings; arrays; bools; nulls; integers over the full i64 and u64 ranges; finite floats over all exponents incl. subnormals, 1e308, -0.0, integral values, written as shortest, exponent, 17-digit and 25-digit literals; optional \\uXXXX escaping and whitespace) are piped through the real `automerge import` and `automerge export` binaries built from /repo; the exported text is parsed on the harness side with serde_json float_roundtrip and must equal the input: same key sets, array order and lengths, strings, bools/nulls, integers exactly (i64/u64) and still integers, floats still floats and numerically equal to the double the literal denotes (-0.0 == 0.0 accepted, counted). Non-trivial = the input contains an array directly inside an object directly inside an array, a float and a non-ASCII string value; distinct by case fingerprint. evaluations = round trips (2 subprocesses each).",
        assumptions: &[
            "the value a float literal denotes is the nearest double (IEEE round-to-nearest-even), which is what the generated literals (>= 17 significant digits or shortest round-trip) determine uniquely",
            "JSON texts with duplicate keys, lone surrogates, non-finite numbers or integers outside i64/u64 are outside the domain",
            "the sign of zero is not part of a JSON number's value",
        ],
        subs: vec![sub::<Case, _, _>("roundtrip", 1280, 48000, |_| case_strategy(), check)],
    }
}
