//! Byte-level targets (run inside the worker sandbox) and the properties built on them:
//! C13 truncation, C14 corruption, C15 no crash, C16 loaded => consistent, C17 bounded resources, C39 UTF-8.
use super::common::*;
use crate::engine::chunks::{self, T_CHANGE, T_COMPRESSED, T_DOC};
use crate::engine::driver::*;
use crate::engine::graph::Lcg;
use crate::engine::interp::{encoding, Interp};
use crate::engine::mutate::{self, Mut};
use crate::engine::obs::{observe, read_battery};
use crate::engine::program::*;
use crate::engine::worker::{run_in_worker, WOut};
use crate::ensure;
use automerge::sync::{self, SyncDoc};
use automerge::transaction::{CommitOptions, Transactable};
use automerge::{ActorId, AutoCommit, Automerge, Bundle, Change, ChangeHash, Cursor, LoadOptions, ObjId, ObjType, OnPartialLoad, ReadDoc, StringMigration, VerificationMode, ROOT};
use proptest::prelude::*;
use std::str::FromStr;

pub const T_LOAD: u8 = 0;
pub const T_LOAD_INC: u8 = 1;
pub const T_CHANGE_B: u8 = 2;
pub const T_BUNDLE: u8 = 3;
pub const T_MSG: u8 = 4;
pub const T_STATE: u8 = 5;
pub const T_BLOOM: u8 = 6;
pub const T_CURSOR_B: u8 = 7;
pub const T_CURSOR_S: u8 = 8;
pub const T_OBJID: u8 = 9;
pub const T_ACTOR_HASH: u8 = 10;
pub const T_IMPORT: u8 = 11;
pub const T_RESCUE: u8 = 12;
pub const NTARGETS: u8 = 13;
/// harness service (not a test target): re-derive document heads inside the sandbox
pub const T_FIXHEADS: u8 = 100;

/// heads re-derivation runs library code on mutated bytes, so it is done in the worker too
pub fn fix_heads_sandboxed(bytes: &[u8], doc_chunks: &[usize]) -> Option<Vec<u8>> {
    let mut data = vec![doc_chunks.len().min(255) as u8];
    for i in doc_chunks.iter().take(255) {
        data.push(*i as u8);
    }
    data.extend_from_slice(bytes);
    match run_in_worker(T_FIXHEADS, 0, &data, "fix-heads") {
        Ok(o) if o.status == 0 && !o.detail.is_empty() => hex::decode(&o.detail).ok(),
        _ => None,
    }
}

pub const F_IGNORE: u32 = 1;
pub const F_DONTCHECK: u32 = 2;
pub const F_MIGRATE: u32 = 4;
pub const F_DEEP: u32 = 32;
pub const F_STRINGS: u32 = 64;
pub const F_NONEMPTY: u32 = 128;

pub fn target_name(t: u8) -> &'static str {
    match t {
        T_LOAD => "load",
        T_LOAD_INC => "load_incremental",
        T_CHANGE_B => "Change::from_bytes",
        T_BUNDLE => "Bundle::try_from",
        T_MSG => "sync::Message::decode+receive",
        T_STATE => "sync::State::decode",
        T_BLOOM => "BloomFilter::try_from",
        T_CURSOR_B => "Cursor::try_from(bytes)",
        T_CURSOR_S => "Cursor::try_from(str)",
        T_OBJID => "ObjId::try_from",
        T_ACTOR_HASH => "ActorId/ChangeHash parse",
        T_IMPORT => "import/import_obj",
        T_RESCUE => "Automerge::rescue",
        _ => "?",
    }
}

fn obs_fp(d: &Automerge) -> String {
    format!("{:016x}", fp(&format!("{:?}", observe(d, None))))
}

fn doc_info(d: &Automerge) -> String {
    let mut heads: Vec<String> = d.get_heads().iter().map(|h| h.to_string()).collect();
    heads.sort();
    serde_json::json!({"heads": heads, "nchanges": d.get_changes_meta(&[]).len(), "obs": obs_fp(d)}).to_string()
}

fn viol(sig: &str, detail: String) -> WOut {
    WOut { status: 2, sig: sig.to_string(), detail, ..Default::default() }
}

fn utf8_ok(s: &str) -> bool {
    std::str::from_utf8(s.as_bytes()).is_ok()
}

/// C39: every string the document hands out is valid UTF-8
fn strings_battery(d: &Automerge) -> Result<usize, String> {
    let mut n = 0usize;
    let mut objs: Vec<(ObjId, ObjType)> = vec![(ROOT, ObjType::Map)];
    let mut i = 0;
    while i < objs.len() && objs.len() < 300 {
        let (o, ty) = objs[i].clone();
        i += 1;
        match ty {
            ObjType::Map | ObjType::Table => {
                for k in d.keys(&o) {
                    n += 1;
                    if !utf8_ok(&k) {
                        return Err(format!("map key {:?}", k.as_bytes()));
                    }
                    for (v, id) in d.get_all(&o, k.as_str()).unwrap_or_default() {
                        match v {
                            automerge::Value::Object(t) => objs.push((id, t)),
                            automerge::Value::Scalar(s) => {
                                if let automerge::ScalarValue::Str(x) = s.as_ref() {
                                    n += 1;
                                    if !utf8_ok(x) {
                                        return Err(format!("string value {:?}", x.as_bytes()));
                                    }
                                }
                            }
                        }
                    }
                }
            }
            ObjType::List | ObjType::Text => {
                if ty == ObjType::Text {
                    let t = d.text(&o).map_err(|e| e.to_string())?;
                    n += 1;
                    if !utf8_ok(&t) {
                        return Err(format!("text {:?}", t.as_bytes()));
                    }
                    for m in d.marks(&o).unwrap_or_default() {
                        n += 1;
                        if !utf8_ok(m.name()) {
                            return Err(format!("mark name {:?}", m.name().as_bytes()));
                        }
                        if let automerge::ScalarValue::Str(x) = m.value() {
                            if !utf8_ok(x) {
                                return Err(format!("mark value {:?}", x.as_bytes()));
                            }
                        }
                    }
                    if let Ok(sp) = d.spans(&o) {
                        for s in sp {
                            if let automerge::iter::Span::Text { text, .. } = s {
                                n += 1;
                                if !utf8_ok(&text) {
                                    return Err(format!("span text {:?}", text.as_bytes()));
                                }
                            }
                        }
                    }
                }
                for ix in 0..d.length(&o).min(400) {
                    for (v, id) in d.get_all(&o, ix).unwrap_or_default() {
                        match v {
                            automerge::Value::Object(t) => objs.push((id, t)),
                            automerge::Value::Scalar(s) => {
                                if let automerge::ScalarValue::Str(x) = s.as_ref() {
                                    n += 1;
                                    if !utf8_ok(x) {
                                        return Err(format!("string element {:?}", x.as_bytes()));
                                    }
                                }
                            }
                        }
                    }
                }
            }
        }
    }
    for c in d.get_changes(&[]) {
        if let Some(m) = c.message() {
            n += 1;
            if !utf8_ok(m) {
                return Err(format!("change message {:?}", m.as_bytes()));
            }
        }
        n += 1;
        let _ = c.actor_id().to_hex_string();
    }
    let h = format!("{:?}", d.hydrate(None));
    if !utf8_ok(&h) {
        return Err("hydrate debug output".to_string());
    }
    Ok(n)
}

/// C16: a document that loaded behaves like a valid one
fn deep_battery(d: &Automerge) -> Result<(), (String, String)> {
    let enc = d.text_encoding();
    let bat = read_battery(d, None, 7, "C16").map_err(|f| (f.sig, f.detail))?;
    let _ = observe(d, None);
    // historical reads at the heads of up to 4 single changes and at the first half of the heads
    let changes = d.get_changes(&[]);
    for c in changes.iter().rev().take(4) {
        let h = [c.hash()];
        let _ = observe(d, Some(&h));
        read_battery(d, Some(&h), 3, "C16").map_err(|f| (f.sig.replace("C16:", "C16:at-heads:"), f.detail))?;
    }
    // a local edit in every reachable object kind, and a merge with a fork
    let mut a = d.clone().with_actor(ActorId::from(vec![0xC1u8, 6]));
    let mut f = d.fork().with_actor(ActorId::from(vec![0xC1u8, 7]));
    for (doc, val) in [(&mut a, 1i64), (&mut f, 2i64)] {
        let mut tx = doc.transaction();
        let mut done = [false; 3];
        for (o, ty) in bat.objects.iter() {
            let r = match ty {
                ObjType::Map | ObjType::Table if !done[0] => {
                    done[0] = true;
                    tx.put(o, "c16", val)
                }
                ObjType::List if !done[1] => {
                    done[1] = true;
                    let l = tx.length(o);
                    tx.insert(o, l, val)
                }
                ObjType::Text if !done[2] => {
                    done[2] = true;
                    let l = tx.length(o);
                    tx.splice_text(o, l, 0, "z")
                }
                _ => Ok(()),
            };
            if let Err(e) = r {
                return Err(("C16:edit-error".to_string(), format!("edit on a {:?} of a loaded document failed: {e}", ty)));
            }
        }
        tx.commit_with(CommitOptions::default().with_time(0));
    }
    a.merge(&mut f).map_err(|e| ("C16:merge-error".to_string(), format!("merging a fork of a loaded document failed: {e}")))?;
    let _ = observe(&a, None);
    // save / load round trip of the loaded document
    let bytes = d.save();
    let l = Automerge::load_with_options(&bytes, LoadOptions::new().text_encoding(enc)).map_err(|e| ("C16:resave-does-not-load".to_string(), format!("save() of a loaded document does not load: {e}")))?;
    if let Some((kind, diff)) = crate::engine::obs::first_diff(&observe(d, None), &observe(&l, None)) {
        return Err((format!("C16:resave-differs:{kind}"), diff));
    }
    let bytes2 = a.save();
    Automerge::load_with_options(&bytes2, LoadOptions::new().text_encoding(enc)).map_err(|e| ("C16:edited-resave-does-not-load".to_string(), format!("after an edit and a merge, save() does not load: {e}")))?;
    Ok(())
}

fn small_doc() -> AutoCommit {
    let mut d = AutoCommit::new().with_actor(ActorId::from(vec![0x5du8]));
    let l = d.put_object(ROOT, "list", ObjType::List).unwrap();
    let t = d.put_object(ROOT, "text", ObjType::Text).unwrap();
    d.insert(&l, 0, 1).unwrap();
    d.splice_text(&t, 0, 0, "hello").unwrap();
    d.put(ROOT, "k", "v").unwrap();
    d.commit_with(CommitOptions::default().with_time(0));
    d
}

/// 0 = inside the decoder under test, 1 = the input was accepted and the harness is reading the result
static PHASE: std::sync::atomic::AtomicU8 = std::sync::atomic::AtomicU8::new(0);

fn after_load(d: &Automerge, flags: u32, mut out: WOut) -> WOut {
    PHASE.store(1, std::sync::atomic::Ordering::Relaxed);
    out.classes.push("loaded".into());
    out.detail = doc_info(d);
    if flags & F_STRINGS != 0 {
        match strings_battery(d) {
            Ok(n) => out.classes.push(format!("strings_checked:{}", n.min(1))),
            Err(e) => return viol("C39:invalid-utf8-handed-out", format!("a string handed out by a loaded document is not valid UTF-8: {e}")),
        }
    }
    if flags & F_DEEP != 0 {
        if let Err((sig, detail)) = deep_battery(d) {
            return viol(&sig, detail);
        }
        out.classes.push("deep_ok".into());
    }
    out
}

/// child side: run one target on one input; a panic after the input was accepted is marked `post-load:`
pub fn run_target(kind: u8, flags: u32, data: &[u8]) -> WOut {
    PHASE.store(0, std::sync::atomic::Ordering::Relaxed);
    match catch("target", || run_target_inner(kind, flags, data)) {
        Ok(o) => o,
        Err(f) => {
            let post = PHASE.load(std::sync::atomic::Ordering::Relaxed) == 1;
            WOut { status: 2, sig: if post { format!("post-load:{}", f.sig) } else { f.sig }, detail: f.detail, ..Default::default() }
        }
    }
}

fn run_target_inner(kind: u8, flags: u32, data: &[u8]) -> WOut {
    let mut out = WOut::default();
    let enc = encoding(((flags >> 3) & 3) as u8);
    match kind {
        T_LOAD => {
            let mut o = LoadOptions::new().text_encoding(enc);
            if flags & F_IGNORE != 0 {
                o = o.on_partial_load(OnPartialLoad::Ignore);
            }
            if flags & F_DONTCHECK != 0 {
                o = o.verification_mode(VerificationMode::DontCheck);
            }
            if flags & F_MIGRATE != 0 {
                o = o.migrate_strings(StringMigration::ConvertToText);
            }
            match Automerge::load_with_options(data, o) {
                Ok(d) => out = after_load(&d, flags, out),
                Err(e) => {
                    out.status = 1;
                    out.detail = e.to_string();
                }
            }
        }
        T_LOAD_INC => {
            let mut d = if flags & F_NONEMPTY != 0 { small_doc().document().clone() } else { Automerge::new_with_encoding(enc) };
            match d.load_incremental(data) {
                Ok(_) => out = after_load(&d, flags, out),
                Err(e) => {
                    out.status = 1;
                    out.detail = e.to_string();
                }
            }
        }
        T_CHANGE_B => match Change::from_bytes(data.to_vec()) {
            Ok(c) => {
                let e = c.decode();
                let _ = (c.hash(), c.message().map(|m| m.len()), e.operations.len());
                if flags & F_STRINGS != 0 {
                    if let Some(m) = c.message() {
                        if !utf8_ok(m) {
                            return viol("C39:invalid-utf8-handed-out", format!("change message {:?}", m.as_bytes()));
                        }
                    }
                    for o in &e.operations {
                        let s = format!("{:?}", o);
                        if !utf8_ok(&s) {
                            return viol("C39:invalid-utf8-handed-out", "decoded op".to_string());
                        }
                        if let automerge::legacy::Key::Map(k) = &o.key {
                            if !utf8_ok(k) {
                                return viol("C39:invalid-utf8-handed-out", format!("op key {:?}", k.as_bytes()));
                            }
                        }
                        if let automerge::legacy::OpType::Put(automerge::ScalarValue::Str(x)) = &o.action {
                            if !utf8_ok(x) {
                                return viol("C39:invalid-utf8-handed-out", format!("op value {:?}", x.as_bytes()));
                            }
                        }
                        if let automerge::legacy::OpType::MarkBegin(md) = &o.action {
                            if !utf8_ok(&md.name) {
                                return viol("C39:invalid-utf8-handed-out", format!("mark name {:?}", md.name.as_bytes()));
                            }
                        }
                    }
                }
                let mut d = Automerge::new_with_encoding(enc);
                match d.apply_changes([c]) {
                    Ok(()) => out = after_load(&d, flags & !F_DEEP, out),
                    Err(e) => {
                        out.classes.push("parsed-not-applied".into());
                        out.detail = e.to_string();
                    }
                }
            }
            Err(e) => {
                out.status = 1;
                out.detail = e.to_string();
            }
        },
        T_BUNDLE => match Bundle::try_from(data) {
            Ok(b) => match b.to_changes() {
                Ok(chs) => {
                    out.classes.push("bundle_decoded".into());
                    let mut d = Automerge::new_with_encoding(enc);
                    if d.apply_changes(chs).is_ok() {
                        out = after_load(&d, flags & !F_DEEP, out);
                    }
                }
                Err(e) => {
                    out.status = 1;
                    out.detail = e.to_string();
                }
            },
            Err(e) => {
                out.status = 1;
                out.detail = format!("{e:?}");
            }
        },
        T_MSG => match sync::Message::decode(data) {
            Ok(m) => {
                out.classes.push("message_decoded".into());
                let mut d = if flags & F_NONEMPTY != 0 { small_doc().document().clone() } else { Automerge::new_with_encoding(enc) };
                let mut st = sync::State::new();
                match d.receive_sync_message(&mut st, m) {
                    Ok(()) => {
                        let reply = d.generate_sync_message(&mut st);
                        if let Some(r) = reply {
                            let _ = r.encode();
                        }
                        out = after_load(&d, flags & !F_DEEP, out);
                        out.classes.push("message_received".into());
                    }
                    Err(e) => {
                        out.status = 1;
                        out.detail = e.to_string();
                    }
                }
            }
            Err(e) => {
                out.status = 1;
                out.detail = e.to_string();
            }
        },
        T_STATE => match sync::State::decode(data) {
            Ok(s) => {
                let _ = s.encode();
                let mut d = small_doc();
                let mut s = s;
                let _ = d.sync().generate_sync_message(&mut s);
                out.classes.push("state_decoded".into());
            }
            Err(e) => {
                out.status = 1;
                out.detail = e.to_string();
            }
        },
        T_BLOOM => match sync::BloomFilter::try_from(data) {
            Ok(f) => {
                for i in 0..8u8 {
                    let _ = f.contains_hash(&ChangeHash([i.wrapping_mul(37); 32]));
                }
                let _ = f.to_bytes();
                out.classes.push("filter_decoded".into());
            }
            Err(e) => {
                out.status = 1;
                out.detail = e.to_string();
            }
        },
        T_CURSOR_B => match Cursor::try_from(data) {
            Ok(c) => {
                let _ = (c.to_string(), c.to_bytes());
                let d = small_doc();
                if let Ok(Some((_, l))) = d.get(ROOT, "list") {
                    let _ = d.get_cursor_position(&l, &c, None);
                }
                out.classes.push("cursor_decoded".into());
            }
            Err(e) => {
                out.status = 1;
                out.detail = e.to_string();
            }
        },
        T_CURSOR_S => {
            let s = String::from_utf8_lossy(data).to_string();
            match Cursor::try_from(s.as_str()) {
                Ok(c) => {
                    let _ = (c.to_string(), c.to_bytes());
                    let d = small_doc();
                    if let Ok(Some((_, t))) = d.get(ROOT, "text") {
                        let _ = d.get_cursor_position(&t, &c, None);
                    }
                    out.classes.push("cursor_parsed".into());
                }
                Err(e) => {
                    out.status = 1;
                    out.detail = e.to_string();
                }
            }
            let _ = Cursor::try_from(s);
        }
        T_OBJID => match ObjId::try_from(data) {
            Ok(o) => {
                let d = small_doc();
                let _ = (o.to_string(), o.to_bytes(), d.object_type(&o), d.length(&o), d.keys(&o).count());
                out.classes.push("objid_decoded".into());
            }
            Err(e) => {
                out.status = 1;
                out.detail = e.to_string();
            }
        },
        T_ACTOR_HASH => {
            let s = String::from_utf8_lossy(data).to_string();
            let a = ActorId::try_from(s.as_str());
            let a2 = ActorId::from_str(&s);
            let h = ChangeHash::from_str(&s);
            let hb = ChangeHash::try_from(data);
            let _ = ActorId::from(data);
            if a.is_ok() || a2.is_ok() || h.is_ok() || hb.is_ok() {
                out.classes.push("id_parsed".into());
            } else {
                out.status = 1;
            }
        }
        T_IMPORT => {
            let s = String::from_utf8_lossy(data).to_string();
            let d = small_doc();
            let a = d.import(&s);
            let b = d.import_obj(&s);
            if a.is_ok() || b.is_ok() {
                out.classes.push("imported".into());
            } else {
                out.status = 1;
            }
        }
        T_RESCUE => match Automerge::rescue(data) {
            Ok(v) => {
                let s = format!("{:?}", v);
                if flags & F_STRINGS != 0 && !utf8_ok(&s) {
                    return viol("C39:invalid-utf8-handed-out", "rescued value".to_string());
                }
                out.classes.push("rescued".into());
            }
            Err(e) => {
                out.status = 1;
                out.detail = e.to_string();
            }
        },
        T_FIXHEADS => {
            let n = *data.first().unwrap_or(&0) as usize;
            if data.len() > n {
                let idx: Vec<usize> = data[1..1 + n].iter().map(|x| *x as usize).collect();
                if let Some(fixed) = mutate::fix_heads(&data[1 + n..], &idx) {
                    out.detail = hex::encode(fixed);
                }
            }
        }
        _ => {
            out.status = 1;
        }
    }
    out
}

// -------------------------------------------------------------------------------------------- corpus

pub struct Seed {
    pub name: &'static str,
    pub bytes: Vec<u8>,
    pub target: u8,
    pub text: bool,
}

pub fn fixtures() -> &'static Vec<Vec<u8>> {
    static F: std::sync::OnceLock<Vec<Vec<u8>>> = std::sync::OnceLock::new();
    F.get_or_init(|| {
        let mut v = vec![];
        for dir in ["/repo/rust/automerge/tests/fixtures", "/repo/rust/automerge/tests/fuzz-crashers"] {
            if let Ok(rd) = std::fs::read_dir(dir) {
                let mut paths: Vec<_> = rd.filter_map(|e| e.ok()).map(|e| e.path()).collect();
                paths.sort();
                for p in paths {
                    if let Ok(b) = std::fs::read(&p) {
                        if b.len() < 20_000 {
                            v.push(b);
                        }
                    }
                }
            }
        }
        v
    })
}

/// valid encodings of every kind produced by one generated history
pub fn corpus(it: &mut Interp) -> Result<Vec<Seed>, Failure> {
    let mut v = vec![];
    for r in 0..it.reps.len() {
        it.commit(r);
    }
    let enc = it.enc;
    let mut merged = fresh(enc);
    for r in 0..it.reps.len() {
        let mut o = it.reps[r].doc.document().clone();
        catch("merge", || merged.merge(&mut o))?.map_err(|e| Failure::new("harness:merge", e.to_string()))?;
    }
    let changes = merged.get_changes(&[]);
    v.push(Seed { name: "save", bytes: merged.save(), target: T_LOAD, text: false });
    v.push(Seed { name: "save_nocompress", bytes: merged.save_nocompress(), target: T_LOAD, text: false });
    let mut raw = vec![];
    for c in &changes {
        raw.extend_from_slice(c.raw_bytes());
    }
    let d0 = it.reps[0].doc.document().clone();
    let mut inc = d0.save();
    inc.extend_from_slice(&merged.save_after(&d0.get_heads()));
    v.push(Seed { name: "save++save_after", bytes: inc, target: T_LOAD, text: false });
    v.push(Seed { name: "raw_changes", bytes: raw.clone(), target: T_LOAD_INC, text: false });
    {
        // a file of Change::bytes(): changes above 256 bytes are DEFLATE-compressed chunks (type 2). One extra change
        // with a poorly compressible 300-byte value guarantees a compressed chunk whose payload is mostly stored
        // verbatim, so that single-bit flips still inflate and only the checksum can reject them
        let mut d = merged.clone().with_actor(ActorId::from(vec![0xC1u8, 4]));
        let mut rng = Lcg(0x5eed ^ changes.len() as u64);
        let blob: Vec<u8> = (0..300).map(|_| (rng.next() >> 24) as u8).collect();
        let mut tx = d.transaction();
        let _ = tx.put(ROOT, "blob", automerge::ScalarValue::Bytes(blob));
        tx.commit_with(CommitOptions::default().with_time(0));
        let mut file = vec![];
        for c in d.get_changes(&[]) {
            let mut c = c.clone();
            file.extend_from_slice(c.bytes().as_ref());
        }
        v.push(Seed { name: "compressed_changes", bytes: file, target: T_LOAD, text: false });
        // a bundle over the same history: its value column exceeds the 256-byte threshold, so the bundle takes the
        // decoder path for compressed columns (the string columns stay uncompressed and reachable by the mutators)
        let all: Vec<ChangeHash> = d.get_changes(&[]).iter().map(|c| c.hash()).collect();
        if let Ok(b) = d.bundle(all.iter().copied()) {
            v.push(Seed { name: "bundle(compressed column)", bytes: b.bytes().to_vec(), target: T_BUNDLE, text: false });
            v.push(Seed { name: "bundle(compressed column)_as_document", bytes: b.bytes().to_vec(), target: T_LOAD, text: false });
        }
    }
    if let Some(c) = changes.last() {
        v.push(Seed { name: "one_change", bytes: c.raw_bytes().to_vec(), target: T_CHANGE_B, text: false });
        let mut c2 = c.clone();
        v.push(Seed { name: "one_change_bytes()", bytes: c2.bytes().to_vec(), target: T_CHANGE_B, text: false });
    }
    if !changes.is_empty() {
        if let Ok(b) = merged.bundle(changes.iter().map(|c| c.hash())) {
            v.push(Seed { name: "bundle", bytes: b.bytes().to_vec(), target: T_BUNDLE, text: false });
            v.push(Seed { name: "bundle_as_document", bytes: b.bytes().to_vec(), target: T_LOAD, text: false });
        }
    }
    // sync messages of a session between the merged doc and a fresh one
    let mut other = fresh(enc);
    let (mut sa, mut sb) = (sync::State::new(), sync::State::new());
    let mut msgs = vec![];
    for _ in 0..6 {
        if let Some(m) = merged.generate_sync_message(&mut sa) {
            let b = m.encode();
            if let Ok(m2) = sync::Message::decode(&b) {
                let _ = other.receive_sync_message(&mut sb, m2);
            }
            msgs.push(b);
        }
        if let Some(m) = other.generate_sync_message(&mut sb) {
            let b = m.encode();
            if let Ok(m2) = sync::Message::decode(&b) {
                let mut mm = merged.clone();
                let _ = mm.receive_sync_message(&mut sa, m2);
            }
            msgs.push(b);
        }
    }
    if let Some(big) = msgs.iter().max_by_key(|m| m.len()) {
        v.push(Seed { name: "sync_message(changes)", bytes: big.clone(), target: T_MSG, text: false });
    }
    if let Some(first) = msgs.first() {
        v.push(Seed { name: "sync_message(first)", bytes: first.clone(), target: T_MSG, text: false });
    }
    v.push(Seed { name: "sync_state", bytes: sa.encode(), target: T_STATE, text: false });
    let hashes: Vec<ChangeHash> = changes.iter().map(|c| c.hash()).collect();
    v.push(Seed { name: "bloom", bytes: sync::BloomFilter::from_hashes(hashes.iter()).to_bytes(), target: T_BLOOM, text: false });
    // ids and cursors
    let bat = catch("battery", || read_battery(&merged, None, 1, "harness"))??;
    if let Some((o, _)) = bat.objects.iter().find(|(o, _)| *o != ROOT) {
        v.push(Seed { name: "objid_bytes", bytes: o.to_bytes(), target: T_OBJID, text: false });
        v.push(Seed { name: "objid_string", bytes: o.to_string().into_bytes(), target: T_IMPORT, text: true });
    }
    if let Some((o, _)) = bat.objects.iter().find(|(o, ty)| matches!(ty, ObjType::List | ObjType::Text) && merged.length(o) > 0) {
        if let Ok(c) = merged.get_cursor(o, 0, None) {
            v.push(Seed { name: "cursor_bytes", bytes: c.to_bytes(), target: T_CURSOR_B, text: false });
            v.push(Seed { name: "cursor_string", bytes: c.to_string().into_bytes(), target: T_CURSOR_S, text: true });
        }
    }
    if let Some(c) = changes.first() {
        v.push(Seed { name: "actor_hex", bytes: c.actor_id().to_hex_string().into_bytes(), target: T_ACTOR_HASH, text: true });
        v.push(Seed { name: "hash_hex", bytes: c.hash().to_string().into_bytes(), target: T_ACTOR_HASH, text: true });
    }
    v.push(Seed { name: "save(rescue)", bytes: merged.save(), target: T_RESCUE, text: false });
    Ok(v)
}

fn mut_strategy() -> impl Strategy<Value = Mut> {
    prop_oneof![
        3 => (any::<u32>(), any::<u8>()).prop_map(|(pos, bit)| Mut::Flip { pos, bit }),
        2 => (any::<u32>(), any::<u8>()).prop_map(|(pos, val)| Mut::Set { pos, val }),
        1 => any::<u32>().prop_map(|len| Mut::Truncate { len }),
        1 => (any::<u32>(), prop::collection::vec(any::<u8>(), 1..6)).prop_map(|(pos, bytes)| Mut::Insert { pos, bytes }),
        5 => (any::<u8>(), any::<u32>(), any::<u8>()).prop_map(|(chunk, pos, val)| Mut::BodySet { chunk, pos, val }),
        5 => (any::<u8>(), any::<u32>(), any::<u8>()).prop_map(|(chunk, pos, bit)| Mut::BodyFlip { chunk, pos, bit }),
        5 => (any::<u8>(), any::<u32>(), any::<u8>()).prop_map(|(chunk, pos, which)| Mut::BodyLeb { chunk, pos, which }),
        2 => (any::<u8>(), any::<u32>(), prop::collection::vec(any::<u8>(), 1..5)).prop_map(|(chunk, pos, bytes)| Mut::BodyInsert { chunk, pos, bytes }),
        2 => (any::<u8>(), any::<u32>(), any::<u8>()).prop_map(|(chunk, pos, len)| Mut::BodyDelete { chunk, pos, len }),
        8 => (any::<u8>(), any::<u8>(), any::<u8>(), any::<u16>(), any::<u8>(), any::<u8>()).prop_map(|(chunk, col, op, pos, val, which)| Mut::Col { chunk, col, op, pos, val, which }),
        1 => any::<u8>().prop_map(|chunk| Mut::DupChunk { chunk }),
        1 => (any::<u8>(), any::<u8>()).prop_map(|(a, b)| Mut::SwapChunks { a, b }),
    ]
}

fn text_mut(bytes: &[u8], muts: &[Mut]) -> Vec<u8> {
    // strings: only raw edits, result re-interpreted lossily by the target
    let raw: Vec<Mut> = muts.iter().filter(|m| matches!(m, Mut::Flip { .. } | Mut::Set { .. } | Mut::Truncate { .. } | Mut::Insert { .. })).cloned().collect();
    mutate::apply(bytes, &raw).bytes
}

// -------------------------------------------------------------------------------------------- C15 / C17

type FuzzCase = (Program, u16, Vec<Mut>, u8, Vec<u8>);

const CPU_BUDGET_US: u64 = 2_000_000;
/// BatchApply::apply is infallible by design and does not validate a change against the document first, so a
/// well-formed change which is inconsistent with the document (an op on an unknown object, a predecessor which
/// does not exist, ...) panics at whichever internal check it trips first: one root cause, keyed on the call site
fn batch_apply_sig(prop: &str, sig: &str) -> Option<String> {
    if sig.starts_with("panic:rust/automerge/src/op_set2/change/batch.rs:") {
        Some(format!("{prop}:panic:BatchApply(op_set2/change/batch.rs):change-inconsistent-with-the-document"))
    } else {
        None
    }
}

/// load does not validate the op set semantically, so an accepted malformed document misbehaves at whichever
/// internal check it trips first; the findings are keyed on the failing call site (source file) or read relation
fn c16_sig(sig: &str, region: &str) -> String {
    if sig.starts_with("C39:") {
        return sig.to_string();
    }
    let kind = if sig.starts_with("post-load:panic:") {
        "read-or-edit-panics"
    } else if sig.contains("read-consistency") {
        "reads-disagree"
    } else if sig.contains("resave") {
        "save-does-not-round-trip"
    } else if sig.contains("merge-error") || sig.contains("edit-error") {
        "edit-or-merge-fails"
    } else {
        "other"
    };
    let _ = region;
    format!("C16:accepted-malformed-document:{kind}")
}

/// rescue() = load + hydrate in one library call: the C16 root cause (load accepts malformed op sets) surfaces
/// here as a panic or unbounded recursion inside hydrate
const RESCUE_SIG: &str = "C15:Automerge::rescue:hydrating-an-accepted-malformed-document";

fn mem_budget(n: usize) -> u64 {
    (16 << 20) + (64 << 10) * n as u64
}

fn resource_check(prop: &str, o: &WOut, n: usize, tname: &str) -> CaseResult {
    ensure!(o.cpu_us <= CPU_BUDGET_US, format!("{prop}:cpu:{tname}"), "{tname} on {n} bytes used {} ms of CPU (budget {} ms)", o.cpu_us / 1000, CPU_BUDGET_US / 1000);
    ensure!(o.peak <= mem_budget(n), format!("{prop}:memory:{tname}"), "{tname} on {n} bytes allocated a peak of {} bytes (budget 16 MiB + 64 KiB per input byte = {}); biggest single request {}", o.peak, mem_budget(n), o.biggest);
    Ok(())
}

fn seed_and_input(case: &FuzzCase) -> Result<Option<(u8, u32, Vec<u8>, &'static str, mutate::MutResult)>, Failure> {
    let (p, pick, muts, mode, rawbytes) = case;
    let mut it = run_program(p, default_opts())?;
    let mut seeds = corpus(&mut it)?;
    for f in fixtures().iter() {
        seeds.push(Seed { name: "fixture", bytes: f.clone(), target: T_LOAD, text: false });
    }
    let s = &seeds[sel(*pick, seeds.len())];
    let mut flags: u32 = ((p.enc as u32) & 3) << 3;
    let mut target = s.target;
    let name = s.name;
    if mode % 16 == 15 {
        // purely random short input to a target chosen by the mode byte
        let t = (mode >> 4) % NTARGETS;
        let r = mutate::MutResult { bytes: rawbytes.clone(), in_body_with_valid_checksum: false, doc_chunks_changed: vec![], leb_extreme: false, bad_utf8_sites: 0 };
        return Ok(Some((t, flags, rawbytes.clone(), "random", r)));
    }
    let mut res = if s.text { mutate::MutResult { bytes: text_mut(&s.bytes, muts), in_body_with_valid_checksum: false, doc_chunks_changed: vec![], leb_extreme: false, bad_utf8_sites: 0 } } else { mutate::apply(&s.bytes, muts) };
    if target == T_LOAD {
        match mode % 8 {
            1 => flags |= F_IGNORE,
            2 => flags |= F_DONTCHECK,
            // (string migration walks the accepted document: that is C16's subject, see DESIGN.md)
            4 => target = T_LOAD_INC,
            5 => {
                target = T_LOAD_INC;
                flags |= F_NONEMPTY;
            }
            6 => target = T_RESCUE,
            _ => {}
        }
        // re-derive heads so that hash-changing mutations get past the heads check
        if mode & 8 != 0 && !res.doc_chunks_changed.is_empty() {
            if let Some(fixed) = fix_heads_sandboxed(&res.bytes, &res.doc_chunks_changed) {
                res.bytes = fixed;
            }
        }
    } else if target == T_MSG && mode % 2 == 1 {
        flags |= F_NONEMPTY;
    }
    let bytes = res.bytes.clone();
    Ok(Some((target, flags, bytes, name, res)))
}

pub fn check_c15(case: &FuzzCase, t: &mut Tally) -> CaseResult {
    let Some((target, flags, bytes, name, res)) = seed_and_input(case)? else { return Ok(()) };
    let tname = target_name(target);
    let o = run_in_worker(target, flags, &bytes, tname).map_err(|f| if target == T_RESCUE && f.sig.starts_with("abort:stack-overflow") {
        Failure::new(RESCUE_SIG, format!("{tname} on a mutated `{name}` ({} bytes): unbounded recursion while hydrating: {}", bytes.len(), f.detail))
    } else if f.sig.starts_with("abort:") { Failure::new(format!("C15:{}", f.sig), format!("{tname} on a mutated `{name}` ({} bytes, hex prefix {}): {}", bytes.len(), hex::encode(&bytes[..bytes.len().min(48)]), f.detail)) } else { f })?;
    if o.status == 2 && o.sig.starts_with("post-load:") {
        // the decoder returned a value; what the value then does is C16's subject
        t.class("accepted_then_read_panicked(C16)");
        return Ok(());
    }
    if o.status == 2 && target == T_RESCUE && o.sig.starts_with("panic:rust/automerge/src/hydrate") {
        return Err(Failure::new(RESCUE_SIG, format!("{tname} on a mutated `{name}` ({} bytes, hex prefix {}): {}", bytes.len(), hex::encode(&bytes[..bytes.len().min(48)]), o.detail)));
    }
    if o.status == 2 {
        if let Some(sig) = batch_apply_sig("C15", &o.sig) {
            return Err(Failure::new(sig, format!("{} on a mutated `{name}` ({} bytes, hex prefix {}): {}", tname, bytes.len(), hex::encode(&bytes[..bytes.len().min(48)]), o.detail)));
        }
        return Err(Failure::new(format!("C15:{}:{}", tname, o.sig), format!("{} on a mutated `{name}` ({} bytes, hex prefix {}): {}", tname, bytes.len(), hex::encode(&bytes[..bytes.len().min(48)]), o.detail)));
    }
    resource_check("C15", &o, bytes.len(), tname)?;
    t.class(format!("target:{tname}"));
    t.class(if o.status == 0 { "returned_value" } else { "returned_error" });
    for c in &o.classes {
        t.class(c.clone());
    }
    if res.in_body_with_valid_checksum || (case.3 % 16 != 15 && matches!(target, T_CURSOR_S | T_ACTOR_HASH | T_IMPORT | T_CURSOR_B | T_OBJID | T_STATE | T_BLOOM | T_MSG)) {
        t.nontrivial();
        if bytes.len() < 200 {
            t.sample = Some(serde_json::json!({"target": tname, "seed": name, "hex": hex::encode(&bytes), "status": o.status}));
        }
    }
    Ok(())
}

pub fn check_c17(case: &FuzzCase, t: &mut Tally) -> CaseResult {
    // same inputs, restricted to field-extreme mutations (the strategy generates only those); resource oracle only
    let Some((target, flags, bytes, name, res)) = seed_and_input(case)? else { return Ok(()) };
    if bytes.len() > 6000 {
        return Ok(());
    }
    let tname = target_name(target);
    let o = match run_in_worker(target, flags, &bytes, tname) {
        Ok(o) => o,
        Err(f) if target == T_RESCUE && f.sig.starts_with("abort:stack-overflow") => return Err(Failure::new(RESCUE_SIG.replace("C15:", "C17:"), format!("mutated `{name}`: unbounded recursion while hydrating: {}", f.detail))),
        Err(f) if f.sig.contains("allocation-refused") || f.sig.contains("stack-overflow") || f.sig.contains("cpu-limit") => return Err(Failure::new(format!("C17:{}", f.sig), format!("mutated `{name}`, hex {}: {}", hex::encode(&bytes[..bytes.len().min(64)]), f.detail))),
        Err(f) if f.sig.starts_with("abort:") => return Ok(()), // other deaths are C15's business
        Err(f) => return Err(f),
    };
    resource_check("C17", &o, bytes.len(), tname).map_err(|f| Failure::new(f.sig, format!("mutated `{name}`, hex {}: {}", hex::encode(&bytes[..bytes.len().min(64)]), f.detail)))?;
    t.class(format!("target:{tname}"));
    t.class(format!("peak<2^{}", 64 - o.peak.max(1).leading_zeros()));
    if res.leb_extreme && res.in_body_with_valid_checksum || matches!(target, T_BLOOM | T_STATE | T_MSG | T_CURSOR_B | T_OBJID) {
        t.nontrivial();
        if bytes.len() < 160 {
            t.sample = Some(serde_json::json!({"target": tname, "seed": name, "hex": hex::encode(&bytes), "peak_bytes": o.peak, "cpu_us": o.cpu_us}));
        }
    }
    Ok(())
}

// -------------------------------------------------------------------------------------------- C16

pub fn check_c16(case: &FuzzCase, t: &mut Tally) -> CaseResult {
    let (p, pick, muts, mode, _) = case;
    let mut it = run_program(p, default_opts())?;
    let seeds = corpus(&mut it)?;
    let docs: Vec<&Seed> = seeds.iter().filter(|s| s.target == T_LOAD && s.name != "bundle_as_document").collect();
    let s = docs[sel(*pick, docs.len())];
    let mut res = mutate::apply(&s.bytes, muts);
    let region = mutate::regions(&s.bytes, &res.bytes);
    if !res.doc_chunks_changed.is_empty() {
        if let Some(fixed) = fix_heads_sandboxed(&res.bytes, &res.doc_chunks_changed) {
            res.bytes = fixed;
        }
    }
    let flags: u32 = (((p.enc as u32) & 3) << 3) | F_DEEP | F_STRINGS | if mode % 4 == 3 { F_IGNORE } else { 0 };
    let target = if mode % 5 == 4 { T_LOAD_INC } else { T_LOAD };
    let o = match run_in_worker(target, flags, &res.bytes, target_name(target)) {
        Ok(o) => o,
        Err(f) if f.sig.starts_with("abort:") => {
            // the process died inside load: C15 / C17 report that
            t.class("load_itself_aborted(C15/C17)");
            return Ok(());
        }
        Err(f) => return Err(f),
    };
    if o.status == 2 {
        if !(o.sig.starts_with("C16:") || o.sig.starts_with("C39:") || o.sig.starts_with("post-load:")) {
            // a panic inside load itself is C15's subject
            t.class("load_itself_panicked(C15)");
            return Ok(());
        }
        let sig = c16_sig(&o.sig, &region);
        return Err(Failure::new(sig, format!("mutated `{}` ({} bytes, mutated region: {region}) loaded but then: {}", s.name, res.bytes.len(), o.detail)));
    }
    t.class(if o.status == 0 { "loaded" } else { "rejected" });
    if o.status == 0 && res.bytes != s.bytes {
        t.class("loaded_and_differs_from_original_bytes");
        t.nontrivial();
        let orig = run_in_worker(T_LOAD, ((p.enc as u32) & 3) << 3, &s.bytes, "load")?;
        if orig.detail != o.detail {
            t.class("loaded_document_differs");
        }
        if res.bytes.len() < 400 {
            t.sample = Some(serde_json::json!({"seed": s.name, "mutations": format!("{:?}", muts), "len": res.bytes.len()}));
        }
    }
    Ok(())
}

// -------------------------------------------------------------------------------------------- C39

type Utf8Case = (Program, u16, u16, u8, u8);

pub fn check_c39(case: &Utf8Case, t: &mut Tally) -> CaseResult {
    let (p, pick, nth, style, mode) = case;
    let mut it = run_program(p, default_opts())?;
    let seeds = corpus(&mut it)?;
    let cands: Vec<&Seed> = seeds.iter().filter(|s| matches!(s.target, T_LOAD | T_LOAD_INC | T_CHANGE_B | T_BUNDLE | T_MSG)).collect();
    let s = cands[sel(*pick, cands.len())];
    let mut res = mutate::apply(&s.bytes, &[Mut::BadUtf8 { nth: *nth, style: *style }]);
    if res.bad_utf8_sites == 0 || !res.in_body_with_valid_checksum {
        t.class("no_marker_site");
        return Ok(());
    }
    if !res.doc_chunks_changed.is_empty() && mode % 2 == 0 {
        if let Some(fixed) = fix_heads_sandboxed(&res.bytes, &res.doc_chunks_changed) {
            res.bytes = fixed;
        }
    }
    let mut flags: u32 = (((p.enc as u32) & 3) << 3) | F_STRINGS;
    let mut target = s.target;
    if target == T_LOAD {
        match mode % 6 {
            1 => flags |= F_IGNORE,
            2 => flags |= F_DONTCHECK,
            3 => target = T_LOAD_INC,
            4 => target = T_RESCUE,
            _ => {}
        }
    }
    let tname = target_name(target);
    let o = match run_in_worker(target, flags, &res.bytes, tname) {
        Ok(o) => o,
        Err(f) if f.sig.starts_with("abort:") => {
            t.class("decoder_aborted(C15/C17)");
            return Ok(());
        }
        Err(f) => return Err(f),
    };
    if o.status == 2 && !o.sig.starts_with("C39:") {
        // a panic is not a string handed out: C15 (in the decoder) / C16 (after load) report it
        t.class("panicked_instead(C15/C16)");
        return Ok(());
    }
    if o.status == 2 {
        let sig = format!("{}:{}", o.sig, tname);
        return Err(Failure::new(sig, format!("`{}` with invalid UTF-8 written over a string ({} bytes): {}", s.name, res.bytes.len(), o.detail)));
    }
    t.class(format!("target:{tname}"));
    t.class(if o.status == 0 { "accepted_with_valid_strings" } else { "rejected" });
    t.nontrivial();
    if res.bytes.len() < 300 {
        t.sample = Some(serde_json::json!({"seed": s.name, "target": tname, "hex": hex::encode(&res.bytes), "status": o.status}));
    }
    Ok(())
}

// -------------------------------------------------------------------------------------------- C13 / C14

type FileCase = (Program, u64);

/// writer file = full save of replica 0 at some point + incremental pieces written afterwards
fn build_file(p: &Program, seed: u64) -> Result<(Vec<u8>, automerge::TextEncoding), Failure> {
    let mut rng = Lcg(seed);
    let mut opts = default_opts();
    opts.max_reps = p.nrep.clamp(1, 5) as usize + 1;
    let mut it = Interp::new(p, opts);
    let mut file: Option<Vec<u8>> = None;
    for (i, s) in p.steps.iter().enumerate() {
        if (s.k == FORK || s.k == SAVE_LOAD) && (s.r as usize) % it.reps.len() == 0 {
            continue;
        }
        catch(&format!("step {i}"), || it.step(s))?;
        if it.reps[0].isolated.is_some() {
            continue;
        }
        match (&mut file, rng.below(4)) {
            (None, 0) | (None, 1) => {
                it.commit(0);
                file = Some(it.reps[0].doc.save());
            }
            (Some(f), 0) | (Some(f), 1) => {
                it.commit(0);
                let b = it.reps[0].doc.save_incremental();
                f.extend_from_slice(&b);
            }
            _ => {}
        }
    }
    it.commit(0);
    let mut f = match file {
        Some(f) => f,
        None => it.reps[0].doc.save(),
    };
    f.extend_from_slice(&it.reps[0].doc.save_incremental());
    Ok((f, it.enc))
}

pub fn check_c13(case: &FileCase, t: &mut Tally) -> CaseResult {
    let (p, seed) = case;
    let (file, enc) = build_file(p, *seed)?;
    if file.len() > 6000 {
        return Ok(());
    }
    let (chunks, end) = chunks::split(&file);
    ensure!(end == file.len(), "C13:harness:file-does-not-parse", "the harness chunk parser stops at {end} of {}", file.len());
    // expected state after k complete chunks: a fresh document fed the changes of those chunks
    let encflag = ((p.enc as u32) & 3) << 3;
    let mut expected: Vec<String> = vec![];
    {
        let mut d = Automerge::load_with_options(&file[..chunks[0].end], LoadOptions::new().text_encoding(enc)).map_err(|e| Failure::new("C13:harness:first-chunk-does-not-load", e.to_string()))?;
        expected.push(doc_info(&d));
        for c in &chunks[1..] {
            let piece = &file[c.start..c.end];
            let ch = match c.ty {
                T_CHANGE | T_COMPRESSED => Change::from_bytes(piece.to_vec()).map_err(|e| Failure::new("C13:harness:chunk-does-not-parse", e.to_string()))?,
                _ => return Ok(()), // only change chunks follow a save in these files
            };
            d.apply_changes([ch]).map_err(|e| Failure::new("C13:harness:apply", e.to_string()))?;
            expected.push(doc_info(&d));
        }
    }
    let empty_info = doc_info(&Automerge::new_with_encoding(enc));
    let boundaries: Vec<usize> = chunks.iter().map(|c| c.end).collect();
    let mut inside_later_chunk = 0u64;
    for cut in 0..=file.len() {
        let prefix = &file[..cut];
        let complete = boundaries.iter().filter(|b| **b <= cut).count();
        let at_boundary = cut == 0 || boundaries.contains(&cut);
        // partial loads allowed
        let o = run_in_worker(T_LOAD, encflag | F_IGNORE, prefix, "load(Ignore)")?;
        ensure!(o.status != 2, format!("C13:ignore:{}", o.sig), "load(Ignore) of the first {cut} of {} bytes: {}", file.len(), o.detail);
        if cut == 0 {
            ensure!(o.status == 0 && o.detail == empty_info, "C13:ignore:empty-prefix", "loading an empty prefix with OnPartialLoad::Ignore: status {} {}", o.status, o.detail);
        } else if complete == 0 {
            ensure!(o.status == 1, "C13:ignore:cut-inside-first-chunk-accepted", "a cut at {cut} inside the first chunk (ends at {}) loaded: {}", boundaries[0], o.detail);
        } else {
            ensure!(o.status == 0, "C13:ignore:rejected", "a cut at {cut} after {complete} complete chunk(s) was rejected with OnPartialLoad::Ignore: {}", o.detail);
            if o.detail != expected[complete - 1] {
                let kind = if at_boundary { "at-boundary" } else if complete == 1 { "cut-in-chunk-2" } else { "cut-in-later-chunk" };
                return Err(Failure::new(format!("C13:ignore:state:{kind}"), format!("cut at {cut} of {} ({complete} complete chunks of {}): loaded {} but the document as of the last complete chunk is {}", file.len(), chunks.len(), o.detail, expected[complete - 1])));
            }
        }
        // strict
        let o = run_in_worker(T_LOAD, encflag, prefix, "load(Error)")?;
        ensure!(o.status != 2, format!("C13:strict:{}", o.sig), "strict load of the first {cut} bytes: {}", o.detail);
        if at_boundary {
            ensure!(o.status == 0, "C13:strict:boundary-rejected", "strict load at chunk boundary {cut} failed: {}", o.detail);
            let want = if cut == 0 { &empty_info } else { &expected[complete - 1] };
            ensure!(&o.detail == want, "C13:strict:state", "strict load at boundary {cut}: {} vs expected {}", o.detail, want);
        } else {
            ensure!(o.status == 1, "C13:strict:mid-chunk-accepted", "strict load of a file cut at {cut} (not a chunk boundary; boundaries {:?}) succeeded", boundaries);
        }
        if !at_boundary && complete >= 1 {
            inside_later_chunk += 1;
            t.nontrivial_fp(fp(&(prefix.len(), fp_bytes(&file))));
        }
        t.extra_evals += 2;
    }
    t.class(format!("chunks:{}", chunks.len().min(6)));
    if inside_later_chunk > 0 && t.sample.is_none() {
        t.sample = Some(serde_json::json!({"file_len": file.len(), "chunk_boundaries": boundaries, "cuts_inside_later_chunks": inside_later_chunk}));
    }
    Ok(())
}

pub fn check_c14(case: &(Program, u64, u8, bool), t: &mut Tally) -> CaseResult {
    let (p, seed, which, exhaustive) = case;
    let mut it = run_program(p, default_opts())?;
    let enc_flag = ((p.enc as u32) & 3) << 3;
    let seeds = corpus(&mut it)?;
    let names = ["save", "save_nocompress", "save++save_after", "bundle_as_document", "compressed_changes"];
    let name = names[(*which as usize) % names.len()];
    let Some(s) = seeds.iter().find(|s| s.name == name) else { return Ok(()) };
    let file = &s.bytes;
    if file.len() > 4096 || file.is_empty() {
        return Ok(());
    }
    let orig = run_in_worker(T_LOAD, enc_flag, file, "load")?;
    ensure!(orig.status == 0, "C14:harness:original-does-not-load", "{name} does not load: {}", orig.detail);
    let (chunks, _) = chunks::split(file);
    let mut rng = Lcg(*seed);
    for pos in 0..file.len() {
        if !*exhaustive && rng.below(4) != 0 {
            continue;
        }
        let chunk = chunks.iter().find(|c| c.start <= pos && pos < c.end);
        let in_data = chunk.map(|c| pos >= c.data_start).unwrap_or(false);
        let compressed_change = chunk.map(|c| c.ty == T_COMPRESSED).unwrap_or(false);
        for bit in 0..8u8 {
            let mut m = file.clone();
            m[pos] ^= 1 << bit;
            let o = run_in_worker(T_LOAD, enc_flag, &m, "load")?;
            t.extra_evals += 1;
            if o.status == 2 {
                return Err(Failure::new(format!("C14:{}:{}", if name.starts_with("bundle") { "bundle" } else { "document" }, o.sig), format!("{name}: flipping bit {bit} of byte {pos} of {}: {}", file.len(), o.detail)));
            }
            if o.status == 0 {
                let differs = o.detail != orig.detail;
                if compressed_change && !differs {
                    // DEFLATE padding bits of a compressed change chunk are not covered by its checksum (not asserted)
                    t.class("compressed_change_padding_bit_accepted_same_document");
                    continue;
                }
                return Err(Failure::new(format!("C14:accepted:{}:{}", if differs { "different-document" } else { "same-document" }, name), format!("{name}: flipping bit {bit} of byte {pos} of {} still loads ({})", file.len(), if differs { format!("as a DIFFERENT document: {} vs {}", o.detail, orig.detail) } else { "as the same document".to_string() })));
            }
            if in_data {
                t.nontrivial_fp(fp(&(pos, bit, fp_bytes(file))));
            }
        }
        // a random byte overwrite at this position
        let mut m = file.clone();
        let v = (rng.next() & 0xff) as u8;
        if v != m[pos] {
            m[pos] = v;
            let o = run_in_worker(T_LOAD, enc_flag, &m, "load")?;
            t.extra_evals += 1;
            ensure!(o.status != 2, format!("C14:{}:{}", if name.starts_with("bundle") { "bundle" } else { "document" }, o.sig), "{name}: overwriting byte {pos}: {}", o.detail);
            if o.status == 0 && !(compressed_change && o.detail == orig.detail) {
                return Err(Failure::new(format!("C14:accepted-byte-overwrite:{name}"), format!("{name}: overwriting byte {pos} with {v:#x} still loads: {}", o.detail)));
            }
        }
    }
    t.class(format!("file:{name}"));
    if t.sample.is_none() {
        t.sample = Some(serde_json::json!({"file": name, "len": file.len(), "chunks": chunks.len()}));
    }
    Ok(())
}

fn fuzz_strategy(max_steps: usize, leb_only: bool) -> impl Strategy<Value = FuzzCase> {
    let muts = if leb_only {
        prop::collection::vec(
            prop_oneof![
                (any::<u8>(), any::<u32>(), any::<u8>()).prop_map(|(chunk, pos, which)| Mut::BodyLeb { chunk, pos, which }),
                (any::<u8>(), any::<u8>(), any::<u16>(), any::<u8>()).prop_map(|(chunk, col, pos, which)| Mut::Col { chunk, col, op: 2, pos, val: 0, which }),
            ],
            1..3,
        )
        .boxed()
    } else {
        prop::collection::vec(mut_strategy(), 1..4).boxed()
    };
    (program_strategy(HISTORY, max_steps, 3, 4), any::<u16>(), muts, any::<u8>(), prop::collection::vec(any::<u8>(), 0..40))
}

pub fn property_c13(_ctx: &Ctx) -> Property {
    Property {
        id: "C13",
        level: "fault_enumeration",
        rule: "files = a full save of a generated writer followed by the save_incremental pieces it wrote afterwards (chunk boundaries from the harness's own container parser); EVERY byte offset 0..=len is a crash point, each loaded (in a sandboxed worker) with OnPartialLoad::Ignore and with the strict default. Ignore: empty prefix => empty document; cut inside the first chunk => Err; otherwise Ok with heads, change count and observation fingerprint equal to a fresh document fed exactly the chunks completely inside the cut. Strict: Ok iff the cut is a chunk boundary (with the same expected state). Never a panic/abort. Non-trivial = a cut strictly inside a chunk other than the first; distinct by (file, offset). evaluations counts loads.",
        assumptions: &["files longer than 6000 bytes are skipped (cost)"],
        subs: vec![sub::<FileCase, _, _>("truncate", 48, 1600, |c| (program_strategy(STORAGE, if c.thorough() { 40 } else { 25 }, 2, 4), any::<u64>()), check_c13)],
    }
}

pub fn property_c14(_ctx: &Ctx) -> Property {
    Property {
        id: "C14",
        level: "fault_enumeration",
        rule: "outputs of save, save_nocompress, save ++ save_after (raw change chunks) and bundle().bytes() of generated histories, at most 4 kB; every single-bit flip of every byte (thorough) or of a generated 25 % of the bytes (quick), plus one random byte overwrite per visited position; each corrupted file is loaded with the strict default Automerge::load in a sandboxed worker: the result must be Err — Ok is a violation (classified by whether the document differs), a panic/abort is a violation. Non-trivial = the flipped bit lies in chunk data (not magic / checksum / type / length); distinct by (file, position, bit). evaluations counts loads.",
        assumptions: &["a 4-byte checksum collision combined with a hash-neutral corruption could in principle pass; probability < 3e-4 over 10^6 flips", "flips in DEFLATE padding bits of compressed change chunks that decode to the identical change are not counted (checksum covers the inflated data)"],
        subs: vec![sub::<(Program, u64, u8, bool), _, _>("bitflip", 64, 640, |c| {
            let ex = c.thorough();
            (program_strategy(STORAGE, 30, 3, 4), any::<u64>(), any::<u8>(), Just(ex))
        }, check_c14)],
    }
}

pub fn property_c15(_ctx: &Ctx) -> Property {
    Property {
        id: "C15",
        level: "exploration",
        rule: "inputs = valid encodings of every kind produced by a generated history (saves with and without DEFLATE, save ++ save_after, raw and compressed changes, bundles, sync messages with changes, sync state, Bloom filter, object id / cursor bytes and strings, actor and hash hex) and the in-tree fixtures and fuzz crashers, put through 1-3 generated mutations (raw bit/byte/truncate/insert; inside chunk bodies with the container checksum recomputed: byte, bit, LEB128 extremes, insert, delete; inside one document column with lengths re-encoded; chunk duplication/reordering; optional re-derivation of the document heads so that the heads check passes), plus short random inputs; targets: load (default, Ignore, DontCheck, string migration, each encoding), load_incremental (empty and non-empty receiver), Change::from_bytes + decode + apply, Bundle::try_from + to_changes, sync Message::decode + receive + generate, State::decode, BloomFilter::try_from + contains_hash, Cursor::try_from (bytes, str), ObjId::try_from, ActorId / ChangeHash parsing, import / import_obj, Automerge::rescue. Every call runs in a sandboxed worker process: it must return a value or an error — no panic, abort, stack overflow, > 10 s CPU or > 64 MiB + 64 KiB/byte heap. Non-trivial = the mutation is inside chunk data with a valid checksum, or a structured non-chunk input; distinct by case.",
        assumptions: &["worker deaths are confirmed 3 times; watchdog (60 s wall) kills are reported as inconclusive, not as violations"],
        subs: vec![sub::<FuzzCase, _, _>("mutated", 24000, 600000, |c| fuzz_strategy(if c.thorough() { 40 } else { 20 }, false), check_c15)],
    }
}

pub fn property_c16(_ctx: &Ctx) -> Property {
    Property {
        id: "C16",
        level: "exploration",
        rule: "valid documents (save, save_nocompress, save ++ save_after of generated histories) mutated with emphasis on regions that change hashes or are not covered by them (column bytes, run lengths, counts, succ / head-index / metadata columns, unknown columns, compression flags) with the container checksum recomputed and the document heads re-derived (load_unverified_heads + get_changes) so that default verification passes. If load / load_incremental returns Ok in the sandboxed worker, the document must behave like a valid one: the full read battery (observation + ranges, values, hydrate, parents, iter, cursors, marks) at current and historical heads without panic or inconsistency, a local edit in a map, a list and a text, a merge with an edited fork, save() that loads back to an equal observation, valid UTF-8 strings. Non-trivial = the input differs from the original bytes AND loads (class loaded_document_differs counts those that load as a different document); distinct by case.",
        assumptions: &["nothing is asserted about load_unverified_heads itself (used only to re-derive heads)"],
        subs: vec![sub::<FuzzCase, _, _>("mutated-docs", 16000, 400000, |c| fuzz_strategy(if c.thorough() { 40 } else { 20 }, false), check_c16)],
    }
}

pub fn property_c17(_ctx: &Ctx) -> Property {
    Property {
        id: "C17",
        level: "fault_enumeration",
        rule: "the C15 corpus (inputs <= 6 kB) with field-extreme mutations only: a LEB128 anywhere in a chunk body or document column replaced by one of {0, 1, 0x7f, 2^31-1, 2^32-1, 2^62, 2^63, 2^64-1} with the container checksum (and heads) fixed up, and short random inputs for the small decoders (Bloom filter, sync state, cursor, object id, sync message). Oracle in the sandboxed worker with a counting allocator: peak heap <= 64 MiB + 64 KiB per input byte, thread CPU <= 10 s, no single allocation request >= 1 GiB (refused deterministically by the allocator), no stack overflow. Budgets are >= 100x the maxima measured on valid inputs of these sizes (< 1 MiB, < 50 ms). Non-trivial = a count/length field set to an extreme with a valid container checksum, or a small-decoder input; distinct by case.",
        assumptions: &["sampled, not exhaustive, over (offset, extreme value) pairs in quick; the space per file is enumerated by the generator over many cases"],
        subs: vec![sub::<FuzzCase, _, _>("field-extremes", 24000, 600000, |c| fuzz_strategy(if c.thorough() { 40 } else { 20 }, true), check_c17)],
    }
}

pub fn property_c39(_ctx: &Ctx) -> Property {
    Property {
        id: "C39",
        level: "exploration",
        rule: "documents (compressed and not), save ++ save_after files, raw and compressed change chunks, bundles and sync messages of generated histories whose strings come from a table of recognisable markers (keys k0/k1, mark names bold/link, text and values with é, 漢, 😀, 'hello', 'xyz', 'list'); one occurrence of a marker inside a chunk body is overwritten in place with invalid UTF-8 of the same length (0xFF, overlong C0 80, surrogate ED A0 80, bad continuation, F0 80 80 80), the container checksum is recomputed and (half of the cases) the document heads re-derived; targets load (default, Ignore, DontCheck), load_incremental, rescue, Change::from_bytes + decode + apply, Bundle::try_from, Message::decode + receive. Oracle in the worker: the call fails, or every string handed out afterwards (keys, string values, text, span text, mark names and values, change messages, decoded ops, hydrate) passes std::str::from_utf8. Non-trivial = an invalid sequence was written inside a string position of an input whose container checks pass; distinct by case.",
        assumptions: &["marker bytes can also occur outside string columns (e.g. inside an actor id); those cases exercise the no-crash oracle only"],
        subs: vec![sub::<Utf8Case, _, _>("bad-utf8", 16000, 400000, |c| (program_strategy(HISTORY, if c.thorough() { 40 } else { 20 }, 3, 4), any::<u16>(), any::<u16>(), any::<u8>(), any::<u8>()), check_c39)],
    }
}
