use automerge::{transaction::Transactable, *};
fn main() {
    let mut d = AutoCommit::new().with_actor(ActorId::from(vec![1u8]));
    let t = d.put_object(ROOT, "t", ObjType::Text).unwrap();
    d.splice_text(&t, 0, 0, "ab").unwrap();
    d.commit();
    d.splice_text(&t, 0, 0, "x").unwrap();
    d.rollback();
    d.commit(); d.commit();
    let b = d.split_block(&t, 0).unwrap();
    println!("block id {b} text {:?} len {}", d.text(&t), d.length(&t));
    for i in 0..d.length(&t) {
        let c = d.get_cursor(&t, i, None);
        println!("  cursor({i}) = {:?} -> {:?}", c.as_ref().map(|c| c.to_string()), c.as_ref().ok().map(|c| d.get_cursor_position(&t, c, None)));
    }
    let c = Cursor::try_from(b.to_string().as_str()).unwrap();
    println!("cursor from block id {c}: {:?}", d.get_cursor_position(&t, &c, None));
    d.commit();
    println!("after commit: {:?}", d.get_cursor_position(&t, &c, None));
}
