use amverif::engine::driver::{install_panic_hook, replay_file, run_property, Ctx, Tier};
use amverif::props;

#[global_allocator]
static GLOBAL: amverif::engine::alloc::Counting = amverif::engine::alloc::Counting;

fn main() {
    let args: Vec<String> = std::env::args().collect();
    if args.len() >= 2 && args[1] == "--worker" {
        install_panic_hook();
        amverif::engine::worker::worker_main(amverif::props::bytes::run_target);
    }
    if args.len() < 3 {
        eprintln!("usage: amverif <ID> quick|thorough | amverif <ID> --replay <path>");
        std::process::exit(2);
    }
    install_panic_hook();
    amverif::engine::worker::register(amverif::props::bytes::run_target);
    let id = args[1].to_uppercase();
    let seed: u64 = std::env::var("VERIF_SEED").ok().and_then(|s| s.parse().ok()).unwrap_or(1);
    if args[2] == "--replay" {
        let ctx = Ctx { id: id.clone(), tier: Tier::Quick, seed };
        let Some(p) = props::property(&id, &ctx) else {
            eprintln!("unknown property {id}");
            std::process::exit(2);
        };
        std::process::exit(replay_file(p, &args[3]));
    }
    let tier = match std::env::var("VERIF_TIER").ok().as_deref().or(Some(args[2].as_str())) {
        Some("thorough") => Tier::Thorough,
        _ => Tier::Quick,
    };
    let tier = if args[2] == "thorough" { Tier::Thorough } else if args[2] == "quick" { Tier::Quick } else { tier };
    let ctx = Ctx { id: id.clone(), tier, seed };
    let Some(p) = props::property(&id, &ctx) else {
        eprintln!("unknown property {id}");
        std::process::exit(2);
    };
    std::process::exit(run_property(p, &ctx));
}
