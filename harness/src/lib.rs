pub mod engine;
pub mod props;
