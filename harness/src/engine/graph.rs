//! Harness-side change graph built only from (hash, deps, actor, seq, start_op, len).
use automerge::{Change, ChangeHash};
use std::collections::{BTreeSet, HashMap, HashSet};

#[derive(Clone, Debug)]
pub struct Node {
    pub hash: ChangeHash,
    pub deps: Vec<ChangeHash>,
    pub actor: Vec<u8>,
    pub seq: u64,
    pub start_op: u64,
    pub len: usize,
}

#[derive(Clone, Debug, Default)]
pub struct Graph {
    pub nodes: HashMap<ChangeHash, Node>,
}

impl Graph {
    pub fn from_changes<'a>(changes: impl IntoIterator<Item = &'a Change>) -> Self {
        let mut g = Graph::default();
        for c in changes {
            g.add(c);
        }
        g
    }
    pub fn add(&mut self, c: &Change) {
        self.nodes.insert(
            c.hash(),
            Node {
                hash: c.hash(),
                deps: c.deps().to_vec(),
                actor: c.actor_id().to_bytes().to_vec(),
                seq: c.seq(),
                start_op: c.start_op().get(),
                len: c.len(),
            },
        );
    }
    pub fn ancestors(&self, heads: &[ChangeHash]) -> HashSet<ChangeHash> {
        let mut seen = HashSet::new();
        let mut st: Vec<ChangeHash> = heads.to_vec();
        while let Some(x) = st.pop() {
            if self.nodes.contains_key(&x) && seen.insert(x) {
                st.extend(self.nodes[&x].deps.iter().copied());
            }
        }
        seen
    }
    /// hashes in `set` that no member of `set` depends on, sorted
    pub fn heads_of(&self, set: &HashSet<ChangeHash>) -> Vec<ChangeHash> {
        let mut depended: HashSet<ChangeHash> = HashSet::new();
        for h in set {
            if let Some(n) = self.nodes.get(h) {
                depended.extend(n.deps.iter().copied());
            }
        }
        let mut v: Vec<ChangeHash> = set.iter().filter(|h| !depended.contains(h)).copied().collect();
        v.sort();
        v
    }
    /// deterministic topological order of `set` (deps first; ties by hash)
    pub fn topo(&self, set: &HashSet<ChangeHash>) -> Vec<ChangeHash> {
        let mut done: HashSet<ChangeHash> = HashSet::new();
        let mut out = vec![];
        let mut ready: BTreeSet<ChangeHash> = BTreeSet::new();
        let mut remaining: BTreeSet<ChangeHash> = set.iter().copied().collect();
        loop {
            ready.clear();
            for h in &remaining {
                if self.nodes[h].deps.iter().all(|d| done.contains(d) || !set.contains(d)) {
                    ready.insert(*h);
                }
            }
            if ready.is_empty() {
                break;
            }
            for h in &ready {
                remaining.remove(h);
                done.insert(*h);
                out.push(*h);
            }
        }
        out
    }
    /// largest causally closed subset of `set` (w.r.t. deps all inside the subset)
    pub fn closed_subset(&self, set: &HashSet<ChangeHash>) -> HashSet<ChangeHash> {
        let mut ok: HashSet<ChangeHash> = set.clone();
        loop {
            let bad: Vec<ChangeHash> = ok
                .iter()
                .filter(|h| self.nodes.get(h).map(|n| n.deps.iter().any(|d| !ok.contains(d))).unwrap_or(true))
                .copied()
                .collect();
            if bad.is_empty() {
                return ok;
            }
            for b in bad {
                ok.remove(&b);
            }
        }
    }
    pub fn concurrent(&self, a: &ChangeHash, b: &ChangeHash) -> bool {
        a != b && !self.ancestors(&[*a]).contains(b) && !self.ancestors(&[*b]).contains(a)
    }
}

/// deterministic permutation helper (a pure function of the generated seed value)
pub struct Lcg(pub u64);
impl Lcg {
    pub fn next(&mut self) -> u64 {
        self.0 = self.0.wrapping_mul(6364136223846793005).wrapping_add(1442695040888963407);
        let mut x = self.0;
        x ^= x >> 33;
        x = x.wrapping_mul(0xff51afd7ed558ccd);
        x ^= x >> 33;
        x
    }
    pub fn below(&mut self, n: usize) -> usize {
        if n == 0 {
            0
        } else {
            (self.next() % n as u64) as usize
        }
    }
    pub fn shuffle<T>(&mut self, v: &mut [T]) {
        for i in (1..v.len()).rev() {
            let j = self.below(i + 1);
            v.swap(i, j);
        }
    }
}
