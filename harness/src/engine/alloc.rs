//! Counting global allocator: per-thread current / peak / total bytes, and a hard refusal of absurd
//! single requests (so that "a few bytes trigger a multi-gigabyte allocation" is a deterministic,
//! machine-independent event instead of an OOM kill).
use std::alloc::{GlobalAlloc, Layout, System};
use std::cell::Cell;

pub struct Counting;

use std::sync::atomic::{AtomicUsize, Ordering};

/// single allocations above this are refused (null => the caller aborts with "memory allocation failed")
pub const REFUSE_ABOVE: usize = 1 << 30;
/// the cap in force (the worker lowers it per input; the parent keeps the default)
static CAP: AtomicUsize = AtomicUsize::new(REFUSE_ABOVE);
/// live bytes of one thread above which further requests are refused
static LIVE_CAP: AtomicUsize = AtomicUsize::new(usize::MAX);

pub fn set_caps(single: usize, live: usize) {
    CAP.store(single.min(REFUSE_ABOVE), Ordering::Relaxed);
    LIVE_CAP.store(live, Ordering::Relaxed);
}

thread_local! {
    static IN_REFUSAL: Cell<bool> = const { Cell::new(false) };
}

/// print the refusal marker and the innermost library frame that asked for the memory
unsafe fn refuse(size: usize) {
    if IN_REFUSAL.try_with(|f| f.replace(true)).unwrap_or(true) {
        return;
    }
    let msg = format_refusal(size);
    libc::write(2, msg.as_ptr() as *const libc::c_void, msg.len());
    let bt = std::backtrace::Backtrace::force_capture().to_string();
    let site = bt
        .lines()
        .map(|l| l.trim())
        .filter_map(|l| l.split_once(": ").map(|x| x.1))
        .find(|l| (l.starts_with("automerge::") || l.starts_with("hexane::") || l.starts_with("<automerge::") || l.starts_with("<hexane::")) && !l.contains("{{closure}}"))
        .unwrap_or("unknown")
        .to_string();
    let line = format!("VERIF-ALLOC-SITE {site}\n");
    libc::write(2, line.as_ptr() as *const libc::c_void, line.len());
    // the caller would abort via handle_alloc_error anyway (after symbolising a second backtrace)
    libc::abort();
}

fn over(size: usize) -> bool {
    if IN_REFUSAL.try_with(|f| f.get()).unwrap_or(false) {
        return false;
    }
    size > CAP.load(Ordering::Relaxed) || (CUR.try_with(|c| c.get()).unwrap_or(0) as usize).saturating_add(size) > LIVE_CAP.load(Ordering::Relaxed)
}

thread_local! {
    static CUR: Cell<u64> = const { Cell::new(0) };
    static PEAK: Cell<u64> = const { Cell::new(0) };
    static TOTAL: Cell<u64> = const { Cell::new(0) };
    static BIGGEST: Cell<u64> = const { Cell::new(0) };
}

unsafe impl GlobalAlloc for Counting {
    unsafe fn alloc(&self, l: Layout) -> *mut u8 {
        if over(l.size()) {
            refuse(l.size());
            return std::ptr::null_mut();
        }
        let p = System.alloc(l);
        if !p.is_null() {
            note_alloc(l.size() as u64);
        }
        p
    }
    unsafe fn dealloc(&self, p: *mut u8, l: Layout) {
        System.dealloc(p, l);
        let _ = CUR.try_with(|c| c.set(c.get().saturating_sub(l.size() as u64)));
    }
    unsafe fn realloc(&self, p: *mut u8, l: Layout, new: usize) -> *mut u8 {
        if new > l.size() && over(new) {
            refuse(new);
            return std::ptr::null_mut();
        }
        let q = System.realloc(p, l, new);
        if !q.is_null() {
            let _ = CUR.try_with(|c| c.set(c.get().saturating_sub(l.size() as u64)));
            note_alloc(new as u64);
        }
        q
    }
}

fn note_alloc(n: u64) {
    let _ = CUR.try_with(|c| {
        let v = c.get() + n;
        c.set(v);
        let _ = PEAK.try_with(|p| {
            if v > p.get() {
                p.set(v)
            }
        });
    });
    let _ = TOTAL.try_with(|t| t.set(t.get() + n));
    let _ = BIGGEST.try_with(|b| {
        if n > b.get() {
            b.set(n)
        }
    });
}

/// no allocation here: fixed buffer
fn format_refusal(size: usize) -> [u8; 48] {
    let mut buf = *b"VERIF-ALLOC-REFUSED size=                     \n\0";
    let mut digits = [0u8; 20];
    let mut n = size;
    let mut i = 0;
    loop {
        digits[i] = b'0' + (n % 10) as u8;
        n /= 10;
        i += 1;
        if n == 0 {
            break;
        }
    }
    for k in 0..i {
        buf[25 + k] = digits[i - 1 - k];
    }
    let mut out = [b' '; 48];
    out.copy_from_slice(&buf[..48]);
    out
}

/// reset the per-thread counters; returns nothing
pub fn reset() {
    CUR.with(|c| {
        let cur = c.get();
        PEAK.with(|p| p.set(cur));
    });
    TOTAL.with(|t| t.set(0));
    BIGGEST.with(|b| b.set(0));
}

/// (bytes above the level at reset, total allocated, biggest single request) since `reset`
pub fn snapshot() -> (u64, u64, u64) {
    let cur = CUR.with(|c| c.get());
    let peak = PEAK.with(|p| p.get());
    let _ = cur;
    (peak, TOTAL.with(|t| t.get()), BIGGEST.with(|b| b.get()))
}

pub fn current() -> u64 {
    CUR.with(|c| c.get())
}

pub fn thread_cpu_us() -> u64 {
    let mut ts = libc::timespec { tv_sec: 0, tv_nsec: 0 };
    unsafe {
        libc::clock_gettime(libc::CLOCK_THREAD_CPUTIME_ID, &mut ts);
    }
    ts.tv_sec as u64 * 1_000_000 + ts.tv_nsec as u64 / 1000
}

pub fn process_cpu_us() -> u64 {
    let mut ts = libc::timespec { tv_sec: 0, tv_nsec: 0 };
    unsafe {
        libc::clock_gettime(libc::CLOCK_PROCESS_CPUTIME_ID, &mut ts);
    }
    ts.tv_sec as u64 * 1_000_000 + ts.tv_nsec as u64 / 1000
}
