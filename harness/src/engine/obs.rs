//! Canonical observation of a document through `ReadDoc` only.
use automerge::{ChangeHash, ObjId, ObjType, ReadDoc, ScalarValue, Value, ROOT};
use std::collections::BTreeMap;

pub type Id = (u64, Vec<u8>);

#[derive(Clone, Debug, PartialEq)]
pub enum OVal {
    Scalar(String),
    Counter(i64),
    Obj(Box<ONode>),
}

thread_local! {
    /// number of text observations in which marks() disagreed with the marks carried by spans() (see `observe`)
    pub static STALE_MARKS: std::cell::Cell<u64> = const { std::cell::Cell::new(0) };
}

/// read and reset the counter of marks()/spans() disagreements seen by `observe` on this thread
pub fn take_stale_marks() -> u64 {
    STALE_MARKS.with(|c| c.replace(0))
}

#[derive(Clone, Debug, PartialEq)]
pub struct OText {
    pub text: String,
    pub len: usize,
    /// (start offset, visible values ascending by id) per visible element
    pub elems: Vec<(usize, Vec<(Id, OVal)>)>,
    /// per unit position: mark name -> rendered value
    pub marks: Vec<BTreeMap<String, String>>,
    /// rendered spans (not produced by the reference reading)
    pub spans: Option<Vec<String>>,
}

#[derive(Clone, Debug, PartialEq)]
pub enum ONode {
    Map(BTreeMap<String, Vec<(Id, OVal)>>),
    List(Vec<Vec<(Id, OVal)>>),
    Text(OText),
}

pub fn exid(e: &ObjId) -> Id {
    match e {
        ObjId::Root => (0, vec![]),
        ObjId::Id(c, a, _) => (*c, a.to_bytes().to_vec()),
    }
}

pub fn render_scalar(s: &ScalarValue) -> String {
    match s {
        ScalarValue::F64(f) => format!("F64(bits={:#x})", f.to_bits()),
        ScalarValue::Counter(c) => format!("Counter({})", i64::from(c)),
        x => format!("{:?}", x),
    }
}

fn val<D: ReadDoc>(doc: &D, v: &Value<'_>, id: &ObjId, heads: Option<&[ChangeHash]>, depth: usize) -> OVal {
    match v {
        Value::Object(t) => OVal::Obj(Box::new(node(doc, id, *t, heads, depth + 1))),
        Value::Scalar(s) => match s.as_ref() {
            ScalarValue::Counter(c) => OVal::Counter(i64::from(c)),
            x => OVal::Scalar(render_scalar(x)),
        },
    }
}

fn reg<D: ReadDoc>(doc: &D, vals: Vec<(Value<'_>, ObjId)>, heads: Option<&[ChangeHash]>, depth: usize) -> Vec<(Id, OVal)> {
    vals.iter().map(|(v, id)| (exid(id), val(doc, v, id, heads, depth))).collect()
}

/// canonical (key-sorted) rendering of a hydrate value, including conflict flags
pub fn render_hydrate(v: &automerge::hydrate::Value) -> String {
    use automerge::hydrate::Value as H;
    match v {
        H::Scalar(s) => render_scalar(s),
        H::Map(m) => {
            let mut e: Vec<(String, String)> =
                m.iter().map(|(k, mv)| (k.clone(), format!("{}{}", render_hydrate(&mv.value), if mv.conflict { "!" } else { "" }))).collect();
            e.sort();
            format!("{{{}}}", e.iter().map(|(k, v)| format!("{k:?}: {v}")).collect::<Vec<_>>().join(", "))
        }
        H::List(l) => format!(
            "[{}]",
            l.iter().map(|lv| format!("{}{}", render_hydrate(&lv.value), if lv.conflict { "!" } else { "" })).collect::<Vec<_>>().join(", ")
        ),
        H::Text(t) => format!("Text({:?})", t.to_string()),
    }
}

pub fn render_span(s: &automerge::iter::Span) -> String {
    match s {
        automerge::iter::Span::Text { text, marks } => {
            let m: Vec<String> = marks
                .as_ref()
                .map(|ms| ms.iter().map(|(n, v)| format!("{n}={}", render_scalar(v))).collect())
                .unwrap_or_default();
            format!("Text({text:?} marks=[{}])", m.join(","))
        }
        automerge::iter::Span::Block(m) => format!("Block({})", render_hydrate(&automerge::hydrate::Value::Map(m.clone()))),
    }
}

pub fn render_mark_value(s: &ScalarValue) -> String {
    render_scalar(s)
}

pub fn node<D: ReadDoc>(doc: &D, obj: &ObjId, t: ObjType, heads: Option<&[ChangeHash]>, depth: usize) -> ONode {
    if depth > 24 {
        return ONode::Map(BTreeMap::new());
    }
    match t {
        ObjType::Map | ObjType::Table => {
            let keys: Vec<String> = match heads {
                None => doc.keys(obj).collect(),
                Some(h) => doc.keys_at(obj, h).collect(),
            };
            let mut m = BTreeMap::new();
            for k in keys {
                let vals = match heads {
                    None => doc.get_all(obj, k.as_str()),
                    Some(h) => doc.get_all_at(obj, k.as_str(), h),
                }
                .unwrap_or_default();
                m.insert(k, reg(doc, vals, heads, depth));
            }
            ONode::Map(m)
        }
        ObjType::List => {
            let len = match heads {
                None => doc.length(obj),
                Some(h) => doc.length_at(obj, h),
            };
            let mut l = vec![];
            for i in 0..len {
                let vals = match heads {
                    None => doc.get_all(obj, i),
                    Some(h) => doc.get_all_at(obj, i, h),
                }
                .unwrap_or_default();
                l.push(reg(doc, vals, heads, depth));
            }
            ONode::List(l)
        }
        ObjType::Text => {
            let len = match heads {
                None => doc.length(obj),
                Some(h) => doc.length_at(obj, h),
            };
            let text = match heads {
                None => doc.text(obj),
                Some(h) => doc.text_at(obj, h),
            }
            .unwrap_or_else(|e| format!("<text error {e}>"));
            let mut elems: Vec<(usize, Vec<(Id, OVal)>)> = vec![];
            let mut last: Option<Id> = None;
            for i in 0..len {
                let g = match heads {
                    None => doc.get(obj, i),
                    Some(h) => doc.get_at(obj, i, h),
                };
                if let Ok(Some((_, id))) = g {
                    let id = exid(&id);
                    if last.as_ref() != Some(&id) {
                        last = Some(id);
                        let vals = match heads {
                            None => doc.get_all(obj, i),
                            Some(h) => doc.get_all_at(obj, i, h),
                        }
                        .unwrap_or_default();
                        elems.push((i, reg(doc, vals, heads, depth)));
                    }
                }
            }
            let ms = match heads {
                None => doc.marks(obj),
                Some(h) => doc.marks_at(obj, h),
            }
            .unwrap_or_default();
            let mut marks = vec![BTreeMap::new(); len];
            for m in &ms {
                for p in m.start..m.end {
                    if p < len {
                        marks[p].insert(m.name().to_string(), render_mark_value(m.value()));
                    } else {
                        // record out-of-range marks so they show up in comparisons
                        marks.push(BTreeMap::from([(format!("!beyond-end:{}", m.name()), format!("{}..{}", m.start, m.end))]));
                        break;
                    }
                }
            }
            let raw_spans: Option<Vec<automerge::iter::Span>> = match heads {
                None => doc.spans(obj).map(|s| s.collect::<Vec<_>>()),
                Some(h) => doc.spans_at(obj, h).map(|s| s.collect::<Vec<_>>()),
            }
            .ok();
            // marks() is answered from the live mark index, spans() from the ops: a known defect leaves the index
            // stale after some batch merges (finding recorded under C02). So that the one root cause is reported once
            // (by C02) instead of by every property that compares observations, the text-derived marks of spans() are
            // taken when the two disagree, and the disagreement is counted for C02 to pick up.
            if let Some(sp) = &raw_spans {
                let enc = doc.text_encoding();
                let mut from_spans: Vec<Option<BTreeMap<String, String>>> = vec![];
                for x in sp {
                    match x {
                        automerge::iter::Span::Text { text, marks: ms } => {
                            let w = crate::engine::refdoc::width(enc, text);
                            let mut m = BTreeMap::new();
                            if let Some(ms) = ms {
                                for (name, value) in ms.iter() {
                                    m.insert(name.to_string(), render_mark_value(value));
                                }
                            }
                            for _ in 0..w {
                                from_spans.push(Some(m.clone()));
                            }
                        }
                        automerge::iter::Span::Block(_) => {
                            for _ in 0..crate::engine::refdoc::width(enc, "\u{fffc}") {
                                from_spans.push(None); // spans say nothing about marks on a block marker
                            }
                        }
                    }
                }
                if from_spans.len() == len && marks.len() == len {
                    let differs = from_spans.iter().zip(marks.iter()).any(|(a, b)| a.as_ref().map(|a| a != b).unwrap_or(false));
                    if differs {
                        STALE_MARKS.with(|c| c.set(c.get() + 1));
                        for (i, a) in from_spans.into_iter().enumerate() {
                            if let Some(a) = a {
                                marks[i] = a;
                            }
                        }
                    }
                }
            }
            let spans = raw_spans.map(|s| s.iter().map(render_span).collect::<Vec<_>>());
            ONode::Text(OText { text, len, elems, marks, spans })
        }
    }
}

pub fn observe<D: ReadDoc>(doc: &D, heads: Option<&[ChangeHash]>) -> ONode {
    node(doc, &ROOT, ObjType::Map, heads, 0)
}

impl ONode {
    /// drop op ids and spans (for comparisons across documents whose ids legitimately differ)
    pub fn strip_ids(&self) -> ONode {
        fn sv(v: &OVal) -> OVal {
            match v {
                OVal::Obj(n) => OVal::Obj(Box::new(n.strip_ids())),
                x => x.clone(),
            }
        }
        fn sr(r: &[(Id, OVal)]) -> Vec<(Id, OVal)> {
            r.iter().map(|(_, v)| ((0, vec![]), sv(v))).collect()
        }
        match self {
            ONode::Map(m) => ONode::Map(m.iter().map(|(k, r)| (k.clone(), sr(r))).collect()),
            ONode::List(l) => ONode::List(l.iter().map(|r| sr(r)).collect()),
            ONode::Text(t) => ONode::Text(OText {
                text: t.text.clone(),
                len: t.len,
                elems: t.elems.iter().map(|(i, r)| (*i, sr(r))).collect(),
                marks: t.marks.clone(),
                spans: None,
            }),
        }
    }
    pub fn without_spans(&self) -> ONode {
        fn sv(v: &OVal) -> OVal {
            match v {
                OVal::Obj(n) => OVal::Obj(Box::new(n.without_spans())),
                x => x.clone(),
            }
        }
        fn sr(r: &[(Id, OVal)]) -> Vec<(Id, OVal)> {
            r.iter().map(|(i, v)| (i.clone(), sv(v))).collect()
        }
        match self {
            ONode::Map(m) => ONode::Map(m.iter().map(|(k, r)| (k.clone(), sr(r))).collect()),
            ONode::List(l) => ONode::List(l.iter().map(|r| sr(r)).collect()),
            ONode::Text(t) => ONode::Text(OText { spans: None, elems: t.elems.iter().map(|(i, r)| (*i, sr(r))).collect(), ..t.clone() }),
        }
    }
}

fn short<T: std::fmt::Debug>(t: &T) -> String {
    let s = format!("{:?}", t);
    if s.len() > 400 {
        format!("{}…", s.chars().take(400).collect::<String>())
    } else {
        s
    }
}

/// First difference between two observations: (kind, human description)
pub fn first_diff(a: &ONode, b: &ONode) -> Option<(String, String)> {
    fn regs(path: &str, x: &[(Id, OVal)], y: &[(Id, OVal)]) -> Option<(String, String)> {
        if x.len() != y.len() {
            return Some(("conflict-set-size".into(), format!("{path}: {} vs {}", short(&x), short(&y))));
        }
        for ((ia, va), (ib, vb)) in x.iter().zip(y.iter()) {
            if ia != ib {
                return Some(("op-id".into(), format!("{path}: id {:?} vs {:?}", ia, ib)));
            }
            match (va, vb) {
                (OVal::Obj(na), OVal::Obj(nb)) => {
                    if let Some(d) = go(&format!("{path}"), na, nb) {
                        return Some(d);
                    }
                }
                (OVal::Counter(p), OVal::Counter(q)) if p != q => {
                    return Some(("counter".into(), format!("{path}: counter {p} vs {q}")))
                }
                (p, q) if p != q => return Some(("value".into(), format!("{path}: {} vs {}", short(p), short(q)))),
                _ => {}
            }
        }
        None
    }
    fn go(path: &str, a: &ONode, b: &ONode) -> Option<(String, String)> {
        match (a, b) {
            (ONode::Map(x), ONode::Map(y)) => {
                let kx: Vec<_> = x.keys().collect();
                let ky: Vec<_> = y.keys().collect();
                if kx != ky {
                    return Some(("keys".into(), format!("{path}: keys {:?} vs {:?}", kx, ky)));
                }
                for (k, rx) in x {
                    if let Some(d) = regs(&format!("{path}/{k:?}"), rx, &y[k]) {
                        return Some(d);
                    }
                }
                None
            }
            (ONode::List(x), ONode::List(y)) => {
                if x.len() != y.len() {
                    return Some(("list-length".into(), format!("{path}: list length {} vs {}", x.len(), y.len())));
                }
                for (i, (rx, ry)) in x.iter().zip(y.iter()).enumerate() {
                    if let Some(d) = regs(&format!("{path}[{i}]"), rx, ry) {
                        return Some(d);
                    }
                }
                None
            }
            (ONode::Text(x), ONode::Text(y)) => {
                if x.text != y.text {
                    return Some(("text".into(), format!("{path}: text {:?} vs {:?}", x.text, y.text)));
                }
                if x.len != y.len {
                    return Some(("text-length".into(), format!("{path}: text length {} vs {} (text {:?})", x.len, y.len, x.text)));
                }
                if x.elems.len() != y.elems.len() {
                    return Some(("text-elements".into(), format!("{path}: {} vs {} elements: {} vs {}", x.elems.len(), y.elems.len(), short(&x.elems), short(&y.elems))));
                }
                for (i, ((sx, rx), (sy, ry))) in x.elems.iter().zip(y.elems.iter()).enumerate() {
                    if sx != sy {
                        return Some(("text-element-offset".into(), format!("{path}: element {i} starts at {sx} vs {sy}")));
                    }
                    if let Some(d) = regs(&format!("{path}<{i}>"), rx, ry) {
                        return Some(d);
                    }
                }
                if x.marks != y.marks {
                    return Some(("marks".into(), format!("{path}: text {:?} marks {} vs {}", x.text, short(&x.marks), short(&y.marks))));
                }
                if let (Some(sx), Some(sy)) = (&x.spans, &y.spans) {
                    if sx != sy {
                        return Some(("spans".into(), format!("{path}: spans {} vs {}", short(sx), short(sy))));
                    }
                }
                None
            }
            (x, y) => Some(("object-type".into(), format!("{path}: {} vs {}", short(x), short(y)))),
        }
    }
    go("", a, b)
}

// ---------------------------------------------------------------------------------------------
// Extended read battery: every other read API, rendered canonically, with internal cross-checks
// against `get_all` (winner = last entry, conflict = more than one entry).

use crate::engine::driver::Failure;

fn rv(v: &Value<'_>) -> String {
    match v {
        Value::Object(t) => format!("obj({:?})", t),
        Value::Scalar(s) => render_scalar(s.as_ref()),
    }
}

pub struct Battery {
    pub lines: Vec<String>,
    pub objects: Vec<(ObjId, ObjType)>,
}

/// `pick` drives sub-range choices deterministically
pub fn read_battery<D: ReadDoc>(doc: &D, heads: Option<&[ChangeHash]>, pick: u64, prop: &str) -> Result<Battery, Failure> {
    let mut lines = vec![];
    let mut objects: Vec<(ObjId, ObjType)> = vec![(ROOT, ObjType::Map)];
    let mut i = 0;
    let bad = |api: &str, msg: String| Failure::new(format!("{prop}:read-consistency:{api}"), msg);
    while i < objects.len() && objects.len() < 200 {
        let (obj, ty) = objects[i].clone();
        i += 1;
        let oid = exid(&obj);
        // hydrate / parents
        let hy = doc.hydrate(&obj, heads).map(|v| render_hydrate(&v)).unwrap_or_else(|e| format!("Err({e})"));
        lines.push(format!("{:?} hydrate {}", oid, hy));
        let par = match heads {
            None => doc.parents(&obj).map(|p| p.map(|x| format!("{:?}/{:?}/{:?}/{}", exid(&x.obj), x.typ, x.prop, x.visible)).collect::<Vec<_>>()),
            Some(h) => doc.parents_at(&obj, h).map(|p| p.map(|x| format!("{:?}/{:?}/{:?}/{}", exid(&x.obj), x.typ, x.prop, x.visible)).collect::<Vec<_>>()),
        };
        lines.push(format!("{:?} parents {:?}", oid, par.map_err(|e| e.to_string())));
        match ty {
            ObjType::Map | ObjType::Table => {
                let keys: Vec<String> = match heads {
                    None => doc.keys(&obj).collect(),
                    Some(h) => doc.keys_at(&obj, h).collect(),
                };
                let mut winners = vec![];
                for k in &keys {
                    let all = match heads {
                        None => doc.get_all(&obj, k.as_str()),
                        Some(h) => doc.get_all_at(&obj, k.as_str(), h),
                    }
                    .map_err(|e| bad("get_all", format!("get_all({k:?}) failed: {e}")))?;
                    let one = match heads {
                        None => doc.get(&obj, k.as_str()),
                        Some(h) => doc.get_at(&obj, k.as_str(), h),
                    }
                    .map_err(|e| bad("get", format!("get({k:?}) failed: {e}")))?;
                    let w = all.last().map(|(v, id)| (rv(v), exid(id)));
                    let g = one.as_ref().map(|(v, id)| (rv(v), exid(id)));
                    if w != g {
                        return Err(bad("get-vs-get_all", format!("obj {:?} key {k:?}: get = {:?} but last of get_all = {:?}", oid, g, w)));
                    }
                    if all.is_empty() {
                        return Err(bad("keys-vs-get_all", format!("obj {:?}: key {k:?} listed by keys() but get_all is empty", oid)));
                    }
                    for (v, id) in &all {
                        if let Value::Object(t) = v {
                            if !objects.iter().any(|(o, _)| o == id) {
                                objects.push((id.clone(), *t));
                            }
                        }
                    }
                    winners.push((k.clone(), w.unwrap(), all.len() > 1));
                }
                let mr: Vec<(String, (String, Id), bool)> = match heads {
                    None => doc.map_range(&obj, ..).map(|it| (it.key.to_string(), (format_vr(&it.value), exid(&it.id())), it.conflict)).collect(),
                    Some(h) => doc.map_range_at(&obj, .., h).map(|it| (it.key.to_string(), (format_vr(&it.value), exid(&it.id())), it.conflict)).collect(),
                };
                if mr != winners {
                    return Err(bad("map_range", format!("obj {:?}: map_range(..) = {:?} but winners from keys/get_all = {:?}", oid, mr, winners)));
                }
                if keys.len() >= 2 {
                    let a = (pick as usize) % keys.len();
                    let b = a + ((pick >> 8) as usize) % (keys.len() - a);
                    let sub: Vec<String> = match heads {
                        None => doc.map_range(&obj, keys[a].clone()..keys[b].clone()).map(|it| it.key.to_string()).collect(),
                        Some(h) => doc.map_range_at(&obj, keys[a].clone()..keys[b].clone(), h).map(|it| it.key.to_string()).collect(),
                    };
                    if sub != keys[a..b].to_vec() {
                        return Err(bad("map_range-subrange", format!("obj {:?}: map_range({:?}..{:?}) = {:?}, expected {:?}", oid, keys[a], keys[b], sub, &keys[a..b])));
                    }
                }
                let vals: Vec<(String, Id)> = match heads {
                    None => doc.values(&obj).map(|(v, id)| (rv(&v), exid(&id))).collect(),
                    Some(h) => doc.values_at(&obj, h).map(|(v, id)| (rv(&v), exid(&id))).collect(),
                };
                let wv: Vec<(String, Id)> = winners.iter().map(|(_, w, _)| w.clone()).collect();
                if vals != wv {
                    return Err(bad("values", format!("obj {:?}: values() = {:?} but winners = {:?}", oid, vals, wv)));
                }
                lines.push(format!("{:?} map {:?}", oid, winners));
            }
            ObjType::List => {
                let len = match heads {
                    None => doc.length(&obj),
                    Some(h) => doc.length_at(&obj, h),
                };
                let mut winners = vec![];
                for ix in 0..len {
                    let all = match heads {
                        None => doc.get_all(&obj, ix),
                        Some(h) => doc.get_all_at(&obj, ix, h),
                    }
                    .map_err(|e| bad("get_all", format!("get_all({ix}) failed: {e}")))?;
                    let one = match heads {
                        None => doc.get(&obj, ix),
                        Some(h) => doc.get_at(&obj, ix, h),
                    }
                    .map_err(|e| bad("get", format!("get({ix}) failed: {e}")))?;
                    let w = all.last().map(|(v, id)| (rv(v), exid(id)));
                    let g = one.as_ref().map(|(v, id)| (rv(v), exid(id)));
                    if w != g || w.is_none() {
                        return Err(bad("get-vs-get_all", format!("list {:?}[{ix}] (len {len}): get = {:?} but last of get_all = {:?}", oid, g, w)));
                    }
                    for (v, id) in &all {
                        if let Value::Object(t) = v {
                            if !objects.iter().any(|(o, _)| o == id) {
                                objects.push((id.clone(), *t));
                            }
                        }
                    }
                    winners.push((ix, w.unwrap(), all.len() > 1));
                }
                let lr: Vec<(usize, (String, Id), bool)> = match heads {
                    None => doc.list_range(&obj, ..).map(|it| (it.index, (format_vr(&it.value), exid(&it.id())), it.conflict)).collect(),
                    Some(h) => doc.list_range_at(&obj, .., h).map(|it| (it.index, (format_vr(&it.value), exid(&it.id())), it.conflict)).collect(),
                };
                if lr != winners {
                    return Err(bad("list_range", format!("list {:?}: list_range(..) = {:?} but winners by index = {:?}", oid, lr, winners)));
                }
                if len >= 2 {
                    let a = (pick as usize) % len;
                    let b = a + ((pick >> 8) as usize) % (len - a + 1);
                    let sub: Vec<usize> = match heads {
                        None => doc.list_range(&obj, a..b).map(|it| it.index).collect(),
                        Some(h) => doc.list_range_at(&obj, a..b, h).map(|it| it.index).collect(),
                    };
                    if sub != (a..b).collect::<Vec<_>>() {
                        return Err(bad("list_range-subrange", format!("list {:?}: list_range({a}..{b}) gave indexes {:?}", oid, sub)));
                    }
                }
                let vals: Vec<(String, Id)> = match heads {
                    None => doc.values(&obj).map(|(v, id)| (rv(&v), exid(&id))).collect(),
                    Some(h) => doc.values_at(&obj, h).map(|(v, id)| (rv(&v), exid(&id))).collect(),
                };
                let wv: Vec<(String, Id)> = winners.iter().map(|(_, w, _)| w.clone()).collect();
                if vals != wv {
                    return Err(bad("values", format!("list {:?}: values() = {:?} but winners = {:?}", oid, vals, wv)));
                }
                // cursors at a few positions
                for ix in [0usize, (pick as usize) % (len + 1), len] {
                    if ix < len {
                        let c = doc.get_cursor(&obj, ix, heads).map_err(|e| bad("get_cursor", format!("list {:?}: get_cursor({ix}) of {len}: {e}", oid)))?;
                        let p = doc.get_cursor_position(&obj, &c, heads).map_err(|e| bad("get_cursor_position", format!("list {:?}: position of cursor({ix}): {e}", oid)))?;
                        if p != ix {
                            return Err(bad("cursor-roundtrip", format!("list {:?}: get_cursor_position(get_cursor({ix})) = {p}", oid)));
                        }
                        lines.push(format!("{:?} cursor({ix})={}", oid, c));
                    }
                }
                lines.push(format!("{:?} list {:?}", oid, winners));
            }
            ObjType::Text => {
                let len = match heads {
                    None => doc.length(&obj),
                    Some(h) => doc.length_at(&obj, h),
                };
                let ms = match heads {
                    None => doc.marks(&obj),
                    Some(h) => doc.marks_at(&obj, h),
                }
                .map_err(|e| bad("marks", e.to_string()))?;
                let mut last: Option<Id> = None;
                for ix in 0..len {
                    let g = match heads {
                        None => doc.get(&obj, ix),
                        Some(h) => doc.get_at(&obj, ix, h),
                    }
                    .map_err(|e| bad("get", format!("text {:?}: get({ix}) of {len}: {e}", oid)))?;
                    let Some((v, id)) = g else { return Err(bad("get", format!("text {:?}: get({ix}) of {len} is None", oid))) };
                    if let Value::Object(t) = &v {
                        if !objects.iter().any(|(o, _)| *o == id) {
                            objects.push((id.clone(), *t));
                        }
                    }
                    let start = last.as_ref() != Some(&exid(&id));
                    last = Some(exid(&id));
                    if !start {
                        // indexes inside a multi-unit character are not asserted (DESIGN C24 "Not asserted")
                        continue;
                    }
                    // get_marks(i) must agree with marks()
                    let gm = doc.get_marks(&obj, ix, heads).map_err(|e| bad("get_marks", format!("text {:?}: get_marks({ix}): {e}", oid)))?;
                    let mut a: Vec<(String, String)> = gm.iter().map(|(n, v)| (n.to_string(), render_scalar(v))).filter(|(_, v)| v != "Null").collect();
                    a.sort();
                    let mut b: Vec<(String, String)> = ms.iter().filter(|m| m.start <= ix && ix < m.end).map(|m| (m.name().to_string(), render_scalar(m.value()))).collect();
                    b.sort();
                    if a != b {
                        return Err(bad("get_marks-vs-marks", format!("text {:?} position {ix}: get_marks = {:?} but marks() covering it = {:?}", oid, a, b)));
                    }
                    if start {
                        let c = doc.get_cursor(&obj, ix, heads).map_err(|e| bad("get_cursor", format!("text {:?}: get_cursor({ix}) of {len}: {e}", oid)))?;
                        let p = doc.get_cursor_position(&obj, &c, heads).map_err(|e| bad("get_cursor_position", format!("text {:?}: position of cursor({ix}): {e}", oid)))?;
                        if p != ix {
                            return Err(bad("cursor-roundtrip", format!("text {:?}: get_cursor_position(get_cursor({ix})) = {p}", oid)));
                        }
                        lines.push(format!("{:?} cursor({ix})={}", oid, c));
                    }
                }
            }
        }
    }
    // whole-document iterator
    let items: Vec<String> = doc
        .iter_at(&ROOT, heads)
        .map(|it| {
            let o = exid(&it.obj);
            match &it.item {
                automerge::iter::DocItem::Map(m) => format!("{:?} map {:?}={} c={} id={:?}", o, m.key, format_vr(&m.value), m.conflict, exid(&m.id())),
                automerge::iter::DocItem::List(l) => format!("{:?} list [{}]={} c={} id={:?}", o, l.index, format_vr(&l.value), l.conflict, exid(&l.id())),
                automerge::iter::DocItem::Text(s) => format!("{:?} text {}", o, render_span(s)),
            }
        })
        .collect();
    lines.push(format!("iter {:?}", items));
    Ok(Battery { lines, objects })
}

fn format_vr(v: &automerge::ValueRef<'_>) -> String {
    rv(&v.clone().into_value())
}

/// objects reachable from ROOT through winning values only (what a materialised view contains)
pub fn winner_objects<D: ReadDoc>(doc: &D, heads: Option<&[ChangeHash]>) -> Vec<(ObjId, ObjType)> {
    let mut out: Vec<(ObjId, ObjType)> = vec![(ROOT, ObjType::Map)];
    let mut i = 0;
    while i < out.len() && out.len() < 200 {
        let (obj, ty) = out[i].clone();
        i += 1;
        let mut push = |g: Result<Option<(Value<'_>, ObjId)>, automerge::AutomergeError>| {
            if let Ok(Some((Value::Object(t), id))) = g {
                if !out.iter().any(|(o, _)| *o == id) {
                    out.push((id, t));
                }
            }
        };
        match ty {
            ObjType::Map | ObjType::Table => {
                let keys: Vec<String> = match heads {
                    None => doc.keys(&obj).collect(),
                    Some(h) => doc.keys_at(&obj, h).collect(),
                };
                for k in keys {
                    push(match heads {
                        None => doc.get(&obj, k.as_str()),
                        Some(h) => doc.get_at(&obj, k.as_str(), h),
                    });
                }
            }
            ObjType::List => {
                let len = match heads {
                    None => doc.length(&obj),
                    Some(h) => doc.length_at(&obj, h),
                };
                for ix in 0..len {
                    push(match heads {
                        None => doc.get(&obj, ix),
                        Some(h) => doc.get_at(&obj, ix, h),
                    });
                }
            }
            ObjType::Text => {}
        }
    }
    out
}
