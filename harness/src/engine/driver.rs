//! Shared driver: seeded proptest exploration sharded over threads, panic capture,
//! known-findings protocol, replay files and evidence output.
use proptest::strategy::Strategy;
use proptest::test_runner::{Config, RngSeed, TestCaseError, TestError, TestRunner};
use serde::{de::DeserializeOwned, Deserialize, Serialize};
use serde_json::{json, Value as J};
use std::cell::RefCell;
use std::collections::{BTreeMap, HashSet};
use std::hash::{Hash, Hasher};
use std::path::{Path, PathBuf};
use std::sync::Mutex;

pub const VERIF_ROOT: &str = "/verif";
pub const SHARDS: u64 = 16;

/// true while stored cases are replayed (replay tier / --replay): generators must then NOT steer away from
/// known findings, so that a listed finding still reproduces with its signature
pub static STRICT_REPLAY: std::sync::atomic::AtomicBool = std::sync::atomic::AtomicBool::new(false);
pub fn strict_replay() -> bool {
    STRICT_REPLAY.load(std::sync::atomic::Ordering::Relaxed)
}
/// signature recorded in the replay file being replayed (generators stop avoiding exactly that finding)
pub static STRICT_SIG: Mutex<String> = Mutex::new(String::new());
pub fn strict_sig_contains(part: &str) -> bool {
    strict_replay() && STRICT_SIG.lock().map(|s| s.contains(part)).unwrap_or(false)
}

/// where evidence and replay files are written (default /verif; mutant runs redirect it)
pub fn out_root() -> PathBuf {
    PathBuf::from(std::env::var("VERIF_OUT").unwrap_or_else(|_| VERIF_ROOT.to_string()))
}

#[derive(Clone, Copy, PartialEq, Eq, Debug)]
pub enum Tier {
    Quick,
    Thorough,
}

#[derive(Clone, Debug)]
pub struct Ctx {
    pub id: String,
    pub tier: Tier,
    pub seed: u64,
}
impl Ctx {
    pub fn thorough(&self) -> bool {
        self.tier == Tier::Thorough
    }
    /// pick a count by tier
    pub fn n(&self, quick: u64, thorough: u64) -> u64 {
        let scale: f64 = std::env::var("VERIF_SCALE").ok().and_then(|s| s.parse().ok()).unwrap_or(1.0);
        let v = if self.thorough() { thorough } else { (quick as f64 * quick_factor(&self.id)) as u64 };
        ((v as f64 * scale) as u64).max(SHARDS)
    }
}

/// per-property multiplier of the quick-tier case counts, tuned so that a quick run is a substantial,
/// fixed amount of work (roughly 10-30 s on 16 cores)
fn quick_factor(id: &str) -> f64 {
    match id {
        "C05" | "C28" | "C38" => 12.0,
        "C03" | "C25" | "C26" | "C23" | "C29" | "C30" | "C40" | "C18" => 8.0,
        "C27" => 15.0,
        "C24" | "C19" => 6.0,
        "C34" | "C35" => 2.0,
        "C12" => 8.0,
        "C06" | "C10" => 6.0,
        "C08" | "C09" => 5.0,
        "C01" | "C02" | "C04" | "C07" | "C20" | "C21" | "C32" => 3.0,
        "C22" => 4.0,
        "C13" | "C39" => 10.0,
        "C14" | "C15" | "C16" => 5.0,
        "C17" => 2.0,
        _ => 1.0,
    }
}

#[derive(Clone, Debug, Serialize, Deserialize)]
pub struct Failure {
    pub sig: String,
    pub detail: String,
}
impl Failure {
    pub fn new(sig: impl Into<String>, detail: impl Into<String>) -> Self {
        Failure { sig: sig.into(), detail: detail.into() }
    }
}
pub type CaseResult = Result<(), Failure>;

#[macro_export]
macro_rules! fail {
    ($sig:expr, $($arg:tt)*) => {
        return Err($crate::engine::driver::Failure::new($sig, format!($($arg)*)))
    };
}
#[macro_export]
macro_rules! ensure {
    ($cond:expr, $sig:expr, $($arg:tt)*) => {
        if !($cond) { return Err($crate::engine::driver::Failure::new($sig, format!($($arg)*))); }
    };
}

/// Per-case tally filled by the check closure.
#[derive(Default, Debug)]
pub struct Tally {
    pub classes: Vec<String>,
    /// fingerprints of non-trivial (sub-)cases in this case; `mark_nontrivial` adds the case's own
    pub nontrivial: Vec<u64>,
    pub self_nontrivial: bool,
    /// additional evaluations beyond the case itself (inner enumerations)
    pub extra_evals: u64,
    pub sample: Option<J>,
}
impl Tally {
    pub fn class(&mut self, c: impl Into<String>) {
        let c = c.into();
        if !self.classes.contains(&c) {
            self.classes.push(c);
        }
    }
    pub fn class_n(&mut self, c: impl Into<String>, n: u64) {
        // counted class (added n times)
        let c = c.into();
        for _ in 0..n.min(1) {
            if !self.classes.contains(&c) {
                self.classes.push(c.clone());
            }
        }
    }
    pub fn nontrivial(&mut self) {
        self.self_nontrivial = true;
    }
    pub fn nontrivial_fp(&mut self, fp: u64) {
        self.nontrivial.push(fp);
    }
}

pub fn fp<T: Hash>(t: &T) -> u64 {
    let mut h = std::collections::hash_map::DefaultHasher::new();
    t.hash(&mut h);
    h.finish()
}
pub fn fp_bytes(b: &[u8]) -> u64 {
    fp(&b)
}

// ---------------------------------------------------------------- panic capture
thread_local! {
    static LAST_PANIC: RefCell<Option<(String, u32, String)>> = const { RefCell::new(None) };
    static QUIET: RefCell<bool> = const { RefCell::new(false) };
}

pub fn install_panic_hook() {
    let default = std::panic::take_hook();
    std::panic::set_hook(Box::new(move |info| {
        let loc = info.location().map(|l| (l.file().to_string(), l.line())).unwrap_or_default();
        let msg = if let Some(s) = info.payload().downcast_ref::<&str>() {
            s.to_string()
        } else if let Some(s) = info.payload().downcast_ref::<String>() {
            s.clone()
        } else {
            "<non-string panic>".to_string()
        };
        if std::env::var("VERIF_BT").is_ok() {
            eprintln!("PANIC {}:{} {}\n{}", loc.0, loc.1, msg, std::backtrace::Backtrace::force_capture());
        }
        let quiet = QUIET.with(|q| *q.borrow());
        LAST_PANIC.with(|p| *p.borrow_mut() = Some((loc.0, loc.1, msg)));
        if !quiet {
            default(info);
        }
    }));
}

fn strip_digits(s: &str) -> String {
    let mut out = String::new();
    let mut last_hash = false;
    for c in s.chars() {
        if c.is_ascii_digit() {
            if !last_hash {
                out.push('#');
                last_hash = true;
            }
        } else {
            out.push(c);
            last_hash = false;
        }
    }
    out
}

/// contents of "..." and '.' literals echo the input (hashes, offending characters): blank them
fn strip_literals(s: &str) -> String {
    let mut out = String::new();
    let cs: Vec<char> = s.chars().collect();
    let mut i = 0;
    while i < cs.len() {
        let c = cs[i];
        if c == '"' {
            out.push_str("\"_\"");
            i += 1;
            while i < cs.len() && cs[i] != '"' {
                i += 1;
            }
            i += 1;
        } else if c == '\'' && i + 2 < cs.len() && cs[i + 2] == '\'' {
            out.push_str("'_'");
            i += 3;
        } else {
            out.push(c);
            i += 1;
        }
    }
    out
}

pub fn rel_file(f: &str) -> String {
    // the same source file must give the same signature in /repo and in a scratch copy of it
    if let Some(i) = f.find("/rust/") {
        if !f.contains("/.cargo/") && !f.starts_with("/rustc/") {
            return f[i + 1..].to_string();
        }
    }
    if let Some(i) = f.find("/verif/harness/") {
        return f[i + 1..].to_string();
    }
    f.to_string()
}

/// Run `f`, converting a panic into a `Failure` with a `panic:` signature.
pub fn catch<T>(what: &str, f: impl FnOnce() -> T) -> Result<T, Failure> {
    let prev = QUIET.with(|q| std::mem::replace(&mut *q.borrow_mut(), true));
    LAST_PANIC.with(|p| *p.borrow_mut() = None);
    let r = std::panic::catch_unwind(std::panic::AssertUnwindSafe(f));
    QUIET.with(|q| *q.borrow_mut() = prev);
    match r {
        Ok(v) => Ok(v),
        Err(_) => {
            let (file, line, msg) = LAST_PANIC.with(|p| p.borrow_mut().take()).unwrap_or_default();
            let file = rel_file(&file);
            let first = msg.lines().next().unwrap_or("");
            let short: String = strip_literals(&strip_digits(first)).chars().take(90).collect();
            Err(Failure::new(
                format!("panic:{}:{}", file, short),
                format!("panic during {what} at {file}:{line}: {msg}"),
            ))
        }
    }
}

// ---------------------------------------------------------------- known findings
#[derive(Clone, Debug, Serialize, Deserialize)]
pub struct Finding {
    pub property: String,
    pub signature: String,
    pub status: String, // "known" | "fixed"
    #[serde(default)]
    pub commit: Option<String>,
    #[serde(default)]
    pub replay: Option<String>,
    pub what: String,
}

pub fn load_findings() -> Vec<Finding> {
    let p = Path::new(VERIF_ROOT).join("known_findings.json");
    match std::fs::read_to_string(&p) {
        Ok(s) => serde_json::from_str(&s).unwrap_or_else(|e| {
            eprintln!("infrastructure: cannot parse {}: {e}", p.display());
            std::process::exit(2)
        }),
        Err(_) => vec![],
    }
}

// ---------------------------------------------------------------- report
#[derive(Debug, Clone)]
pub struct Violation {
    pub sig: String,
    pub detail: String,
    pub replay: PathBuf,
}

pub struct Report {
    pub id: String,
    pub level: &'static str,
    pub rule: String,
    pub assumptions: Vec<String>,
    pub evaluations: u64,
    pub nontrivial: HashSet<u64>,
    pub classes: BTreeMap<String, u64>,
    pub samples: Vec<J>,
    pub excluded_known: BTreeMap<String, u64>,
    pub violations: Vec<Violation>,
    pub known_hit: Vec<String>,
    pub exhaustive: bool,
    pub extra: BTreeMap<String, J>,
    pub findings: Vec<Finding>,
    pub sub_counts: BTreeMap<String, u64>,
    start: std::time::Instant,
}

impl Report {
    pub fn new(id: &str, level: &'static str, rule: &str) -> Self {
        Report {
            id: id.to_string(),
            level,
            rule: rule.to_string(),
            assumptions: vec![],
            evaluations: 0,
            nontrivial: HashSet::new(),
            classes: BTreeMap::new(),
            samples: vec![],
            excluded_known: BTreeMap::new(),
            violations: vec![],
            known_hit: vec![],
            exhaustive: false,
            extra: BTreeMap::new(),
            // entries with property "*" are defects recorded under one property whose panic site can be reached by
            // the generators of any other property (same root cause, same signature)
            findings: load_findings().into_iter().filter(|f| f.property == id || f.property == "*").collect(),
            sub_counts: BTreeMap::new(),
            start: std::time::Instant::now(),
        }
    }
    pub fn assume(&mut self, s: &str) {
        self.assumptions.push(s.to_string());
    }
    pub fn is_known(&self, sig: &str) -> bool {
        self.findings.iter().any(|f| f.status == "known" && f.signature == sig)
    }
    pub fn add_violation(&mut self, sub: &str, f: &Failure, case: &J) {
        if self.violations.iter().any(|v| v.sig == f.sig) {
            return;
        }
        let dir = out_root().join("replays").join(&self.id);
        let _ = std::fs::create_dir_all(&dir);
        let body = json!({"property": self.id, "sub": sub, "signature": f.sig, "detail": f.detail, "case": case});
        let text = serde_json::to_string_pretty(&body).unwrap();
        let name = format!("{}-{:016x}.json", sanitize(&f.sig), fp(&text));
        let path = dir.join(name);
        let _ = std::fs::write(&path, text);
        self.violations.push(Violation { sig: f.sig.clone(), detail: f.detail.clone(), replay: path });
    }
    pub fn merge_tally(&mut self, t: Tally, case_fp: u64) {
        self.evaluations += 1 + t.extra_evals;
        for c in t.classes {
            *self.classes.entry(c).or_default() += 1;
        }
        if t.self_nontrivial {
            self.nontrivial.insert(case_fp);
        }
        for f in t.nontrivial {
            self.nontrivial.insert(f);
        }
        if let Some(s) = t.sample {
            if self.samples.len() < 4 {
                self.samples.push(s);
            }
        }
    }

    pub fn finish(mut self, ctx: &Ctx) -> i32 {
        let wall = self.start.elapsed().as_secs_f64();
        let mut coverage = serde_json::Map::new();
        coverage.insert("evaluations".into(), json!(self.evaluations));
        coverage.insert("distinct_nontrivial".into(), json!(self.nontrivial.len()));
        coverage.insert("rule".into(), json!(self.rule));
        if self.samples.is_empty() {
            self.samples.push(json!("no sample recorded"));
        }
        coverage.insert("samples".into(), json!(self.samples));
        coverage.insert("classes".into(), json!(self.classes));
        coverage.insert("per_subcheck_evaluations".into(), json!(self.sub_counts));
        coverage.insert("excluded_known".into(), json!(self.excluded_known));
        coverage.insert("known_findings_reproduced".into(), json!(self.known_hit));
        coverage.insert("exhaustive".into(), json!(self.exhaustive));
        for (k, v) in &self.extra {
            coverage.insert(k.clone(), v.clone());
        }
        let ev = json!({
            "property_id": self.id,
            "tier": if ctx.thorough() {"thorough"} else {"quick"},
            "seed": ctx.seed,
            "level": self.level,
            "coverage": coverage,
            "assumptions": self.assumptions,
            "wall_s": wall,
            "violations": self.violations.len(),
            "violation_signatures": self.violations.iter().map(|v| v.sig.clone()).collect::<Vec<_>>(),
        });
        let dir = out_root().join("evidence");
        let _ = std::fs::create_dir_all(&dir);
        let path = dir.join(format!("{}.json", self.id));
        if let Err(e) = std::fs::write(&path, serde_json::to_string_pretty(&ev).unwrap()) {
            eprintln!("infrastructure: cannot write evidence {}: {e}", path.display());
            return 2;
        }
        for k in &self.known_hit {
            println!("KNOWN-FINDING: property={} {}", self.id, k);
        }
        for f in self.findings.iter().filter(|f| f.property == "*" && f.status == "known") {
            if self.excluded_known.get(&f.signature).copied().unwrap_or(0) > 0 {
                println!("KNOWN-FINDING: property={} {} [{}]", self.id, f.what, f.signature);
            }
        }
        println!(
            "{} {}: evaluations={} distinct_nontrivial={} violations={} wall={:.1}s",
            self.id,
            if ctx.thorough() { "thorough" } else { "quick" },
            self.evaluations,
            self.nontrivial.len(),
            self.violations.len(),
            wall
        );
        let cls: Vec<String> = self.classes.iter().map(|(k, v)| format!("{k}={v}")).collect();
        println!("  classes: {}", cls.join(" "));
        if !self.excluded_known.is_empty() {
            println!("  excluded_known: {:?}", self.excluded_known);
        }
        if !self.violations.is_empty() {
            for v in &self.violations {
                println!("VIOLATION property={} replay={}", self.id, v.replay.display());
                println!("  signature: {}", v.sig);
                let d: String = v.detail.chars().take(1500).collect();
                println!("  detail: {}", d);
            }
            return 1;
        }
        if self.nontrivial.len() < 2 {
            eprintln!("infrastructure: fewer than 2 distinct non-trivial cases — generator regression, inconclusive");
            return 2;
        }
        0
    }
}

fn sanitize(s: &str) -> String {
    s.chars().map(|c| if c.is_ascii_alphanumeric() || c == '-' || c == '_' { c } else { '_' }).take(60).collect()
}

// ---------------------------------------------------------------- sub checks
pub trait SubCheck: Sync {
    fn name(&self) -> &str;
    fn explore(&self, ctx: &Ctx, rep: &mut Report);
    /// run one stored case; `Err(String)` = cannot decode
    fn replay(&self, case: &J) -> Result<CaseResult, String>;
}

pub struct Sub<C, S, F> {
    pub name: &'static str,
    pub quick: u64,
    pub thorough: u64,
    pub strat: Box<dyn Fn(&Ctx) -> S + Sync>,
    pub check: F,
    pub _p: std::marker::PhantomData<fn() -> C>,
}

pub fn sub<C, S, F>(
    name: &'static str,
    quick: u64,
    thorough: u64,
    strat: impl Fn(&Ctx) -> S + Sync + 'static,
    check: F,
) -> Box<dyn SubCheck>
where
    C: std::fmt::Debug + Clone + Serialize + DeserializeOwned + 'static,
    S: Strategy<Value = C> + 'static,
    F: Fn(&C, &mut Tally) -> CaseResult + Sync + 'static,
{
    Box::new(Sub { name, quick, thorough, strat: Box::new(strat), check, _p: std::marker::PhantomData })
}

fn shard_seed(seed: u64, id: &str, sub: &str, shard: u64) -> u64 {
    let mut h = std::collections::hash_map::DefaultHasher::new();
    (seed, id, sub, shard).hash(&mut h);
    h.finish()
}

impl<C, S, F> SubCheck for Sub<C, S, F>
where
    C: std::fmt::Debug + Clone + Serialize + DeserializeOwned + 'static,
    S: Strategy<Value = C> + 'static,
    F: Fn(&C, &mut Tally) -> CaseResult + Sync + 'static,
{
    fn name(&self) -> &str {
        self.name
    }

    fn replay(&self, case: &J) -> Result<CaseResult, String> {
        let c: C = serde_json::from_value(case.clone()).map_err(|e| e.to_string())?;
        let mut t = Tally::default();
        Ok(run_one(&self.check, &c, &mut t))
    }

    fn explore(&self, ctx: &Ctx, rep: &mut Report) {
        let total = ctx.n(self.quick, self.thorough);
        let per = (total / SHARDS).max(1);
        let known: Vec<String> =
            rep.findings.iter().filter(|f| f.status == "known").map(|f| f.signature.clone()).collect();
        struct ShardOut {
            tallies: Vec<(Tally, u64)>,
            excluded: BTreeMap<String, u64>,
            failure: Option<(Failure, J)>,
        }
        let outs: Mutex<Vec<ShardOut>> = Mutex::new(vec![]);
        std::thread::scope(|sc| {
            for shard in 0..SHARDS {
                let outs = &outs;
                let known = &known;
                let this = &self;
                let ctx = ctx.clone();
                std::thread::Builder::new()
                    .stack_size(256 << 20)
                    .spawn_scoped(sc, move || {
                        let seed = shard_seed(ctx.seed, &ctx.id, this.name, shard);
                        let mut cfg = Config::default();
                        cfg.cases = per as u32;
                        cfg.failure_persistence = None;
                        cfg.rng_seed = RngSeed::Fixed(seed);
                        cfg.max_shrink_iters = if ctx.thorough() { 4000 } else { 1500 };
                        cfg.max_global_rejects = 100_000;
                        cfg.verbose = 0;
                        let mut runner = TestRunner::new(cfg);
                        let tallies: RefCell<Vec<(Tally, u64)>> = RefCell::new(vec![]);
                        let excluded: RefCell<BTreeMap<String, u64>> = RefCell::new(BTreeMap::new());
                        let failed = RefCell::new(false);
                        let strat = (this.strat)(&ctx);
                        let res = runner.run(&strat, |c| {
                            let mut t = Tally::default();
                            let r = run_one(&this.check, &c, &mut t);
                            let counting = !*failed.borrow();
                            match r {
                                Ok(()) => {
                                    if counting {
                                        let f = fp(&serde_json::to_string(&c).unwrap_or_default());
                                        tallies.borrow_mut().push((t, f));
                                    }
                                    Ok(())
                                }
                                Err(f) if known.iter().any(|k| *k == f.sig) || f.sig.starts_with("infrastructure:") => {
                                    // (a watchdog / worker hiccup is inconclusive for that one case: counted, never a violation)
                                    if counting {
                                        *excluded.borrow_mut().entry(f.sig.clone()).or_default() += 1;
                                    }
                                    Ok(())
                                }
                                Err(f) if std::env::var("VERIF_SURVEY").is_ok() => {
                                    // development aid: record every unlisted signature (unshrunk) and go on
                                    let mut sv = SURVEY.lock().unwrap();
                                    let e = sv.entry(f.sig.clone()).or_insert_with(|| (0, f.detail.clone(), serde_json::to_value(&c).unwrap_or(J::Null), this.name.to_string()));
                                    e.0 += 1;
                                    Ok(())
                                }
                                Err(f) => {
                                    *failed.borrow_mut() = true;
                                    Err(TestCaseError::fail(f.sig))
                                }
                            }
                        });
                        let failure = match res {
                            Ok(()) => None,
                            Err(TestError::Fail(_, minimal)) => {
                                let mut t = Tally::default();
                                let r = run_one(&this.check, &minimal, &mut t);
                                let f = match r {
                                    Err(f) => f,
                                    Ok(()) => Failure::new(
                                        "flaky:shrunk-case-passes",
                                        "the shrunk case passed when re-run (non-deterministic check?)",
                                    ),
                                };
                                Some((f, serde_json::to_value(&minimal).unwrap_or(J::Null)))
                            }
                            Err(TestError::Abort(r)) => {
                                Some((Failure::new("infrastructure:proptest-abort", format!("{r}")), J::Null))
                            }
                        };
                        outs.lock().unwrap().push(ShardOut {
                            tallies: tallies.into_inner(),
                            excluded: excluded.into_inner(),
                            failure,
                        });
                    })
                    .expect("spawn");
            }
        });
        let mut n = 0;
        for o in outs.into_inner().unwrap() {
            for (t, f) in o.tallies {
                n += 1 + t.extra_evals;
                rep.merge_tally(t, f);
            }
            for (k, v) in o.excluded {
                *rep.excluded_known.entry(k).or_default() += v;
            }
            if let Some((f, case)) = o.failure {
                if rep.is_known(&f.sig) {
                    *rep.excluded_known.entry(f.sig.clone()).or_default() += 1;
                } else {
                    rep.add_violation(self.name, &f, &case);
                }
            }
        }
        *rep.sub_counts.entry(self.name.to_string()).or_default() += n;
    }
}

pub static SURVEY: Mutex<BTreeMap<String, (u64, String, J, String)>> = Mutex::new(BTreeMap::new());

fn run_one<C, F: Fn(&C, &mut Tally) -> CaseResult>(check: &F, c: &C, t: &mut Tally) -> CaseResult {
    match catch("case", || check(c, t)) {
        Ok(r) => r,
        Err(f) => Err(f),
    }
}

// ---------------------------------------------------------------- property entry
pub struct Property {
    pub id: &'static str,
    pub level: &'static str,
    pub rule: &'static str,
    pub assumptions: &'static [&'static str],
    pub subs: Vec<Box<dyn SubCheck>>,
}

#[derive(Deserialize)]
struct ReplayFile {
    #[allow(dead_code)]
    property: String,
    sub: String,
    #[serde(default)]
    signature: Option<String>,
    case: J,
}

/// replay tier: regress dir (must pass unless it backs a `known` finding with the same signature)
fn replay_tier(prop: &Property, rep: &mut Report) {
    let dir = Path::new(VERIF_ROOT).join("regress").join(prop.id);
    let mut files: Vec<PathBuf> = match std::fs::read_dir(&dir) {
        Ok(rd) => rd.filter_map(|e| e.ok()).map(|e| e.path()).filter(|p| p.extension().map(|x| x == "json").unwrap_or(false)).collect(),
        Err(_) => vec![],
    };
    files.sort();
    let mut n = 0u64;
    for f in files {
        let Ok(text) = std::fs::read_to_string(&f) else { continue };
        let rf: ReplayFile = match serde_json::from_str(&text) {
            Ok(r) => r,
            Err(e) => {
                eprintln!("infrastructure: bad replay file {}: {e}", f.display());
                continue;
            }
        };
        let Some(sub) = prop.subs.iter().find(|s| s.name() == rf.sub) else {
            eprintln!("infrastructure: replay {} names unknown sub-check {}", f.display(), rf.sub);
            continue;
        };
        n += 1;
        *STRICT_SIG.lock().unwrap() = rf.signature.clone().unwrap_or_default();
        match sub.replay(&rf.case) {
            Err(e) => eprintln!("infrastructure: cannot decode case in {}: {e}", f.display()),
            Ok(Ok(())) => {}
            Ok(Err(fl)) => {
                if let Some(k) = rep.findings.iter().find(|k| k.status == "known" && k.signature == fl.sig) {
                    let line = format!("{} [{}]", k.what, k.signature);
                    if !rep.known_hit.contains(&line) {
                        rep.known_hit.push(line);
                    }
                } else {
                    let _ = rf.signature;
                    // a regression input fails with an unlisted signature
                    if !rep.violations.iter().any(|v| v.sig == fl.sig) {
                        rep.violations.push(Violation { sig: fl.sig.clone(), detail: fl.detail.clone(), replay: f.clone() });
                    }
                }
            }
        }
    }
    rep.extra.insert("replay_tier_cases".into(), json!(n));
}

pub fn run_property(prop: Property, ctx: &Ctx) -> i32 {
    let mut rep = Report::new(prop.id, prop.level, prop.rule);
    for a in prop.assumptions {
        rep.assume(a);
    }
    STRICT_REPLAY.store(true, std::sync::atomic::Ordering::Relaxed);
    replay_tier(&prop, &mut rep);
    STRICT_REPLAY.store(false, std::sync::atomic::Ordering::Relaxed);
    let only = std::env::var("VERIF_SUB").ok();
    for s in &prop.subs {
        if let Some(o) = &only {
            if s.name() != o {
                continue;
            }
        }
        s.explore(ctx, &mut rep);
    }
    if std::env::var("VERIF_SURVEY").is_ok() {
        let sv = SURVEY.lock().unwrap();
        let dir = out_root().join("replays").join(prop.id).join("survey");
        let _ = std::fs::create_dir_all(&dir);
        for (sig, (n, detail, case, sub)) in sv.iter() {
            let body = json!({"property": prop.id, "sub": sub, "signature": sig, "detail": detail, "case": case});
            let path = dir.join(format!("{}-{:016x}.json", sanitize(sig), fp(sig)));
            let _ = std::fs::write(&path, serde_json::to_string_pretty(&body).unwrap());
            println!("SURVEY n={n} {sig}\n       {}", path.display());
        }
        println!("SURVEY-ONLY run: the verdict below ignores the surveyed signatures");
    }
    rep.finish(ctx)
}

pub fn replay_file(prop: Property, path: &str) -> i32 {
    STRICT_REPLAY.store(true, std::sync::atomic::Ordering::Relaxed);
    let text = match std::fs::read_to_string(path) {
        Ok(t) => t,
        Err(e) => {
            eprintln!("cannot read {path}: {e}");
            return 2;
        }
    };
    let rf: ReplayFile = match serde_json::from_str(&text) {
        Ok(r) => r,
        Err(e) => {
            eprintln!("cannot parse {path}: {e}");
            return 2;
        }
    };
    let Some(sub) = prop.subs.iter().find(|s| s.name() == rf.sub) else {
        eprintln!("unknown sub-check {}", rf.sub);
        return 2;
    };
    *STRICT_SIG.lock().unwrap() = rf.signature.clone().unwrap_or_default();
    match sub.replay(&rf.case) {
        Err(e) => {
            eprintln!("cannot decode case: {e}");
            2
        }
        Ok(Ok(())) => {
            println!("PASS property={} sub={} replay={}", prop.id, rf.sub, path);
            0
        }
        Ok(Err(f)) => {
            let known = load_findings().into_iter().any(|k| (k.property == prop.id || k.property == "*") && k.status == "known" && k.signature == f.sig);
            if known {
                println!("KNOWN-FINDING: property={} [{}]", prop.id, f.sig);
                println!("  detail: {}", f.detail);
                0
            } else {
                println!("VIOLATION property={} replay={}", prop.id, path);
                println!("  signature: {}", f.sig);
                println!("  detail: {}", f.detail);
                1
            }
        }
    }
}
