//! Independent op-based reading of a set of changes (DESIGN appendix B.1).
//! Shares no code with automerge beyond `Change::decode()`.
use super::obs::{render_scalar, Id, ONode, OText, OVal};
use automerge::legacy::{ElementId, Key, ObjectId, OpId as LOpId, OpType as LOpType};
use automerge::{Change, ChangeHash, ObjType, ScalarValue, TextEncoding};
use std::collections::{BTreeMap, HashMap, HashSet};
use unicode_segmentation::UnicodeSegmentation;

#[derive(Clone, Debug, PartialEq, Eq, Hash, PartialOrd, Ord)]
pub enum RKey {
    Map(String),
    Head,
    Elem(Id),
}

#[derive(Clone, Debug)]
pub struct ROp {
    pub id: Id,
    pub obj: Option<Id>,
    pub key: RKey,
    pub action: LOpType,
    pub pred: Vec<Id>,
    pub insert: bool,
    pub change: ChangeHash,
}

fn lid(o: &LOpId) -> Id {
    (o.counter(), o.actor().to_bytes().to_vec())
}

pub fn width(enc: TextEncoding, s: &str) -> usize {
    match enc {
        TextEncoding::UnicodeCodePoint => s.chars().count(),
        TextEncoding::Utf8CodeUnit => s.len(),
        TextEncoding::Utf16CodeUnit => s.encode_utf16().count(),
        TextEncoding::GraphemeCluster => s.graphemes(true).count(),
    }
}

pub struct RefDoc {
    pub ops: Vec<ROp>,
    pub deps: HashMap<ChangeHash, Vec<ChangeHash>>,
    pub enc: TextEncoding,
}

impl RefDoc {
    pub fn new(changes: &[Change], enc: TextEncoding) -> Self {
        let mut ops = vec![];
        let mut deps = HashMap::new();
        for c in changes {
            deps.insert(c.hash(), c.deps().to_vec());
            let e = c.decode();
            for (i, o) in e.operations.iter().enumerate() {
                let id = (e.start_op.get() + i as u64, e.actor_id.to_bytes().to_vec());
                let obj = match &o.obj {
                    ObjectId::Root => None,
                    ObjectId::Id(x) => Some(lid(x)),
                };
                let key = match &o.key {
                    Key::Map(s) => RKey::Map(s.to_string()),
                    Key::Seq(ElementId::Head) => RKey::Head,
                    Key::Seq(ElementId::Id(x)) => RKey::Elem(lid(x)),
                };
                ops.push(ROp { id, obj, key, action: o.action.clone(), pred: o.pred.iter().map(lid).collect(), insert: o.insert, change: c.hash() });
            }
        }
        RefDoc { ops, deps, enc }
    }

    pub fn ancestors(&self, heads: &[ChangeHash]) -> HashSet<ChangeHash> {
        let mut seen = HashSet::new();
        let mut st: Vec<ChangeHash> = heads.to_vec();
        while let Some(x) = st.pop() {
            if seen.insert(x) {
                if let Some(d) = self.deps.get(&x) {
                    st.extend(d.iter().copied());
                }
            }
        }
        seen
    }

    pub fn scoped(&self, heads: Option<&[ChangeHash]>) -> Scoped<'_> {
        let ops: Vec<&ROp> = match heads {
            None => self.ops.iter().collect(),
            Some(h) => {
                let a = self.ancestors(h);
                self.ops.iter().filter(|o| a.contains(&o.change)).collect()
            }
        };
        Scoped::new(ops, self.enc)
    }

    pub fn observe(&self, heads: Option<&[ChangeHash]>) -> ONode {
        self.scoped(heads).node(&None, ObjType::Map, 0)
    }
}

pub struct Scoped<'a> {
    pub ops: Vec<&'a ROp>,
    succ: HashMap<Id, Vec<&'a ROp>>,
    by_obj: HashMap<Option<Id>, Vec<&'a ROp>>,
    enc: TextEncoding,
}

#[derive(Clone, Debug)]
pub struct SeqElem<'a> {
    pub elem: &'a ROp,
    /// visible ops of the element's register, ascending id
    pub reg: Vec<&'a ROp>,
}

impl<'a> Scoped<'a> {
    pub fn new(ops: Vec<&'a ROp>, enc: TextEncoding) -> Self {
        let mut succ: HashMap<Id, Vec<&ROp>> = HashMap::new();
        let mut by_obj: HashMap<Option<Id>, Vec<&ROp>> = HashMap::new();
        for o in &ops {
            for p in &o.pred {
                succ.entry(p.clone()).or_default().push(o);
            }
            by_obj.entry(o.obj.clone()).or_default().push(o);
        }
        Scoped { ops, succ, by_obj, enc }
    }
    pub fn is_counter(o: &ROp) -> bool {
        matches!(&o.action, LOpType::Put(ScalarValue::Counter(_)))
    }
    pub fn value_op(o: &ROp) -> bool {
        matches!(&o.action, LOpType::Put(_) | LOpType::Make(_))
    }
    pub fn overwritten(&self, x: &ROp) -> bool {
        self.succ
            .get(&x.id)
            .map(|v| {
                v.iter().any(|y| match &y.action {
                    LOpType::Delete | LOpType::Put(_) | LOpType::Make(_) => true,
                    LOpType::Increment(_) => !Self::is_counter(x),
                    _ => false,
                })
            })
            .unwrap_or(false)
    }
    pub fn visible(&self, x: &ROp) -> bool {
        Self::value_op(x) && !self.overwritten(x)
    }
    pub fn counter(&self, x: &ROp) -> i64 {
        let init = match &x.action {
            LOpType::Put(ScalarValue::Counter(c)) => i64::from(c),
            _ => 0,
        };
        init.wrapping_add(
            self.succ
                .get(&x.id)
                .map(|v| {
                    v.iter()
                        .filter_map(|y| if let LOpType::Increment(n) = &y.action { Some(*n) } else { None })
                        .fold(0i64, |a, b| a.wrapping_add(b))
                })
                .unwrap_or(0),
        )
    }
    fn oval(&self, x: &ROp, depth: usize) -> OVal {
        match &x.action {
            LOpType::Put(ScalarValue::Counter(_)) => OVal::Counter(self.counter(x)),
            LOpType::Put(v) => OVal::Scalar(render_scalar(v)),
            LOpType::Make(t) => OVal::Obj(Box::new(self.node(&Some(x.id.clone()), *t, depth + 1))),
            _ => OVal::Scalar("?".into()),
        }
    }
    fn reg_vals(&self, reg: &[&ROp], depth: usize) -> Vec<(Id, OVal)> {
        reg.iter().map(|o| (o.id.clone(), self.oval(o, depth))).collect()
    }

    pub fn map(&self, obj: &Option<Id>) -> BTreeMap<String, Vec<&'a ROp>> {
        let mut m: BTreeMap<String, Vec<&ROp>> = BTreeMap::new();
        if let Some(ops) = self.by_obj.get(obj) {
            for o in ops {
                if let RKey::Map(k) = &o.key {
                    if self.visible(o) {
                        m.entry(k.clone()).or_default().push(o);
                    }
                }
            }
        }
        for v in m.values_mut() {
            v.sort_by(|a, b| a.id.cmp(&b.id));
        }
        m
    }

    /// all elements (visible or not, marks included) of a sequence in RGA order
    pub fn seq(&self, obj: &Option<Id>) -> Vec<SeqElem<'a>> {
        let mut children: HashMap<RKey, Vec<&ROp>> = HashMap::new();
        let mut updates: HashMap<Id, Vec<&ROp>> = HashMap::new();
        if let Some(ops) = self.by_obj.get(obj) {
            for o in ops {
                if o.insert {
                    children.entry(o.key.clone()).or_default().push(o);
                } else if let RKey::Elem(e) = &o.key {
                    updates.entry(e.clone()).or_default().push(o);
                }
            }
        }
        for v in children.values_mut() {
            v.sort_by(|a, b| b.id.cmp(&a.id));
        }
        let mut out = vec![];
        let mut stack: Vec<&ROp> = children.get(&RKey::Head).cloned().unwrap_or_default();
        stack.reverse();
        while let Some(e) = stack.pop() {
            let mut reg: Vec<&ROp> = vec![];
            if self.visible(e) {
                reg.push(e);
            }
            if let Some(u) = updates.get(&e.id) {
                for x in u {
                    if self.visible(x) {
                        reg.push(x);
                    }
                }
            }
            reg.sort_by(|a, b| a.id.cmp(&b.id));
            out.push(SeqElem { elem: e, reg });
            if let Some(ch) = children.get(&RKey::Elem(e.id.clone())) {
                for c in ch.iter().rev() {
                    stack.push(c);
                }
            }
        }
        out
    }

    pub fn elem_string(&self, reg: &[&ROp]) -> String {
        match reg.last().map(|w| &w.action) {
            Some(LOpType::Put(ScalarValue::Str(x))) => x.to_string(),
            _ => "\u{fffc}".to_string(),
        }
    }

    pub fn node(&self, obj: &Option<Id>, t: ObjType, depth: usize) -> ONode {
        if depth > 24 {
            return ONode::Map(BTreeMap::new());
        }
        match t {
            ObjType::Map | ObjType::Table => {
                ONode::Map(self.map(obj).into_iter().map(|(k, reg)| (k, self.reg_vals(&reg, depth))).collect())
            }
            ObjType::List => ONode::List(
                self.seq(obj).into_iter().filter(|e| !e.reg.is_empty()).map(|e| self.reg_vals(&e.reg, depth)).collect(),
            ),
            ObjType::Text => {
                let mut text = String::new();
                let mut len = 0usize;
                let mut elems = vec![];
                let mut marks: Vec<BTreeMap<String, String>> = vec![];
                let mut active: Vec<&ROp> = vec![];
                for e in self.seq(obj) {
                    match &e.elem.action {
                        LOpType::MarkBegin(_) => active.push(e.elem),
                        LOpType::MarkEnd(_) => {
                            let b = (e.elem.id.0 - 1, e.elem.id.1.clone());
                            active.retain(|x| x.id != b);
                        }
                        _ => {
                            if !e.reg.is_empty() {
                                let s = self.elem_string(&e.reg);
                                let w = width(self.enc, &s);
                                let mut mm: BTreeMap<String, (Id, String)> = BTreeMap::new();
                                for a in &active {
                                    if let LOpType::MarkBegin(md) = &a.action {
                                        let ent = mm.entry(md.name.to_string()).or_insert((a.id.clone(), render_scalar(&md.value)));
                                        if a.id >= ent.0 {
                                            *ent = (a.id.clone(), render_scalar(&md.value));
                                        }
                                    }
                                }
                                let mm: BTreeMap<String, String> =
                                    mm.into_iter().filter(|(_, (_, v))| v != "Null").map(|(k, (_, v))| (k, v)).collect();
                                elems.push((len, self.reg_vals(&e.reg, depth)));
                                for _ in 0..w {
                                    marks.push(mm.clone());
                                }
                                len += w;
                                text.push_str(&s);
                            }
                        }
                    }
                }
                ONode::Text(OText { text, len, elems, marks, spans: None })
            }
        }
    }
}
