//! Worker sandbox: targets that may abort, overflow the stack, exhaust memory or spin run in a child
//! process (this binary re-executed with `--worker`), fed over a pipe.
use super::alloc;
use super::driver::{catch, Failure};
use serde::{Deserialize, Serialize};
use std::cell::RefCell;
use std::io::{Read, Write};
use std::process::{Child, ChildStdin, ChildStdout, Command, Stdio};

#[derive(Clone, Debug, Serialize, Deserialize, Default)]
pub struct WOut {
    /// 0 = returned a value, 1 = returned an error, 2 = violation (sig/detail set)
    pub status: u8,
    pub sig: String,
    pub detail: String,
    /// free-form classes reported by the target (e.g. "loaded", "loaded-differs")
    pub classes: Vec<String>,
    pub peak: u64,
    pub total: u64,
    pub biggest: u64,
    pub cpu_us: u64,
}

#[derive(Debug)]
pub struct Death {
    pub signal: Option<i32>,
    pub code: Option<i32>,
    pub stderr_tail: String,
    pub watchdog: bool,
    pub alloc_refused: Option<u64>,
    pub alloc_site: Option<String>,
    pub cpu_limit: bool,
}

pub struct Worker {
    child: Child,
    stdin: ChildStdin,
    stdout: ChildStdout,
}

pub type TargetFn = fn(u8, u32, &[u8]) -> WOut;

static TARGET: std::sync::OnceLock<TargetFn> = std::sync::OnceLock::new();
/// register the target function so that VERIF_INPROC=1 can run inputs without the sandbox (debugging only)
pub fn register(f: TargetFn) {
    let _ = TARGET.set(f);
}

impl Worker {
    pub fn spawn() -> std::io::Result<Worker> {
        let exe = std::env::current_exe()?;
        let mut child = Command::new(exe).arg("--worker").stdin(Stdio::piped()).stdout(Stdio::piped()).stderr(Stdio::piped()).spawn()?;
        let stdin = child.stdin.take().unwrap();
        let stdout = child.stdout.take().unwrap();
        Ok(Worker { child, stdin, stdout })
    }

    fn death(mut self) -> Death {
        use std::os::unix::process::ExitStatusExt;
        let status = self.child.wait().ok();
        let mut err = String::new();
        if let Some(mut e) = self.child.stderr.take() {
            let _ = e.read_to_string(&mut err);
        }
        let tail: String = err.lines().rev().take(12).collect::<Vec<_>>().into_iter().rev().collect::<Vec<_>>().join("\n");
        let refused = err.lines().rev().find_map(|l| l.split("VERIF-ALLOC-REFUSED size=").nth(1).and_then(|s| s.trim().parse::<u64>().ok()));
        let site = err.lines().rev().find_map(|l| l.split("VERIF-ALLOC-SITE ").nth(1).map(|s| s.trim().to_string()));
        Death { signal: status.and_then(|s| s.signal()), code: status.and_then(|s| s.code()), watchdog: err.contains("VERIF-WATCHDOG"), cpu_limit: err.contains("VERIF-CPU-LIMIT"), alloc_refused: refused, alloc_site: site, stderr_tail: tail }
    }

    pub fn run(mut self, target: u8, flags: u32, data: &[u8]) -> Result<(WOut, Worker), Death> {
        let mut msg = Vec::with_capacity(data.len() + 9);
        msg.push(target);
        msg.extend_from_slice(&flags.to_le_bytes());
        msg.extend_from_slice(&(data.len() as u32).to_le_bytes());
        msg.extend_from_slice(data);
        if self.stdin.write_all(&msg).and_then(|_| self.stdin.flush()).is_err() {
            return Err(self.death());
        }
        let mut hdr = [0u8; 4];
        if self.stdout.read_exact(&mut hdr).is_err() {
            return Err(self.death());
        }
        let n = u32::from_le_bytes(hdr) as usize;
        let mut body = vec![0u8; n];
        if self.stdout.read_exact(&mut body).is_err() {
            return Err(self.death());
        }
        match serde_json::from_slice::<WOut>(&body) {
            Ok(o) => Ok((o, self)),
            Err(_) => Err(self.death()),
        }
    }
}

impl Drop for Worker {
    fn drop(&mut self) {
        let _ = self.child.kill();
        let _ = self.child.wait();
    }
}

thread_local! {
    static WORKER: RefCell<Option<Worker>> = const { RefCell::new(None) };
    /// inputs that killed the worker, with the verdict (shrinking re-submits identical bytes many times)
    static DEATHS: RefCell<std::collections::HashMap<u64, (String, String)>> = RefCell::new(Default::default());
}

/// Run one input in this thread's worker. A reproducible death of the worker is a failure whose signature
/// names the way it died; a watchdog kill or an irreproducible death is infrastructure (Err(None) => skip).
pub fn run_in_worker(target: u8, flags: u32, data: &[u8], target_name: &str) -> Result<WOut, Failure> {
    if let Ok(dir) = std::env::var("VERIF_DUMP") {
        let _ = std::fs::write(format!("{dir}/input-{target}-{flags}.bin"), data);
    }
    if std::env::var("VERIF_INPROC").is_ok() {
        if let Some(f) = TARGET.get() {
            return Ok(match catch("target", || f(target, flags, data)) {
                Ok(o) => o,
                Err(f) => WOut { status: 2, sig: f.sig, detail: f.detail, ..Default::default() },
            });
        }
    }
    let key = super::driver::fp(&format!("{target}:{flags}:{}", hex::encode(data)));
    if let Some((sig, detail)) = DEATHS.with(|d| d.borrow().get(&key).cloned()) {
        return Err(Failure::new(sig, detail));
    }
    let r = run_in_worker_uncached(target, flags, data, target_name);
    if let Err(f) = &r {
        if f.sig.starts_with("abort:") {
            DEATHS.with(|d| d.borrow_mut().insert(key, (f.sig.clone(), f.detail.clone())));
        }
    }
    r
}

fn run_in_worker_uncached(target: u8, flags: u32, data: &[u8], target_name: &str) -> Result<WOut, Failure> {
    let attempt = |data: &[u8]| -> Result<WOut, Death> {
        let w = WORKER.with(|w| w.borrow_mut().take());
        let w = match w {
            Some(w) => w,
            None => Worker::spawn().map_err(|e| Death { signal: None, code: None, stderr_tail: format!("spawn failed: {e}"), watchdog: false, alloc_refused: None, alloc_site: None, cpu_limit: false })?,
        };
        match w.run(target, flags, data) {
            Ok((o, w)) => {
                WORKER.with(|c| *c.borrow_mut() = Some(w));
                Ok(o)
            }
            Err(d) => Err(d),
        }
    };
    let t0 = std::time::Instant::now();
    let r1 = attempt(data);
    if std::env::var("VERIF_SLOW").is_ok() && (t0.elapsed().as_millis() > 300 || r1.is_err()) {
        eprintln!("VERIF_SLOW target={target_name} flags={flags} len={} ms={} died={} hex={}", data.len(), t0.elapsed().as_millis(), r1.as_ref().err().map(|d| format!("sig={:?} wd={} refused={:?} tail={}", d.signal, d.watchdog, d.alloc_refused, d.stderr_tail.lines().last().unwrap_or(""))).unwrap_or_default(), hex::encode(&data[..data.len().min(if r1.is_err() { 4096 } else { 48 })]));
    }
    match r1 {
        Ok(o) => Ok(o),
        Err(first) => {
            // the allocation cap and the CPU limit are deterministic events announced by a marker; any other
            // death is confirmed twice in fresh workers
            if first.alloc_refused.is_some() && first.alloc_site.is_some() {
                let site = short_site(first.alloc_site.as_deref().unwrap_or("unknown"));
                return Err(Failure::new(format!("abort:allocation-refused:{site}"), format!("an input of {} bytes made the library request {} bytes at once or exceed the live-memory cap (caps: {}); the process aborts: {}", data.len(), first.alloc_refused.unwrap_or(0), caps_text(data.len()), first.stderr_tail.lines().take(3).collect::<Vec<_>>().join(" | "))));
            }
            let second = attempt(data);
            if first.cpu_limit && second.as_ref().err().map(|d| d.cpu_limit).unwrap_or(false) {
                return Err(Failure::new("abort:cpu-limit".to_string(), format!("an input of {} bytes kept the library busy for more than {} s of CPU time, twice", data.len(), CPU_LIMIT_US / 1_000_000)));
            }
            let third = attempt(data);
            match (second, third) {
                (Err(d2), Err(_)) => {
                    if first.watchdog || d2.watchdog {
                        return Err(Failure::new(format!("infrastructure:watchdog:{target_name}"), format!("worker exceeded the wall-clock watchdog on this input (reported as inconclusive, not as a violation): {}", d2.stderr_tail)));
                    }
                    let how = if let Some(n) = d2.alloc_refused {
                        format!("allocation-refused:{}", short_site(d2.alloc_site.as_deref().unwrap_or(if n >= 1 << 30 { "unknown" } else { "unknown-site" })))
                    } else if d2.stderr_tail.contains("overflowed its stack") {
                        "stack-overflow".to_string()
                    } else if let Some(s) = d2.signal {
                        format!("signal-{s}")
                    } else {
                        format!("exit-{:?}", d2.code)
                    };
                    Err(Failure::new(if how.starts_with("allocation-refused") { format!("abort:{how}") } else { format!("abort:{how}:{target_name}") }, format!("the process died 3 times on this input ({} bytes): {}", data.len(), d2.stderr_tail)))
                }
                _ => Err(Failure::new("infrastructure:worker-died-once", format!("worker died once and the input did not reproduce it: {}", first.stderr_tail))),
            }
        }
    }
}

/// CPU seconds one input may use before the worker gives up (C15 "hangs", C17 "near-endless loop")
pub const CPU_LIMIT_US: u64 = 4_000_000;

/// allocation caps for an input of n bytes: one request, and live bytes of the thread
pub fn caps(n: usize) -> (usize, usize) {
    let budget = (16usize << 20) + n.saturating_mul(64 << 10);
    (budget.min(alloc::REFUSE_ABOVE), budget.min(4 << 30))
}
pub fn caps_text(n: usize) -> String {
    let (a, b) = caps(n);
    format!("16 MiB + 64 KiB per input byte = {} MiB, for one request ({} MiB) and for the live total", b >> 20, a >> 20)
}

/// `automerge::change_graph::ChangeGraphCols::load` -> keep the path, drop generic arguments and hashes
fn short_site(s: &str) -> String {
    let mut out = String::new();
    let mut depth = 0;
    for ch in s.chars() {
        match ch {
            '<' => depth += 1,
            '>' => depth -= 1,
            _ if depth == 0 => out.push(ch),
            _ => {}
        }
    }
    if out.trim_matches(':').is_empty() { s.chars().filter(|c| !c.is_ascii_digit()).take(120).collect() } else { out.replace(" as ", "").trim().to_string() }
}

/// worker main loop (child side)
pub fn worker_main(run: TargetFn) -> ! {
    use std::sync::atomic::{AtomicU64, Ordering};
    use std::sync::Arc;
    // address-space backstop and a watchdog for hangs
    unsafe {
        let lim = libc::rlimit { rlim_cur: 8 << 30, rlim_max: 8 << 30 };
        libc::setrlimit(libc::RLIMIT_AS, &lim);
    }
    let started = Arc::new(AtomicU64::new(0));
    let cpu_start = Arc::new(AtomicU64::new(0));
    {
        let started = started.clone();
        let cpu_start = cpu_start.clone();
        std::thread::spawn(move || loop {
            std::thread::sleep(std::time::Duration::from_millis(500));
            let s = started.load(Ordering::Relaxed);
            if s != 0 {
                let now = std::time::SystemTime::now().duration_since(std::time::UNIX_EPOCH).map(|d| d.as_secs()).unwrap_or(0);
                if alloc::process_cpu_us().saturating_sub(cpu_start.load(Ordering::Relaxed)) > CPU_LIMIT_US {
                    eprintln!("VERIF-CPU-LIMIT case used more than {} s of CPU", CPU_LIMIT_US / 1_000_000);
                    std::process::abort();
                }
                if now.saturating_sub(s) > 600 {
                    eprintln!("VERIF-WATCHDOG case running for more than 600 s wall clock");
                    std::process::abort();
                }
            }
        });
    }
    let stdin = std::io::stdin();
    let stdout = std::io::stdout();
    let mut inp = stdin.lock();
    let mut out = stdout.lock();
    loop {
        let mut hdr = [0u8; 9];
        if inp.read_exact(&mut hdr).is_err() {
            std::process::exit(0);
        }
        let target = hdr[0];
        let flags = u32::from_le_bytes([hdr[1], hdr[2], hdr[3], hdr[4]]);
        let n = u32::from_le_bytes([hdr[5], hdr[6], hdr[7], hdr[8]]) as usize;
        let mut data = vec![0u8; n];
        if inp.read_exact(&mut data).is_err() {
            std::process::exit(0);
        }
        let now = std::time::SystemTime::now().duration_since(std::time::UNIX_EPOCH).map(|d| d.as_secs()).unwrap_or(1);
        cpu_start.store(alloc::process_cpu_us(), Ordering::Relaxed);
        started.store(now, Ordering::Relaxed);
        let (single, live) = caps(n);
        alloc::set_caps(single, (alloc::current() as usize).saturating_add(live));
        let base = alloc::current();
        alloc::reset();
        let cpu0 = alloc::thread_cpu_us();
        let mut o = match catch("target", || run(target, flags, &data)) {
            Ok(o) => o,
            Err(f) => WOut { status: 2, sig: f.sig, detail: f.detail, ..Default::default() },
        };
        let (peak, total, biggest) = alloc::snapshot();
        o.peak = peak.saturating_sub(base);
        o.total = total;
        o.biggest = biggest;
        o.cpu_us = alloc::thread_cpu_us() - cpu0;
        started.store(0, Ordering::Relaxed);
        alloc::set_caps(alloc::REFUSE_ABOVE, usize::MAX);
        let body = serde_json::to_vec(&o).unwrap_or_default();
        if out.write_all(&(body.len() as u32).to_le_bytes()).and_then(|_| out.write_all(&body)).and_then(|_| out.flush()).is_err() {
            std::process::exit(0);
        }
    }
}
