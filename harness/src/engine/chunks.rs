//! Harness-side parser / writer for the chunk container (magic, checksum, type, LEB128 length, data).
use sha2::{Digest, Sha256};
use std::io::{Read, Write};

pub const MAGIC: [u8; 4] = [0x85, 0x6f, 0x4a, 0x83];
pub const T_DOC: u8 = 0;
pub const T_CHANGE: u8 = 1;
pub const T_COMPRESSED: u8 = 2;
pub const T_BUNDLE: u8 = 3;

#[derive(Clone, Debug, PartialEq)]
pub struct RawChunk {
    pub start: usize,
    /// offset of the first data byte
    pub data_start: usize,
    pub end: usize,
    pub ty: u8,
    pub checksum: [u8; 4],
}

pub fn read_uleb(b: &[u8], mut pos: usize) -> Option<(u64, usize)> {
    let mut v: u64 = 0;
    let mut shift = 0;
    loop {
        let byte = *b.get(pos)?;
        pos += 1;
        if shift >= 64 {
            return None;
        }
        v |= ((byte & 0x7f) as u64) << shift;
        if byte & 0x80 == 0 {
            return Some((v, pos));
        }
        shift += 7;
    }
}

pub fn write_uleb(out: &mut Vec<u8>, mut v: u64) {
    loop {
        let b = (v & 0x7f) as u8;
        v >>= 7;
        if v == 0 {
            out.push(b);
            return;
        }
        out.push(b | 0x80);
    }
}

/// split a byte string into complete chunks; returns the chunks and the offset where parsing stopped
pub fn split(b: &[u8]) -> (Vec<RawChunk>, usize) {
    let mut out = vec![];
    let mut pos = 0;
    while pos < b.len() {
        if b.len() - pos < 9 || b[pos..pos + 4] != MAGIC {
            break;
        }
        let checksum = [b[pos + 4], b[pos + 5], b[pos + 6], b[pos + 7]];
        let ty = b[pos + 8];
        let Some((len, data_start)) = read_uleb(b, pos + 9) else { break };
        let Some(end) = data_start.checked_add(len as usize) else { break };
        if end > b.len() {
            break;
        }
        out.push(RawChunk { start: pos, data_start, end, ty, checksum });
        pos = end;
    }
    (out, pos)
}

pub fn chunk_hash(ty: u8, data: &[u8]) -> [u8; 32] {
    let mut h = Sha256::new();
    h.update([ty]);
    let mut l = vec![];
    write_uleb(&mut l, data.len() as u64);
    h.update(&l);
    h.update(data);
    h.finalize().into()
}

pub fn inflate(data: &[u8]) -> Option<Vec<u8>> {
    let mut d = flate2::read::DeflateDecoder::new(data);
    let mut out = vec![];
    d.read_to_end(&mut out).ok()?;
    Some(out)
}

pub fn deflate(data: &[u8]) -> Vec<u8> {
    let mut e = flate2::write::DeflateEncoder::new(Vec::new(), flate2::Compression::default());
    e.write_all(data).unwrap();
    e.finish().unwrap()
}

/// the hash the library assigns to a chunk (compressed change chunks hash their inflated form as a change)
pub fn logical_hash(ty: u8, data: &[u8]) -> Option<[u8; 32]> {
    if ty == T_COMPRESSED {
        Some(chunk_hash(T_CHANGE, &inflate(data)?))
    } else {
        Some(chunk_hash(ty, data))
    }
}

/// emit a chunk with a freshly computed (valid) checksum
pub fn wrap(ty: u8, data: &[u8]) -> Vec<u8> {
    let hash = logical_hash(ty, data).unwrap_or_else(|| chunk_hash(ty, data));
    let mut out = MAGIC.to_vec();
    out.extend_from_slice(&hash[0..4]);
    out.push(ty);
    write_uleb(&mut out, data.len() as u64);
    out.extend_from_slice(data);
    out
}

/// hashes of the change chunks (plain or compressed) that follow the first chunk — for a
/// `save_with_options(retain_orphans)` output these are the queued (orphan) changes
pub fn trailing_change_hashes(b: &[u8]) -> Vec<[u8; 32]> {
    let (chunks, _) = split(b);
    chunks.iter().skip(1).filter(|c| c.ty == T_CHANGE || c.ty == T_COMPRESSED).filter_map(|c| logical_hash(c.ty, &b[c.data_start..c.end])).collect()
}
