//! Network simulator for the sync protocol: peers, per-neighbour sync states, FIFO links of ENCODED messages.
use super::driver::{catch, Failure};
use automerge::sync::{self, SyncDoc};
use automerge::{AutoCommit, ChangeHash};
use std::collections::{BTreeMap, BTreeSet, VecDeque};

pub struct Peer {
    pub doc: AutoCommit,
    pub states: BTreeMap<usize, sync::State>,
}

#[derive(Default)]
pub struct NetStats {
    pub generated: u64,
    pub delivered: u64,
    pub dropped_in_flight: u64,
    pub reconnect_persisted: u64,
    pub reconnect_fresh: u64,
    pub max_rounds: u64,
}

pub struct Net {
    pub peers: Vec<Peer>,
    pub links: BTreeMap<(usize, usize), VecDeque<Vec<u8>>>,
    pub connected: BTreeSet<(usize, usize)>,
    pub stats: NetStats,
    /// when set, called before every receive with (receiver, saved bytes before) -> used by C22
    pub trace: Vec<String>,
    /// C19: check Message/State encode-decode round trips on every message and persisted state
    pub check_roundtrip: bool,
    pub roundtrips: u64,
}

fn und(p: usize, q: usize) -> (usize, usize) {
    (p.min(q), p.max(q))
}

impl Net {
    pub fn new(docs: Vec<AutoCommit>) -> Self {
        Net { peers: docs.into_iter().map(|doc| Peer { doc, states: BTreeMap::new() }).collect(), links: BTreeMap::new(), connected: BTreeSet::new(), stats: NetStats::default(), trace: vec![], check_roundtrip: false, roundtrips: 0 }
    }
    pub fn connect(&mut self, p: usize, q: usize) {
        if p != q {
            self.connected.insert(und(p, q));
        }
    }
    pub fn is_connected(&self, p: usize, q: usize) -> bool {
        self.connected.contains(&und(p, q))
    }
    /// drop the link: in-flight messages are lost; each side independently keeps a persisted
    /// (encode/decode) state or starts from a fresh one — the documented contract
    pub fn disconnect(&mut self, p: usize, q: usize, persist_p: bool, persist_q: bool) -> Result<(), Failure> {
        if !self.connected.remove(&und(p, q)) {
            return Ok(());
        }
        for k in [(p, q), (q, p)] {
            if let Some(l) = self.links.get_mut(&k) {
                self.stats.dropped_in_flight += l.len() as u64;
                l.clear();
            }
        }
        for (a, b, persist) in [(p, q, persist_p), (q, p, persist_q)] {
            if let Some(st) = self.peers[a].states.remove(&b) {
                let ns = if persist {
                    self.stats.reconnect_persisted += 1;
                    let bytes = st.encode();
                    let d = catch("State::decode", || sync::State::decode(&bytes))?.map_err(|e| Failure::new("sync:state-decode-error", format!("State::decode(State::encode()) failed: {e}")))?;
                    if self.check_roundtrip {
                        if d.shared_heads != st.shared_heads {
                            return Err(Failure::new("C19:state:shared_heads", format!("decode(encode(state)).shared_heads {:?} != {:?}", d.shared_heads, st.shared_heads)));
                        }
                        if d.encode() != bytes {
                            return Err(Failure::new("C19:state:re-encode-differs", "re-encoding a decoded state differs".to_string()));
                        }
                        // session fields at their documented reset values
                        if d.their_heads.is_some() || d.their_need.is_some() || !d.sent_hashes.is_empty() || d.in_flight || d.have_responded || !d.last_sent_heads.is_empty() || d.read_only {
                            return Err(Failure::new("C19:state:session-fields-not-reset", format!("decoded state carries session data: {:?}", d)));
                        }
                        self.roundtrips += 1;
                    }
                    d
                } else {
                    self.stats.reconnect_fresh += 1;
                    sync::State::new()
                };
                self.peers[a].states.insert(b, ns);
            }
        }
        Ok(())
    }
    pub fn state(&mut self, p: usize, q: usize) -> &mut sync::State {
        self.peers[p].states.entry(q).or_default()
    }
    /// p generates a message for q (if connected); returns whether one was produced
    pub fn generate(&mut self, p: usize, q: usize) -> Result<bool, Failure> {
        if !self.is_connected(p, q) {
            return Ok(false);
        }
        let peer = &mut self.peers[p];
        let st = peer.states.entry(q).or_default();
        let doc = &mut peer.doc;
        let m = catch("generate_sync_message", || doc.sync().generate_sync_message(st))?;
        if std::env::var("VERIF_DEBUG").is_ok() {
            eprintln!("  state {p}->{q} after generate (some={}): shared {} last_sent {} their_heads {:?} their_need {:?} their_have {:?} sent {} in_flight {} responded {} ro {} peer_ro {}", m.is_some(), st.shared_heads.len(), st.last_sent_heads.len(), st.their_heads.as_ref().map(|h| h.len()), st.their_need.as_ref().map(|h| h.len()), st.their_have.as_ref().map(|h| h.len()), st.sent_hashes.len(), st.in_flight, st.have_responded, st.read_only, st.peer_read_only);
        }
        match m {
            Some(m) => {
                if std::env::var("VERIF_DEBUG").is_ok() {
                    eprintln!("  gen {p}->{q}: heads {} need {} have {} changes {} flags {:?}", m.heads.len(), m.need.len(), m.have.len(), m.changes.len(), m.flags);
                }
                let copy = if self.check_roundtrip { Some(m.clone()) } else { None };
                let bytes = catch("Message::encode", || m.encode())?;
                if let Some(orig) = copy {
                    let back = catch("Message::decode", || sync::Message::decode(&bytes))?.map_err(|e| Failure::new("C19:message:decode-error", format!("decode(encode(m)) failed: {e}")))?;
                    if back != orig {
                        return Err(Failure::new("C19:message:roundtrip-not-equal", format!("decode(encode(m)) != m:\n  m    = {:?}\n  back = {:?}", orig, back)));
                    }
                    let again = catch("Message::encode", || back.encode())?;
                    if again != bytes {
                        return Err(Failure::new("C19:message:re-encode-differs", "encode(decode(encode(m))) differs from encode(m)".to_string()));
                    }
                    self.roundtrips += 1;
                }
                self.links.entry((p, q)).or_default().push_back(bytes);
                self.stats.generated += 1;
                Ok(true)
            }
            None => Ok(false),
        }
    }
    /// deliver the oldest queued message p -> q; returns whether one was delivered
    pub fn deliver(&mut self, p: usize, q: usize) -> Result<bool, Failure> {
        let Some(bytes) = self.links.get_mut(&(p, q)).and_then(|l| l.pop_front()) else { return Ok(false) };
        let msg = catch("Message::decode", || sync::Message::decode(&bytes))?.map_err(|e| Failure::new("sync:message-decode-error", format!("decode of an encoded message failed: {e}")))?;
        let peer = &mut self.peers[q];
        let st = peer.states.entry(p).or_default();
        let doc = &mut peer.doc;
        catch("receive_sync_message", || doc.sync().receive_sync_message(st, msg))?.map_err(|e| Failure::new("sync:receive-error", format!("receive_sync_message failed: {e}")))?;
        self.stats.delivered += 1;
        Ok(true)
    }
    pub fn queued(&self) -> usize {
        self.links.values().map(|l| l.len()).sum()
    }
    /// fair closing phase: deliver everything, let everybody generate for every live neighbour, until a
    /// full round produces no message. Err(rounds) when the bound is exceeded.
    pub fn closing(&mut self, bound: u64) -> Result<Result<u64, u64>, Failure> {
        let mut rounds = 0u64;
        loop {
            rounds += 1;
            if rounds > bound {
                return Ok(Err(rounds));
            }
            let keys: Vec<(usize, usize)> = self.links.keys().copied().collect();
            for (p, q) in keys {
                while self.deliver(p, q)? {}
            }
            let mut any = false;
            let conns: Vec<(usize, usize)> = self.connected.iter().copied().collect();
            for (p, q) in conns {
                any |= self.generate(p, q)?;
                any |= self.generate(q, p)?;
            }
            if !any && self.queued() == 0 {
                self.stats.max_rounds = self.stats.max_rounds.max(rounds);
                return Ok(Ok(rounds));
            }
        }
    }
    pub fn heads(&mut self, p: usize) -> Vec<ChangeHash> {
        let mut h = self.peers[p].doc.get_heads();
        h.sort();
        h
    }
    pub fn total_changes(&mut self) -> usize {
        let mut s = BTreeSet::new();
        for p in self.peers.iter_mut() {
            for c in p.doc.get_changes(&[]) {
                s.insert(c.hash());
            }
        }
        s.len()
    }
    /// connected components of the current topology
    pub fn components(&self) -> Vec<Vec<usize>> {
        let n = self.peers.len();
        let mut comp: Vec<usize> = (0..n).collect();
        loop {
            let mut changed = false;
            for (p, q) in &self.connected {
                let m = comp[*p].min(comp[*q]);
                if comp[*p] != m || comp[*q] != m {
                    comp[*p] = m;
                    comp[*q] = m;
                    changed = true;
                }
            }
            if !changed {
                break;
            }
        }
        let mut out: BTreeMap<usize, Vec<usize>> = BTreeMap::new();
        for (i, c) in comp.iter().enumerate() {
            out.entry(*c).or_default().push(i);
        }
        out.into_values().collect()
    }
}

/// install a forced Bloom false-positive predicate for this thread (hook); `None` clears it
pub fn force_fp(sel: Option<(u8, u8)>) {
    match sel {
        None => automerge::verif_hooks::set_bloom_force_positive(None),
        Some((modulus, residue)) => {
            let m = modulus.max(1);
            automerge::verif_hooks::set_bloom_force_positive(Some(Box::new(move |h: &ChangeHash| h.0[5] % m == residue % m)));
        }
    }
}
