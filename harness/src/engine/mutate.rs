//! Structure-aware byte mutators over the chunk container (DESIGN 2.7).
use super::chunks::*;
use serde::{Deserialize, Serialize};

#[derive(Clone, Debug, Serialize, Deserialize, PartialEq)]
pub enum Mut {
    /// flip one bit of the raw file
    Flip { pos: u32, bit: u8 },
    /// overwrite one byte of the raw file
    Set { pos: u32, val: u8 },
    Truncate { len: u32 },
    Insert { pos: u32, bytes: Vec<u8> },
    /// inside chunk `chunk` (mod #chunks): overwrite the byte at `pos` (mod body len) — checksum fixed up
    BodySet { chunk: u8, pos: u32, val: u8 },
    BodyFlip { chunk: u8, pos: u32, bit: u8 },
    /// replace the LEB128 starting at body offset `pos` (mod len) with an extreme value — checksum fixed up
    BodyLeb { chunk: u8, pos: u32, which: u8 },
    BodyInsert { chunk: u8, pos: u32, bytes: Vec<u8> },
    BodyDelete { chunk: u8, pos: u32, len: u8 },
    /// document chunk: mutate inside column `col` (mod #columns, change columns first) — lengths, checksum fixed up
    Col { chunk: u8, col: u8, op: u8, pos: u16, val: u8, which: u8 },
    /// overwrite an occurrence (nth) of a known multi-byte / ASCII marker inside chunk bodies with invalid UTF-8
    BadUtf8 { nth: u16, style: u8 },
    DupChunk { chunk: u8 },
    SwapChunks { a: u8, b: u8 },
}

pub const LEB_EXTREMES: [u64; 8] = [0, 1, 0x7f, (1 << 31) - 1, (1 << 32) - 1, 1 << 62, 1 << 63, u64::MAX];

fn leb_len_at(b: &[u8], pos: usize) -> usize {
    let mut n = 0;
    while pos + n < b.len() && n < 10 {
        n += 1;
        if b[pos + n - 1] & 0x80 == 0 {
            break;
        }
    }
    n.max(1)
}

#[derive(Clone, Debug)]
pub struct ColMeta {
    pub spec: u64,
    pub len: usize,
}

#[derive(Clone, Debug)]
pub struct DocLayout {
    pub prefix_actors_end: usize,
    pub heads_count_at: usize,
    pub heads: Vec<[u8; 32]>,
    pub heads_end: usize,
    pub change_meta: Vec<ColMeta>,
    pub ops_meta: Vec<ColMeta>,
    pub meta_end: usize,
    pub suffix_start: usize,
}

fn parse_cols(b: &[u8], mut pos: usize) -> Option<(Vec<ColMeta>, usize)> {
    let (n, p) = read_uleb(b, pos)?;
    pos = p;
    if n > 10_000 {
        return None;
    }
    let mut v = vec![];
    for _ in 0..n {
        let (spec, p) = read_uleb(b, pos)?;
        let (len, p2) = read_uleb(b, p)?;
        pos = p2;
        v.push(ColMeta { spec, len: len as usize });
    }
    Some((v, pos))
}

pub fn parse_doc(body: &[u8]) -> Option<DocLayout> {
    let (nact, mut pos) = read_uleb(body, 0)?;
    if nact > 10_000 {
        return None;
    }
    for _ in 0..nact {
        let (l, p) = read_uleb(body, pos)?;
        pos = p.checked_add(l as usize)?;
        if pos > body.len() {
            return None;
        }
    }
    let prefix_actors_end = pos;
    let heads_count_at = pos;
    let (nh, mut pos) = read_uleb(body, pos)?;
    if nh > 10_000 {
        return None;
    }
    let mut heads = vec![];
    for _ in 0..nh {
        let h: [u8; 32] = body.get(pos..pos + 32)?.try_into().ok()?;
        heads.push(h);
        pos += 32;
    }
    let heads_end = pos;
    let (change_meta, pos) = parse_cols(body, pos)?;
    let (ops_meta, pos) = parse_cols(body, pos)?;
    let meta_end = pos;
    let mut data: usize = 0;
    for c in change_meta.iter().chain(ops_meta.iter()) {
        data = data.checked_add(c.len)?;
    }
    let suffix_start = meta_end.checked_add(data)?;
    if suffix_start > body.len() {
        return None;
    }
    Some(DocLayout { prefix_actors_end, heads_count_at, heads, heads_end, change_meta, ops_meta, meta_end, suffix_start })
}

fn write_cols(out: &mut Vec<u8>, cols: &[ColMeta]) {
    write_uleb(out, cols.len() as u64);
    for c in cols {
        write_uleb(out, c.spec);
        write_uleb(out, c.len as u64);
    }
}

/// rebuild a document chunk body with new heads (sorted) and/or one column replaced; the head-index suffix is dropped
pub fn rebuild_doc(body: &[u8], lay: &DocLayout, new_heads: Option<&[[u8; 32]]>, replace: Option<(usize, Vec<u8>)>) -> Vec<u8> {
    let mut out = body[..lay.prefix_actors_end].to_vec();
    let heads: Vec<[u8; 32]> = new_heads.map(|h| h.to_vec()).unwrap_or_else(|| lay.heads.clone());
    write_uleb(&mut out, heads.len() as u64);
    for h in &heads {
        out.extend_from_slice(h);
    }
    let mut cm = lay.change_meta.clone();
    let mut om = lay.ops_meta.clone();
    let mut cols: Vec<Vec<u8>> = vec![];
    let keep_suffix = new_heads.is_none() && replace.is_none();
    let mut pos = lay.meta_end;
    for c in cm.iter().chain(om.iter()) {
        cols.push(body[pos..pos + c.len].to_vec());
        pos += c.len;
    }
    if let Some((i, bytes)) = replace {
        if i < cols.len() {
            if i < cm.len() {
                cm[i].len = bytes.len();
            } else {
                om[i - cm.len()].len = bytes.len();
            }
            cols[i] = bytes;
        }
    }
    write_cols(&mut out, &cm);
    write_cols(&mut out, &om);
    for c in cols {
        out.extend_from_slice(&c);
    }
    if keep_suffix {
        out.extend_from_slice(&body[lay.suffix_start..]);
    }
    out
}

pub const MARKERS: [&[u8]; 10] = ["\u{e9}".as_bytes(), "\u{6F22}".as_bytes(), "\u{1F600}".as_bytes(), b"k0", b"k1", b"bold", b"link", b"list", b"hello", b"xyz"];

fn bad_utf8(len: usize, style: u8) -> Vec<u8> {
    let pat: &[u8] = match style % 5 {
        0 => &[0xFF],
        1 => &[0xC0, 0x80],
        2 => &[0xED, 0xA0, 0x80],
        3 => &[0xE2, 0x28, 0xA1],
        _ => &[0xF0, 0x80, 0x80, 0x80],
    };
    let mut v = vec![];
    while v.len() < len {
        v.extend_from_slice(pat);
    }
    v.truncate(len);
    if len == 1 {
        v[0] = 0xFF;
    }
    // a truncated multibyte sequence at the end is itself invalid; make sure the last byte is not ASCII-valid alone
    if *v.last().unwrap() < 0x80 {
        *v.last_mut().unwrap() = 0xFE;
    }
    v
}

pub struct MutResult {
    pub bytes: Vec<u8>,
    /// the mutation landed inside chunk data with a valid container checksum
    pub in_body_with_valid_checksum: bool,
    /// chunk indexes whose document body changed (candidates for heads re-derivation)
    pub doc_chunks_changed: Vec<usize>,
    pub leb_extreme: bool,
    pub bad_utf8_sites: usize,
}

/// apply the mutations; compressed change chunks are inflated, mutated and re-deflated
pub fn apply(input: &[u8], muts: &[Mut]) -> MutResult {
    let mut bytes = input.to_vec();
    let mut res = MutResult { bytes: vec![], in_body_with_valid_checksum: false, doc_chunks_changed: vec![], leb_extreme: false, bad_utf8_sites: 0 };
    for m in muts {
        let (chunks, _) = split(&bytes);
        let with_body = |bytes: &mut Vec<u8>, ci: u8, f: &mut dyn FnMut(&mut Vec<u8>, u8) -> bool, res: &mut MutResult| {
            if chunks.is_empty() {
                return;
            }
            let i = (ci as usize) % chunks.len();
            let c = &chunks[i];
            let raw = bytes[c.data_start..c.end].to_vec();
            let mut body = if c.ty == T_COMPRESSED { inflate(&raw).unwrap_or(raw.clone()) } else { raw.clone() };
            if !f(&mut body, c.ty) {
                return;
            }
            let data = if c.ty == T_COMPRESSED { deflate(&body) } else { body };
            let new = wrap(c.ty, &data);
            bytes.splice(c.start..c.end, new);
            res.in_body_with_valid_checksum = true;
            if c.ty == T_DOC {
                res.doc_chunks_changed.push(i);
            }
        };
        match m {
            Mut::Flip { pos, bit } => {
                if !bytes.is_empty() {
                    let p = (*pos as usize) % bytes.len();
                    bytes[p] ^= 1 << (bit % 8);
                }
            }
            Mut::Set { pos, val } => {
                if !bytes.is_empty() {
                    let p = (*pos as usize) % bytes.len();
                    bytes[p] = *val;
                }
            }
            Mut::Truncate { len } => {
                let l = (*len as usize) % (bytes.len() + 1);
                bytes.truncate(l);
            }
            Mut::Insert { pos, bytes: ins } => {
                let p = (*pos as usize) % (bytes.len() + 1);
                bytes.splice(p..p, ins.iter().copied());
            }
            Mut::BodySet { chunk, pos, val } => with_body(&mut bytes, *chunk, &mut |b, _| {
                if b.is_empty() {
                    return false;
                }
                let p = (*pos as usize) % b.len();
                b[p] = *val;
                true
            }, &mut res),
            Mut::BodyFlip { chunk, pos, bit } => with_body(&mut bytes, *chunk, &mut |b, _| {
                if b.is_empty() {
                    return false;
                }
                let p = (*pos as usize) % b.len();
                b[p] ^= 1 << (bit % 8);
                true
            }, &mut res),
            Mut::BodyLeb { chunk, pos, which } => {
                let mut did = false;
                with_body(&mut bytes, *chunk, &mut |b, _| {
                    if b.is_empty() {
                        return false;
                    }
                    let p = (*pos as usize) % b.len();
                    let n = leb_len_at(b, p);
                    let mut v = vec![];
                    write_uleb(&mut v, LEB_EXTREMES[(*which as usize) % LEB_EXTREMES.len()]);
                    b.splice(p..p + n, v);
                    did = true;
                    true
                }, &mut res);
                res.leb_extreme |= did;
            }
            Mut::BodyInsert { chunk, pos, bytes: ins } => with_body(&mut bytes, *chunk, &mut |b, _| {
                let p = (*pos as usize) % (b.len() + 1);
                b.splice(p..p, ins.iter().copied());
                true
            }, &mut res),
            Mut::BodyDelete { chunk, pos, len } => with_body(&mut bytes, *chunk, &mut |b, _| {
                if b.is_empty() {
                    return false;
                }
                let p = (*pos as usize) % b.len();
                let e = (p + 1 + *len as usize % 4).min(b.len());
                b.drain(p..e);
                true
            }, &mut res),
            Mut::Col { chunk, col, op, pos, val, which } => with_body(&mut bytes, *chunk, &mut |b, ty| {
                if ty != T_DOC {
                    return false;
                }
                let Some(lay) = parse_doc(b) else { return false };
                let ncols = lay.change_meta.len() + lay.ops_meta.len();
                if ncols == 0 {
                    return false;
                }
                let ci = (*col as usize) % ncols;
                let meta = if ci < lay.change_meta.len() { &lay.change_meta[ci] } else { &lay.ops_meta[ci - lay.change_meta.len()] };
                let start = lay.meta_end + lay.change_meta.iter().chain(lay.ops_meta.iter()).take(ci).map(|c| c.len).sum::<usize>();
                let rawcol = b[start..start + meta.len].to_vec();
                let deflated = meta.spec & 8 != 0;
                let mut colb = if deflated { inflate(&rawcol).unwrap_or(rawcol.clone()) } else { rawcol };
                let p = if colb.is_empty() { 0 } else { (*pos as usize) % colb.len() };
                match op % 6 {
                    0 if !colb.is_empty() => colb[p] = *val,
                    1 if !colb.is_empty() => colb[p] ^= 1 << (val % 8),
                    2 if !colb.is_empty() => {
                        let n = leb_len_at(&colb, p);
                        let mut v = vec![];
                        write_uleb(&mut v, LEB_EXTREMES[(*which as usize) % LEB_EXTREMES.len()]);
                        colb.splice(p..p + n, v);
                    }
                    3 => colb.insert(p.min(colb.len()), *val),
                    4 if !colb.is_empty() => {
                        colb.remove(p);
                    }
                    5 if !colb.is_empty() => {
                        // small +-1 nudge of a LEB (keeps the stream shape: run lengths, counts, deltas)
                        colb[p] = (colb[p] & 0x80) | ((colb[p] & 0x7f).wrapping_add(if *val & 1 == 0 { 1 } else { 0x7f }) & 0x7f);
                    }
                    _ => return false,
                }
                let newcol = if deflated { deflate(&colb) } else { colb };
                let nb = rebuild_doc(b, &lay, None, Some((ci, newcol)));
                *b = nb;
                true
            }, &mut res),
            Mut::BadUtf8 { nth, style } => {
                // find marker occurrences inside (inflated) chunk bodies
                let mut sites: Vec<(usize, usize, usize)> = vec![]; // (chunk, offset, len)
                for (ci, c) in chunks.iter().enumerate() {
                    let raw = &bytes[c.data_start..c.end];
                    let body = if c.ty == T_COMPRESSED { inflate(raw).unwrap_or(raw.to_vec()) } else { raw.to_vec() };
                    for mk in MARKERS.iter() {
                        let mut from = 0;
                        while let Some(i) = body[from..].windows(mk.len()).position(|w| w == *mk) {
                            sites.push((ci, from + i, mk.len()));
                            from += i + 1;
                        }
                    }
                }
                res.bad_utf8_sites = sites.len();
                if !sites.is_empty() {
                    let (ci, off, len) = sites[(*nth as usize) % sites.len()];
                    with_body(&mut bytes, ci as u8, &mut |b, _| {
                        if off + len > b.len() {
                            return false;
                        }
                        let bad = bad_utf8(len, *style);
                        b[off..off + len].copy_from_slice(&bad);
                        true
                    }, &mut res);
                }
            }
            Mut::DupChunk { chunk } => {
                if !chunks.is_empty() {
                    let c = &chunks[(*chunk as usize) % chunks.len()];
                    let copy = bytes[c.start..c.end].to_vec();
                    bytes.extend_from_slice(&copy);
                }
            }
            Mut::SwapChunks { a, b } => {
                if chunks.len() >= 2 {
                    let (i, j) = ((*a as usize) % chunks.len(), (*b as usize) % chunks.len());
                    if i != j {
                        let (i, j) = (i.min(j), i.max(j));
                        let ci = bytes[chunks[i].start..chunks[i].end].to_vec();
                        let cj = bytes[chunks[j].start..chunks[j].end].to_vec();
                        let mut out = bytes[..chunks[i].start].to_vec();
                        out.extend_from_slice(&cj);
                        out.extend_from_slice(&bytes[chunks[i].end..chunks[j].start]);
                        out.extend_from_slice(&ci);
                        out.extend_from_slice(&bytes[chunks[j].end..]);
                        bytes = out;
                    }
                }
            }
        }
    }
    res.bytes = bytes;
    res
}

/// Re-derive the heads a (mutated) document chunk body implies so that default verification passes:
/// load with unverified heads, take the changes, heads = hashes nobody depends on.
pub fn fix_heads(bytes: &[u8], doc_chunks: &[usize]) -> Option<Vec<u8>> {
    let (chunks, _) = split(bytes);
    let mut out = bytes.to_vec();
    // process from the back so earlier offsets stay valid
    let mut idx: Vec<usize> = doc_chunks.to_vec();
    idx.sort();
    idx.dedup();
    for i in idx.into_iter().rev() {
        let c = chunks.get(i)?;
        if c.ty != T_DOC {
            continue;
        }
        let chunk_bytes = bytes[c.start..c.end].to_vec();
        let doc = std::panic::catch_unwind(|| automerge::Automerge::load_unverified_heads(&chunk_bytes)).ok()?.ok()?;
        let changes = std::panic::catch_unwind(std::panic::AssertUnwindSafe(|| doc.get_changes(&[]))).ok()?;
        let mut depended = std::collections::HashSet::new();
        for ch in &changes {
            for d in ch.deps() {
                depended.insert(d.0);
            }
        }
        let mut heads: Vec<[u8; 32]> = changes.iter().map(|c| c.hash().0).filter(|h| !depended.contains(h)).collect();
        heads.sort();
        let body = &bytes[c.data_start..c.end];
        let lay = parse_doc(body)?;
        let nb = rebuild_doc(body, &lay, Some(&heads), None);
        let new = wrap(T_DOC, &nb);
        out.splice(c.start..c.end, new);
    }
    Some(out)
}


/// Which parts of the container do `orig` and `mutated` differ in (first differing byte of every differing chunk,
/// located in the layout of the original)? Used to key findings on the region a mutation touched.
pub fn regions(orig: &[u8], mutated: &[u8]) -> String {
    let (a, _) = super::chunks::split(orig);
    let (b, _) = super::chunks::split(mutated);
    if a.len() != b.len() || a.iter().zip(b.iter()).any(|(x, y)| x.ty != y.ty) {
        return "container".to_string();
    }
    let mut out: std::collections::BTreeSet<&'static str> = Default::default();
    for (x, y) in a.iter().zip(b.iter()) {
        let (xb, yb) = (&orig[x.data_start..x.end], &mutated[y.data_start..y.end]);
        if xb == yb {
            continue;
        }
        let off = xb.iter().zip(yb.iter()).position(|(p, q)| p != q).unwrap_or(xb.len().min(yb.len()));
        let r = match x.ty {
            super::chunks::T_DOC => match parse_doc(xb) {
                None => "doc-chunk",
                Some(l) => {
                    if off < l.prefix_actors_end {
                        "actors"
                    } else if off < l.heads_end {
                        "heads"
                    } else if off < l.meta_end {
                        "column-metadata"
                    } else {
                        let change_len: usize = l.change_meta.iter().map(|c| c.len).sum();
                        if off < l.meta_end + change_len {
                            "change-columns"
                        } else if off < l.suffix_start {
                            "op-columns"
                        } else {
                            "suffix"
                        }
                    }
                }
            },
            super::chunks::T_CHANGE => "change-chunk",
            super::chunks::T_COMPRESSED => "compressed-change-chunk",
            _ => "other-chunk",
        };
        out.insert(r);
    }
    if out.is_empty() {
        "none".to_string()
    } else {
        out.into_iter().collect::<Vec<_>>().join("+")
    }
}
