//! Interpreter for `Program`s over a set of `AutoCommit` replicas.
use super::program::*;
use automerge::marks::{ExpandMark, Mark};
use automerge::sync::{self, SyncDoc};
use automerge::transaction::{CommitOptions, Transactable};
use automerge::{
    ActorId, AutoCommit, Change, ChangeHash, LoadOptions, ObjId, ObjType, ReadDoc, SaveOptions, ScalarValue,
    TextEncoding, ROOT,
};
use std::collections::{BTreeMap, HashMap};

pub const KEYS: [&str; 8] = ["a", "b", "c", "k0", "k1", "", "\u{e9}", "k2"];
pub const FRAGS: [&str; 14] = [
    "a",
    "bc",
    "xyz",
    "\u{e9}",
    "e\u{301}",
    "\u{1F600}",
    "\u{1F468}\u{200D}\u{1F469}\u{200D}\u{1F467}",
    "\u{1F1E9}\u{1F1EA}",
    "\u{6F22}\u{5B57}",
    "\u{fffc}",
    " ",
    "q\u{1F600}r",
    "\n",
    "hello world",
];
pub const MARK_NAMES: [&str; 3] = ["bold", "link", "m"];

pub fn encoding(e: u8) -> TextEncoding {
    match e % 4 {
        0 => TextEncoding::UnicodeCodePoint,
        1 => TextEncoding::Utf8CodeUnit,
        2 => TextEncoding::Utf16CodeUnit,
        _ => TextEncoding::GraphemeCluster,
    }
}

pub fn actor_for(j: usize) -> ActorId {
    // unique, and later actors frequently sort before earlier ones
    ActorId::from(vec![((j * 97 + 13) % 251) as u8, (j % 256) as u8, (j / 256) as u8, 0x77])
}

pub fn expand_of(x: usize) -> ExpandMark {
    match x % 4 {
        0 => ExpandMark::After,
        1 => ExpandMark::Before,
        2 => ExpandMark::Both,
        _ => ExpandMark::None,
    }
}

/// counter-heavy variant: half counters, the rest ints and strings
pub fn scalar_heavy(c: u16, n: i64, d: u16) -> ScalarValue {
    match sel(c, 8) {
        0..=3 => ScalarValue::counter(n),
        4 | 5 => ScalarValue::Int(n),
        _ => ScalarValue::Str(FRAGS[sel(d, FRAGS.len())].into()),
    }
}

pub fn scalar(c: u16, n: i64, d: u16) -> ScalarValue {
    match sel(c, 14) {
        0..=3 => ScalarValue::Int(n),
        4 | 5 => ScalarValue::Str(FRAGS[sel(d, FRAGS.len())].into()),
        6 | 7 => ScalarValue::counter(n),
        8 => ScalarValue::Boolean(n & 1 == 0),
        9 => ScalarValue::Null,
        10 => ScalarValue::F64(n as f64 * 0.5),
        11 => ScalarValue::Uint(n.unsigned_abs()),
        12 => ScalarValue::Timestamp(n * 1000),
        _ => ScalarValue::Bytes(vec![n as u8, d as u8]),
    }
}

pub struct Replica {
    pub doc: AutoCommit,
    pub actor: ActorId,
    pub isolated: Option<Vec<ChangeHash>>,
}

#[derive(Clone, Debug, Default)]
pub struct Opts {
    /// number of keys from KEYS in use
    pub nkeys: usize,
    /// forbid steps that need hooks etc.
    pub max_reps: usize,
    /// when true, never insert into a list directly after an element holding an incremented counter (known finding exclusion)
    pub avoid: Vec<String>,
    /// splice_text may insert a lone combining accent (only checks that classify the grapheme known finding enable it)
    pub lone_combining: bool,
    /// registers mix counters and plain values (COUNTER preset)
    pub counter_heavy: bool,
}

#[derive(Clone, Debug)]
pub struct Created {
    pub rep: usize,
    pub hash: ChangeHash,
    /// isolation heads in force when the change was committed
    pub iso_before: Option<Vec<ChangeHash>>,
    /// replica's configured actor at commit time
    pub actor: ActorId,
    pub empty: bool,
}

pub struct StepOut {
    pub rep: usize,
    /// the step called a mutating library function
    pub applied: bool,
    /// the library call returned Err
    pub err: Option<String>,
}

pub struct Interp {
    pub enc: TextEncoding,
    pub reps: Vec<Replica>,
    pub objs: Vec<(ObjId, ObjType)>,
    pub heads: Vec<Vec<ChangeHash>>,
    pub change_bytes: HashMap<ChangeHash, Vec<u8>>,
    pub next_actor: usize,
    pub opts: Opts,
    pub classes: BTreeMap<&'static str, u64>,
    pub trace: Vec<String>,
    pub created: Vec<Created>,
}

pub fn load_opts(enc: TextEncoding) -> LoadOptions<'static> {
    LoadOptions::new().text_encoding(enc)
}

/// element start offsets of a text/list object plus the length as the last entry
pub fn bounds<D: ReadDoc>(doc: &D, obj: &ObjId) -> Vec<usize> {
    let len = doc.length(obj);
    let mut out = vec![];
    let mut last: Option<ObjId> = None;
    for i in 0..len {
        match doc.get(obj, i) {
            Ok(Some((_, id))) => {
                if last.as_ref() != Some(&id) {
                    out.push(i);
                    last = Some(id);
                }
            }
            _ => {}
        }
    }
    out.push(len);
    out
}

impl Interp {
    pub fn new(p: &Program, opts: Opts) -> Self {
        let enc = encoding(p.enc);
        let nrep = (p.nrep.clamp(1, 5)) as usize;
        let mut it = Interp {
            enc,
            reps: vec![],
            objs: vec![(ROOT, ObjType::Map)],
            heads: vec![],
            change_bytes: HashMap::new(),
            next_actor: 0,
            opts,
            classes: BTreeMap::new(),
            trace: vec![],
            created: vec![],
        };
        if p.flavor == 1 {
            it.opts.counter_heavy = true;
        }
        if it.opts.nkeys == 0 {
            it.opts.nkeys = if p.nkeys > 0 { p.nkeys as usize } else { KEYS.len() };
        }
        if p.shared {
            let mut base = AutoCommit::new_with_encoding(enc).with_actor(ActorId::from(vec![9u8, 0]));
            let l = base.put_object(ROOT, "list", ObjType::List).unwrap();
            let t = base.put_object(ROOT, "text", ObjType::Text).unwrap();
            let m = base.put_object(ROOT, "map", ObjType::Map).unwrap();
            base.commit_with(CommitOptions::default().with_time(0));
            it.objs.push((l, ObjType::List));
            it.objs.push((t, ObjType::Text));
            it.objs.push((m, ObjType::Map));
            if let Some(c) = base.get_last_local_change() {
                it.change_bytes.insert(c.hash(), c.raw_bytes().to_vec());
            }
            it.heads.push(base.get_heads());
            for _ in 0..nrep {
                let a = it.fresh_actor();
                let doc = base.fork().with_actor(a.clone());
                it.reps.push(Replica { doc, actor: a, isolated: None });
            }
        } else {
            for _ in 0..nrep {
                let a = it.fresh_actor();
                let doc = AutoCommit::new_with_encoding(enc).with_actor(a.clone());
                it.reps.push(Replica { doc, actor: a, isolated: None });
            }
        }
        it
    }

    pub fn fresh_actor(&mut self) -> ActorId {
        let a = actor_for(self.next_actor);
        self.next_actor += 1;
        a
    }

    pub fn class(&mut self, c: &'static str) {
        *self.classes.entry(c).or_default() += 1;
    }

    pub fn pick_obj(&self, r: usize, want: &[ObjType], s: u16) -> Option<ObjId> {
        let doc = &self.reps[r].doc;
        let c: Vec<&ObjId> = self
            .objs
            .iter()
            .filter(|(id, t)| want.contains(t) && doc.object_type(id).is_ok())
            .map(|(id, _)| id)
            .collect();
        if c.is_empty() {
            None
        } else {
            Some(c[sel(s, c.len())].clone())
        }
    }

    pub fn key(&self, b: u16) -> &'static str {
        KEYS[sel(b, self.opts.nkeys.min(KEYS.len()))]
    }

    pub fn record_heads(&mut self, r: usize) {
        let h = self.reps[r].doc.get_heads();
        if !self.heads.contains(&h) && self.heads.len() < 40 {
            self.heads.push(h);
        }
    }

    pub fn record_last_change(&mut self, r: usize) {
        if let Some(c) = self.reps[r].doc.get_last_local_change() {
            self.change_bytes.entry(c.hash()).or_insert_with(|| c.raw_bytes().to_vec());
        }
    }

    /// commit pending ops of replica r (default options), recording the change
    pub fn commit(&mut self, r: usize) -> Option<ChangeHash> {
        let h = self.reps[r].doc.commit_with(CommitOptions::default().with_time(0));
        self.note_created(r, h, false);
        h
    }

    fn note_created(&mut self, r: usize, h: Option<ChangeHash>, empty: bool) {
        if let Some(hash) = h {
            self.record_last_change(r);
            let iso_before = self.reps[r].isolated.clone();
            let actor = self.reps[r].actor.clone();
            self.created.push(Created { rep: r, hash, iso_before, actor, empty });
            if self.reps[r].isolated.is_some() {
                self.reps[r].isolated = Some(vec![hash]);
            }
        }
    }

    pub fn knows_heads(&mut self, r: usize, h: &[ChangeHash]) -> bool {
        h.iter().all(|x| self.reps[r].doc.get_change_by_hash(x).is_some())
    }

    pub fn all_changes(&mut self, r: usize) -> Vec<Change> {
        self.reps[r].doc.get_changes(&[])
    }

    pub fn run(&mut self, p: &Program) {
        for s in &p.steps {
            self.step(s);
        }
    }

    pub fn step(&mut self, s: &Step) -> StepOut {
        let nrep = self.reps.len();
        let r = (s.r as usize) % nrep;
        let mut out = StepOut { rep: r, applied: false, err: None };
        macro_rules! done {
            ($res:expr) => {{
                out.applied = true;
                if let Err(e) = $res {
                    out.err = Some(e.to_string());
                }
            }};
        }
        match s.k {
            PUT => {
                if let Some(o) = self.pick_obj(r, &[ObjType::Map, ObjType::Table], s.a) {
                    let k = self.key(s.b);
                    let v = if self.opts.counter_heavy { scalar_heavy(s.c, s.n, s.d) } else { scalar(s.c, s.n, s.d) };
                    self.note_noop_resolution(r, &o, k, &v);
                    done!(self.reps[r].doc.put(&o, k, v));
                }
            }
            DELETE => {
                if let Some(o) = self.pick_obj(r, &[ObjType::Map, ObjType::Table], s.a) {
                    let k = self.key(s.b);
                    done!(self.reps[r].doc.delete(&o, k));
                }
            }
            INCREMENT => {
                if let Some(o) = self.pick_obj(r, &[ObjType::Map, ObjType::Table], s.a) {
                    let k = self.key(s.b);
                    done!(self.reps[r].doc.increment(&o, k, s.n));
                }
            }
            PUT_OBJECT => {
                if let Some(o) = self.pick_obj(r, &[ObjType::Map, ObjType::Table], s.a) {
                    let k = self.key(s.b);
                    let t = [ObjType::Map, ObjType::List, ObjType::Text][sel(s.c, 3)];
                    let res = self.reps[r].doc.put_object(&o, k, t);
                    if let Ok(id) = &res {
                        self.register(id.clone(), t);
                    }
                    done!(res);
                }
            }
            LIST_INSERT => {
                if let Some(o) = self.pick_obj(r, &[ObjType::List], s.a) {
                    let len = self.reps[r].doc.length(&o);
                    let idx = sel(s.b, len + 1);
                    if self.avoid_insert_after_counter(r, &o, idx) {
                        return out;
                    }
                    done!(self.reps[r].doc.insert(&o, idx, scalar(s.c, s.n, s.d)));
                }
            }
            INSERT_OBJECT => {
                if let Some(o) = self.pick_obj(r, &[ObjType::List], s.a) {
                    let len = self.reps[r].doc.length(&o);
                    let idx = sel(s.b, len + 1);
                    if self.avoid_insert_after_counter(r, &o, idx) {
                        return out;
                    }
                    let t = [ObjType::Map, ObjType::List, ObjType::Text][sel(s.c, 3)];
                    let res = self.reps[r].doc.insert_object(&o, idx, t);
                    if let Ok(id) = &res {
                        self.register(id.clone(), t);
                    }
                    done!(res);
                }
            }
            LIST_PUT => {
                if let Some(o) = self.pick_obj(r, &[ObjType::List], s.a) {
                    let len = self.reps[r].doc.length(&o);
                    if len > 0 {
                        let v = if self.opts.counter_heavy { scalar_heavy(s.c, s.n, s.d) } else { scalar(s.c, s.n, s.d) };
                        self.note_noop_resolution(r, &o, sel(s.b, len), &v);
                        done!(self.reps[r].doc.put(&o, sel(s.b, len), v));
                    }
                }
            }
            LIST_DELETE => {
                if let Some(o) = self.pick_obj(r, &[ObjType::List], s.a) {
                    let len = self.reps[r].doc.length(&o);
                    if len > 0 {
                        done!(self.reps[r].doc.delete(&o, sel(s.b, len)));
                    }
                }
            }
            LIST_INCREMENT => {
                if let Some(o) = self.pick_obj(r, &[ObjType::List], s.a) {
                    let len = self.reps[r].doc.length(&o);
                    if len > 0 {
                        done!(self.reps[r].doc.increment(&o, sel(s.b, len), s.n));
                    }
                }
            }
            SPLICE => {
                if let Some(o) = self.pick_obj(r, &[ObjType::List], s.a) {
                    let len = self.reps[r].doc.length(&o);
                    let pos = sel(s.b, len + 1);
                    let del = sel(s.c, (len - pos).min(3) + 1);
                    let nv = sel(s.d, 4);
                    if nv > 0 && del == 0 && self.avoid_insert_after_counter(r, &o, pos) {
                        return out;
                    }
                    let vals: Vec<ScalarValue> = (0..nv).map(|i| scalar(s.d.wrapping_mul(7 + i as u16), s.n + i as i64, s.a)).collect();
                    done!(self.reps[r].doc.splice(&o, pos, del as isize, vals));
                }
            }
            SPLICE_TEXT => {
                if let Some(o) = self.pick_obj(r, &[ObjType::Text], s.a) {
                    let b = bounds(&self.reps[r].doc, &o);
                    let i = sel(s.b, b.len());
                    let j = (i + sel(s.c, 4)).min(b.len() - 1);
                    // n == 11: a lone combining accent (joins the preceding character into one grapheme cluster)
                    let frag = if s.n < 0 { "" } else if s.n == 11 && self.opts.lone_combining { "\u{301}" } else { FRAGS[sel(s.d, FRAGS.len())] };
                    done!(self.reps[r].doc.splice_text(&o, b[i], (b[j] - b[i]) as isize, frag));
                }
            }
            TEXT_PUT => {
                if let Some(o) = self.pick_obj(r, &[ObjType::Text], s.a) {
                    let b = bounds(&self.reps[r].doc, &o);
                    if b.len() > 1 {
                        let i = sel(s.b, b.len() - 1);
                        let v = scalar(s.c, s.n, s.d);
                        self.note_noop_resolution(r, &o, b[i], &v);
                        done!(self.reps[r].doc.put(&o, b[i], v));
                    }
                }
            }
            MARK | UNMARK => {
                if let Some(o) = self.pick_obj(r, &[ObjType::Text], s.a) {
                    let b = bounds(&self.reps[r].doc, &o);
                    let (mut i, mut j) = (sel(s.b, b.len()), sel(s.c, b.len()));
                    if i > j {
                        std::mem::swap(&mut i, &mut j);
                    }
                    let nx = sel(s.d, 12);
                    let name = MARK_NAMES[nx % 3];
                    let ex = expand_of(nx / 3);
                    if s.k == MARK {
                        let v = if s.n < 0 {
                            ScalarValue::Null
                        } else if s.n >= 9 {
                            ScalarValue::Str("v".into())
                        } else {
                            ScalarValue::Int(s.n % 3)
                        };
                        done!(self.reps[r].doc.mark(&o, Mark::new(name.to_string(), v, b[i], b[j]), ex));
                    } else {
                        done!(self.reps[r].doc.unmark(&o, name, b[i], b[j], ex));
                    }
                }
            }
            BLOCK => {
                if self.reps[r].isolated.is_some() {
                    // known finding (C29 family; recorded under C37 as the fork_at / BatchApply `entry.is_empty()` panic):
                    // a block inserted in an isolated transaction next to marks hidden by the scope leaves an op order
                    // that later replays (fork, fork_at) assert on. Excluded by construction and counted.
                    self.class("skipped:block-under-isolation");
                    return out;
                }
                if let Some(o) = self.pick_obj(r, &[ObjType::Text], s.a) {
                    let b = bounds(&self.reps[r].doc, &o);
                    let i = sel(s.b, b.len());
                    match s.c % 3 {
                        0 => {
                            let res = self.reps[r].doc.split_block(&o, b[i]);
                            if let Ok(id) = &res {
                                self.register(id.clone(), ObjType::Map);
                            }
                            done!(res);
                        }
                        1 => done!(self.reps[r].doc.join_block(&o, b[i])),
                        _ => {
                            let res = self.reps[r].doc.replace_block(&o, b[i]);
                            if let Ok(id) = &res {
                                self.register(id.clone(), ObjType::Map);
                            }
                            done!(res);
                        }
                    }
                }
            }
            UPDATE_TEXT => {
                if let Some(o) = self.pick_obj(r, &[ObjType::Text], s.a) {
                    let mut t = String::new();
                    for x in [s.b, s.c, s.d] {
                        t.push_str(FRAGS[sel(x, FRAGS.len())]);
                    }
                    done!(self.reps[r].doc.update_text(&o, &t));
                }
            }
            COMMIT => {
                let mut o = CommitOptions::default().with_time(s.n);
                if s.a & 1 == 1 {
                    o = o.with_message(format!("m{}", s.b % 5));
                }
                let h = self.reps[r].doc.commit_with(o);
                if h.is_some() {
                    out.applied = true;
                }
                self.note_created(r, h, false);
                self.record_heads(r);
            }
            EMPTY_CHANGE => {
                if self.reps[r].isolated.is_some() {
                    // empty_change inside isolate() is outside what C04/C29 state; not exercised
                    self.class("excluded_empty_change_under_isolation");
                    return out;
                }
                self.commit(r);
                let h = self.reps[r].doc.empty_change(CommitOptions::default().with_time(s.n).with_message("empty"));
                self.note_created(r, Some(h), true);
                self.record_heads(r);
                out.applied = true;
            }
            ROLLBACK => {
                let n = self.reps[r].doc.rollback();
                if n > 0 {
                    self.class("rollback_nonempty");
                    // objects created by the rolled back ops are gone and their ids will be reused,
                    // possibly for an object of another type: forget them
                    let reps = &self.reps;
                    self.objs.retain(|(id, _)| reps.iter().any(|rp| rp.doc.object_type(id).is_ok()));
                }
                out.applied = true;
            }
            MERGE => {
                let j = sel(s.a, nrep);
                if j != r {
                    self.commit(j);
                    self.commit(r);
                    let mut other = self.reps[j].doc.clone();
                    let res = self.reps[r].doc.merge(&mut other);
                    done!(res);
                    self.record_heads(r);
                }
            }
            FORK => {
                let j = sel(s.a, nrep);
                self.commit(j);
                let a = self.fresh_actor();
                let forked = if s.b & 1 == 1 && !self.heads.is_empty() {
                    let h = self.heads[sel(s.c, self.heads.len())].clone();
                    if self.knows_heads(j, &h) {
                        self.reps[j].doc.fork_at(&h).ok()
                    } else {
                        None
                    }
                } else {
                    None
                };
                let doc = match forked {
                    Some(d) => {
                        self.class("fork_at");
                        d
                    }
                    None => self.reps[j].doc.fork(),
                }
                .with_actor(a.clone());
                let rep = Replica { doc, actor: a, isolated: None };
                let cap = if self.opts.max_reps == 0 { 5 } else { self.opts.max_reps };
                if self.reps.len() < cap {
                    self.reps.push(rep);
                } else if j != r {
                    self.reps[r] = rep;
                }
                out.applied = true;
            }
            SAVE_LOAD => {
                self.commit(r);
                if self.reps[r].isolated.is_some() {
                    return out;
                }
                let bytes = {
                    let d = &mut self.reps[r].doc;
                    let o = SaveOptions { deflate: s.a & 1 == 0, retain_orphans: true };
                    d.save_with_options(o)
                };
                match AutoCommit::load_with_options(&bytes, load_opts(self.enc)) {
                    Ok(d) => {
                        let a = self.reps[r].actor.clone();
                        self.reps[r].doc = d.with_actor(a);
                        self.class("save_load");
                        out.applied = true;
                    }
                    Err(e) => {
                        out.applied = true;
                        out.err = Some(format!("load(save()) failed: {e}"));
                    }
                }
            }
            APPLY => {
                let j = sel(s.a, nrep);
                if j != r {
                    self.commit(j);
                    self.commit(r);
                    let mut ch = self.all_changes(j);
                    match s.b % 4 {
                        0 => {}
                        1 => ch.reverse(),
                        2 => {
                            let n = ch.len();
                            if n > 0 {
                                ch.rotate_left(sel(s.c, n));
                            }
                        }
                        _ => {
                            let n = ch.len();
                            ch.truncate(sel(s.c, n + 1));
                        }
                    }
                    if s.d & 1 == 1 {
                        let dup: Vec<Change> = ch.iter().take(3).cloned().collect();
                        ch.extend(dup);
                    }
                    done!(self.reps[r].doc.apply_changes(ch));
                    self.record_heads(r);
                }
            }
            LOAD_INC => {
                let j = sel(s.a, nrep);
                if j != r {
                    self.commit(j);
                    self.commit(r);
                    // saving from a clone: the source's incremental-save cursor is not disturbed
                    let mut src = self.reps[j].doc.clone();
                    let bytes = match s.b % 3 {
                        0 => src.save(),
                        1 => {
                            let h = self.reps[r].doc.get_heads();
                            if self.knows_heads(j, &h) {
                                src.save_after(&h)
                            } else {
                                src.save_nocompress()
                            }
                        }
                        _ => {
                            if !self.heads.is_empty() {
                                let h = self.heads[sel(s.c, self.heads.len())].clone();
                                if self.knows_heads(j, &h) {
                                    src.save_after(&h)
                                } else {
                                    src.save()
                                }
                            } else {
                                src.save()
                            }
                        }
                    };
                    // save_after relative to heads the receiver lacks would leave orphans; only feed
                    // pieces whose dependencies the receiver has or which are full saves
                    let mut probe = self.reps[r].doc.clone();
                    if probe.load_incremental(&bytes).is_ok() && probe.get_missing_deps(&[]).is_empty() {
                        done!(self.reps[r].doc.load_incremental(&bytes));
                        self.record_heads(r);
                    }
                }
            }
            SYNC => {
                let j = sel(s.a, nrep);
                if j != r {
                    self.commit(j);
                    self.commit(r);
                    let res = self.sync_pair(r, j);
                    done!(res);
                    self.record_heads(r);
                }
            }
            RECORD_HEADS => {
                self.commit(r);
                self.record_heads(r);
            }
            ISOLATE => {
                if !self.heads.is_empty() && self.reps[r].isolated.is_none() {
                    self.commit(r);
                    let h = self.heads[sel(s.a, self.heads.len())].clone();
                    if self.knows_heads(r, &h) {
                        self.reps[r].doc.isolate(&h);
                        self.reps[r].isolated = Some(h);
                        out.applied = true;
                    }
                }
            }
            INTEGRATE => {
                if self.reps[r].isolated.is_some() {
                    self.commit(r);
                    self.reps[r].doc.integrate();
                    self.reps[r].isolated = None;
                    out.applied = true;
                    self.record_heads(r);
                }
            }
            SET_ACTOR => {
                self.commit(r);
                let a = self.fresh_actor();
                self.reps[r].doc.set_actor(a.clone());
                self.reps[r].actor = a;
                out.applied = true;
            }
            _ => {}
        }
        out
    }

    /// a put whose value equals the current winner of a conflicted register resolves the conflict
    /// without any visible change (known finding C09 noop conflict resolution): count it
    fn note_noop_resolution<P: Into<automerge::Prop>>(&mut self, r: usize, o: &ObjId, prop: P, v: &ScalarValue) {
        if let Ok(all) = self.reps[r].doc.get_all(o, prop) {
            if all.len() > 1 {
                if let Some((automerge::Value::Scalar(w), _)) = all.last() {
                    if w.as_ref() == v {
                        self.class("noop_conflict_resolution");
                    }
                }
            }
        }
    }

    fn register(&mut self, id: ObjId, t: ObjType) {
        if self.objs.len() < 64 {
            self.objs.push((id, t));
        }
    }

    /// known-finding exclusion (see known_findings.json, C10 `insert-after-incremented-counter`):
    /// returns true when inserting at `idx` would place a new element directly after a list
    /// element on which an increment was performed.
    fn avoid_insert_after_counter(&mut self, r: usize, o: &ObjId, idx: usize) -> bool {
        if !self.opts.avoid.iter().any(|a| a == "insert-after-counter") || idx == 0 {
            return false;
        }
        let doc = &self.reps[r].doc;
        let hit = match doc.get_all(o, idx - 1) {
            Ok(vs) => vs.iter().any(|(v, _)| matches!(v, automerge::Value::Scalar(s) if matches!(s.as_ref(), ScalarValue::Counter(_)))),
            Err(_) => false,
        };
        if hit {
            self.class("excluded_insert_after_counter");
        }
        hit
    }

    /// full two-way sync with fresh states to quiescence through encode/decode
    pub fn sync_pair(&mut self, a: usize, b: usize) -> Result<(), String> {
        let (mut sa, mut sb) = (sync::State::new(), sync::State::new());
        for _round in 0..200 {
            let mut any = false;
            let ma = self.reps[a].doc.sync().generate_sync_message(&mut sa);
            if let Some(m) = ma {
                any = true;
                let m = sync::Message::decode(&m.encode()).map_err(|e| format!("decode: {e}"))?;
                self.reps[b].doc.sync().receive_sync_message(&mut sb, m).map_err(|e| format!("receive: {e}"))?;
            }
            let mb = self.reps[b].doc.sync().generate_sync_message(&mut sb);
            if let Some(m) = mb {
                any = true;
                let m = sync::Message::decode(&m.encode()).map_err(|e| format!("decode: {e}"))?;
                self.reps[a].doc.sync().receive_sync_message(&mut sa, m).map_err(|e| format!("receive: {e}"))?;
            }
            if !any {
                return Ok(());
            }
        }
        Err("sync did not go quiet in 200 rounds".into())
    }
}
